// c10.cpp — harness for property C10 (NPE / LLTSA / LPP solve the full feature-space
// generalised eigenproblem).  One case per stdin line; before every case "C <index>" is printed
// and flushed so that a crash can be attributed.  All doubles cross the boundary as hex floats.
//
//  K <npe|lltsa|lpp> N D  x[N*D] (sample major)  nnz (r c v)*nnz  [dvec[N] for lpp]
//      calls construct_neighborhood_preserving_eigenproblem / construct_lltsa_eigenproblem /
//      construct_locality_preserving_eigenproblem DIRECTLY on a harness-chosen sparse matrix
//      (setFromTriplets, duplicates summed) and prints the FULL D x D tables (row major):
//        K ok lhs <D*D> rhs <D*D>
//  G D d  a[D*D] b[D*D] (row major, full tables; the caller puts garbage where it likes)
//      triangle probe: Eigen::GeneralizedSelfAdjointEigenSolver<DenseMatrix>(a, b) and tapkee's
//      generalized_eigendecomposition(Dense, HomogeneousCPUStrategy, SmallestEigenvalues, a, b, d)
//        G ok info evals <D> evecs <D*D row major> sel_evals <d> sel <D*d row major>
//  E <npe|lltsa|lpp> N D d k width nshift kshift em sep  x[N*D] (sample major)  [xk[N*D] if sep = 1]
//      em = 0: eigen_method = Dense; 1: eigen_method not given (the library's default); 2: Randomized (the library
//      refuses generalised problems with unsupported_method_error: printed as "E unsupported <what>");
//      3: Dense, embed() called from inside the harness's own `#pragma omp parallel num_threads(3)` region (omp single)
//      sep = 0: the kernel, distance and feature callbacks all see x; sep = 1: the feature callback sees x, the
//      kernel and distance callbacks see xk (Wave 3: translated features x = xk + t with the neighbourhood graph and
//      the alignment / weight matrix held fixed, i.e. a translation-invariant kernel: isolates the assembly of the pencil)
//      public API (tapkee::embed, neighbors_method = Brute) plus the
//      reference ingredients computed by the routines that own them (find_neighbors +
//      linear_weight_matrix / tangent_weight_matrix / compute_laplacian):
//        E ok shape .. chain <calls> <d> <smallest> <|lhs-own|/|own|> <|rhs-own|/|own|> <|P-result|>
//             P <D*d row major> mean <D> Y <N*d row major> M <N*N row major> dv <N>
//             recL <D*D> recR <D*D>   (the pencil embed() handed to the solver, as recorded; empty if not recorded)
//      (chain: the dense pencil embed() handed to generalized_eigendecomposition, recorded by a macro shim,
//       against construct_*(same ingredients) called by the harness; P against the recorded result)
//      (dv = degree vector for lpp, empty otherwise; the reference pencils X M X^T, X B X^T and all
//       residuals are computed by the caller from these with plain full-matrix arithmetic in
//       the harness helper command R below, or in Python)
//  R N D d  x[N*D]  M[N*N]  bkind(0 identity,1 centring,2 diag) dv[N]  P[D*d]
//      reference arithmetic with plain loops (no selfadjoint views, no rankUpdate):
//      A = X M X^T, B = X Bmat X^T (FULL matrices), Eigen generalized solver on the full
//      symmetric pair for the reference spectrum:
//        R ok ref_evals <D> rq <d> res <d> gram <d*d> (P^T B P) norms <|A|> <|B|> condB <cond(B)>
//             tab2A <D*D> (X (M + M^T) X^T) tabB <D*D> (X Bmat X^T) absA <D*D> (|X| (|M| + |M|^T) |X|^T) absB <D*D>
//             (the reference tables themselves and the entrywise magnitudes that bound the rounding error of ANY
//              direct summation of them: the caller compares the pencil recorded inside embed() against these)
//  J N D d  x[N*D] (sample major)  P[D*d] (row major)
//      compute_mean and project of routines/pca.hpp called DIRECTLY (what the three methods do after the solver):
//        J ok mean <D> Y <N*d row major>
//  any failure:  "<cmd> ERR <exception text>"
#include <cmath>
#include <cstdio>
#include <cstdlib>
#include <cstring>
#include <exception>
#include <iostream>
#include <sstream>
#include <string>
#include <vector>

// The driver is built twice (in parallel) from this one file:
//   -DC10_PART=1  commands K, G, R  (the construct_* routines and the dense generalised solver
//                 front end only: a light translation unit)
//   -DC10_PART=2  command E         (tapkee::embed, i.e. the whole library: a heavy one)
//   no C10_PART   everything
#ifndef C10_PART
#define C10_PART 0
#endif
#if C10_PART == 1
#include <tapkee/defines.hpp>
#include <tapkee/utils/logging.hpp>
#include <tapkee/utils/naming.hpp>
#include <tapkee/utils/time.hpp>
#include <tapkee/callbacks/eigen_callbacks.hpp>
#include <tapkee/routines/generalized_eigendecomposition.hpp>
#include <tapkee/routines/laplacian_eigenmaps.hpp>
#include <tapkee/routines/locally_linear.hpp>
#include <tapkee/routines/pca.hpp>
#else
// Recording shim (no source hook): the routine header is included FIRST (so its definitions are not
// touched and `#pragma once` keeps it from being seen again), then the call sites in methods/*.hpp
// `generalized_eigendecomposition(...)` are redirected to c10_record, which copies the dense pencil
// the method hands over and the result it gets back, and forwards to the real function.
#include <tapkee/defines.hpp>
#include <tapkee/utils/logging.hpp>
#include <tapkee/utils/naming.hpp>
#include <tapkee/utils/time.hpp>
#include <tapkee/routines/generalized_eigendecomposition.hpp>
namespace tapkee
{
namespace tapkee_internal
{
struct C10Record
{
    int calls;
    int d;
    bool smallest;
    DenseMatrix lhs, rhs, vecs;
    C10Record() : calls(0), d(-1), smallest(false) {}
};
inline C10Record& c10_rec()
{
    static C10Record r;
    return r;
}
template <class LMatrixType, class RMatrixType>
EigendecompositionResult c10_record(const EigenMethod& m, const ComputationStrategy& s,
                                    const EigendecompositionStrategy& es, const LMatrixType& lhs,
                                    const RMatrixType& rhs, IndexType d)
{
    return (generalized_eigendecomposition)(m, s, es, lhs, rhs, d);
}
inline EigendecompositionResult c10_record(const EigenMethod& m, const ComputationStrategy& s,
                                           const EigendecompositionStrategy& es, const DenseMatrix& lhs,
                                           const DenseMatrix& rhs, IndexType d)
{
    C10Record& r = c10_rec();
    r.calls++;
    r.d = (int)d;
    r.smallest = es.is(SmallestEigenvalues);
    r.lhs = lhs;
    r.rhs = rhs;
    EigendecompositionResult res = (generalized_eigendecomposition)(m, s, es, lhs, rhs, d);
    r.vecs = res.first;
    return res;
}
} // namespace tapkee_internal
} // namespace tapkee
#define generalized_eigendecomposition(...) c10_record(__VA_ARGS__)
#include <tapkee/tapkee.hpp>
#undef generalized_eigendecomposition
#include <tapkee/callbacks/eigen_callbacks.hpp>
#include <tapkee/routines/laplacian_eigenmaps.hpp>
#include <tapkee/routines/locally_linear.hpp>
#endif

using namespace tapkee;
using namespace tapkee::tapkee_internal;

static bool rd(std::istringstream& is, double& x)
{
    std::string t;
    if (!(is >> t)) return false;
    char* e = NULL;
    x = strtod(t.c_str(), &e);
    return e != t.c_str();
}

static void pm(const char* tag, const DenseMatrix& m)
{
    printf(" %s", tag);
    for (int i = 0; i < m.rows(); i++)
        for (int j = 0; j < m.cols(); j++)
            printf(" %a", m(i, j));
}
static void pv(const char* tag, const DenseVector& v)
{
    printf(" %s", tag);
    for (int i = 0; i < v.size(); i++)
        printf(" %a", v(i));
}

static bool read_x(std::istringstream& is, int N, int D, DenseMatrix& X)
{
    X.resize(D, N);
    for (int s = 0; s < N; s++)
        for (int f = 0; f < D; f++)
            if (!rd(is, X(f, s))) return false;
    return true;
}

#if C10_PART != 2
static int do_K(std::istringstream& is)
{
    std::string m;
    int N, D, nnz;
    is >> m >> N >> D;
    if (!is || N < 0 || D < 0 || N > 4096 || D > 512) { printf("K ERR parse\n"); return 0; }
    DenseMatrix X;
    if (!read_x(is, N, D, X)) { printf("K ERR parse\n"); return 0; }
    is >> nnz;
    if (!is || nnz < 0) { printf("K ERR parse\n"); return 0; }
    SparseTriplets trip;
    for (int t = 0; t < nnz; t++)
    {
        int r, c;
        double v;
        is >> r >> c;
        if (!is || !rd(is, v) || r < 0 || c < 0 || r >= N || c >= N) { printf("K ERR parse\n"); return 0; }
        trip.push_back(SparseTriplet(r, c, v));
    }
    SparseWeightMatrix W(N, N);
    W.setFromTriplets(trip.begin(), trip.end());
    std::vector<IndexType> idx(N);
    for (int i = 0; i < N; i++) idx[i] = i;
    eigen_features_callback fcb(X);
    DenseSymmetricMatrixPair pr;
    if (m == "npe")
        pr = construct_neighborhood_preserving_eigenproblem(W, idx.begin(), idx.end(), fcb, D);
    else if (m == "lltsa")
        pr = construct_lltsa_eigenproblem(W, idx.begin(), idx.end(), fcb, D);
    else if (m == "lpp")
    {
        DenseVector dv(N);
        for (int i = 0; i < N; i++)
            if (!rd(is, dv(i))) { printf("K ERR parse\n"); return 0; }
        DenseDiagonalMatrix Dm(dv);
        pr = construct_locality_preserving_eigenproblem(W, Dm, idx.begin(), idx.end(), fcb, D);
    }
    else { printf("K ERR method\n"); return 0; }
    if (pr.first.rows() != D || pr.first.cols() != D || pr.second.rows() != D || pr.second.cols() != D)
    {
        printf("K ERR shape %d %d %d %d\n", (int)pr.first.rows(), (int)pr.first.cols(), (int)pr.second.rows(),
               (int)pr.second.cols());
        return 0;
    }
    printf("K ok");
    pm("lhs", pr.first);
    pm("rhs", pr.second);
    printf("\n");
    return 0;
}

static int do_G(std::istringstream& is)
{
    int D, d;
    is >> D >> d;
    if (!is || D <= 0 || D > 512 || d <= 0 || d > D) { printf("G ERR parse\n"); return 0; }
    DenseMatrix A(D, D), B(D, D);
    for (int i = 0; i < D; i++) for (int j = 0; j < D; j++) if (!rd(is, A(i, j))) { printf("G ERR parse\n"); return 0; }
    for (int i = 0; i < D; i++) for (int j = 0; j < D; j++) if (!rd(is, B(i, j))) { printf("G ERR parse\n"); return 0; }
    Eigen::GeneralizedSelfAdjointEigenSolver<DenseMatrix> solver(A, B);
    EigendecompositionResult r =
        generalized_eigendecomposition(EigenMethod(Dense), ComputationStrategy(HomogeneousCPUStrategy),
                                       SmallestEigenvalues, A, B, d);
    printf("G ok %d", solver.info() == Eigen::Success ? 1 : 0);
    pv("evals", solver.eigenvalues());
    pm("evecs", solver.eigenvectors());
    // the eigenvalue slice of the dense branch is defect F7's territory (segment length); only
    // the first d entries belong to this property
    DenseVector sel = r.second.size() >= d ? DenseVector(r.second.head(d)) : DenseVector(r.second);
    pv("sel_evals", sel);
    printf(" shape %d %d", (int)r.first.rows(), (int)r.first.cols());
    pm("sel", r.first);
    printf("\n");
    return 0;
}

static int do_J(std::istringstream& is)
{
    int N, D, d;
    is >> N >> D >> d;
    if (!is || N <= 0 || D <= 0 || d <= 0 || N > 4096 || D > 512 || d > 512) { printf("J ERR parse\n"); return 0; }
    DenseMatrix X;
    if (!read_x(is, N, D, X)) { printf("J ERR parse\n"); return 0; }
    DenseMatrix P(D, d);
    for (int i = 0; i < D; i++) for (int j = 0; j < d; j++) if (!rd(is, P(i, j))) { printf("J ERR parse\n"); return 0; }
    std::vector<IndexType> idx(N);
    for (int i = 0; i < N; i++) idx[i] = i;
    eigen_features_callback fcb(X);
    DenseVector mean = compute_mean(idx.begin(), idx.end(), fcb, (IndexType)D);
    DenseMatrix Y = project(P, mean, idx.begin(), idx.end(), fcb, (IndexType)D);
    if (mean.size() != D || Y.rows() != N || Y.cols() != d)
    {
        printf("J ERR shape %d %d %d\n", (int)mean.size(), (int)Y.rows(), (int)Y.cols());
        return 0;
    }
    printf("J ok");
    pv("mean", mean);
    pm("Y", Y);
    printf("\n");
    return 0;
}
#endif // C10_PART != 2

#if C10_PART != 1
static int method_of(const std::string& m)
{
    if (m == "npe") return 0;
    if (m == "lltsa") return 1;
    if (m == "lpp") return 2;
    return -1;
}

static int do_E(std::istringstream& is)
{
    std::string m;
    int N, D, d, k, em = 0;
    double width, nshift, kshift;
    is >> m >> N >> D >> d >> k;
    if (!is || !rd(is, width) || !rd(is, nshift) || !rd(is, kshift) || N <= 0 || D <= 0 || N > 4096 || D > 512)
    { printf("E ERR parse\n"); return 0; }
    int sep = 0;
    is >> em >> sep;
    if (!is || em < 0 || em > 3 || sep < 0 || sep > 1) { printf("E ERR parse\n"); return 0; }
    int mi = method_of(m);
    if (mi < 0) { printf("E ERR method\n"); return 0; }
    DenseMatrix X, XK;
    if (!read_x(is, N, D, X)) { printf("E ERR parse\n"); return 0; }
    if (sep == 1) { if (!read_x(is, N, D, XK)) { printf("E ERR parse\n"); return 0; } }
    else XK = X;
    std::vector<IndexType> idx(N);
    for (int i = 0; i < N; i++) idx[i] = i;
    eigen_kernel_callback kcb(XK);
    eigen_distance_callback dcb(XK);
    eigen_features_callback fcb(X);
    TapkeeOutput out;
    c10_rec() = C10Record();
    DimensionReductionMethod meth = mi == 0 ? NeighborhoodPreservingEmbedding
                                  : mi == 1 ? LinearLocalTangentSpaceAlignment
                                            : LocalityPreservingProjections;
    try
    {
        if (em == 3)
        {
            // the call made from INSIDE an application's own parallel region (one thread of a team of three calls
            // embed; nested parallelism is whatever the runtime's default is): same answer as the plain call
            std::exception_ptr ep;
#pragma omp parallel num_threads(3)
            {
#pragma omp single
                {
                    try
                    {
                        out = embed(idx.begin(), idx.end(), kcb, dcb, fcb,
                                    (method = meth, target_dimension = (IndexType)d, num_neighbors = (IndexType)k,
                                     gaussian_kernel_width = width, nullspace_shift = nshift, klle_shift = kshift,
                                     neighbors_method = Brute, eigen_method = Dense));
                    }
                    catch (...)
                    {
                        ep = std::current_exception();
                    }
                }
            }
            if (ep) std::rethrow_exception(ep);
        }
        else if (em == 1)
            out = embed(idx.begin(), idx.end(), kcb, dcb, fcb,
                        (method = meth, target_dimension = (IndexType)d, num_neighbors = (IndexType)k,
                         gaussian_kernel_width = width, nullspace_shift = nshift, klle_shift = kshift,
                         neighbors_method = Brute));
        else
            out = embed(idx.begin(), idx.end(), kcb, dcb, fcb,
                        (method = meth, target_dimension = (IndexType)d, num_neighbors = (IndexType)k,
                         gaussian_kernel_width = width, nullspace_shift = nshift, klle_shift = kshift,
                         neighbors_method = Brute, eigen_method = (em == 2 ? Randomized : Dense)));
    }
    catch (const unsupported_method_error& ex)
    {
        std::string w = ex.what();
        for (size_t i = 0; i < w.size(); i++) if (w[i] == '\n') w[i] = ' ';
        printf("E unsupported %s\n", w.c_str());
        return 0;
    }
    MatrixProjectionImplementation* impl =
        dynamic_cast<MatrixProjectionImplementation*>(out.projection.implementation.get());
    if (impl == NULL) { printf("E ERR no-projection\n"); return 0; }
    // reference ingredients from the routines that own them
    typedef std::vector<IndexType>::iterator It;
    DenseMatrix M;
    DenseVector dv(0);
    DenseSymmetricMatrixPair own;   // the routine's output on the same ingredients, called by the harness
    if (mi == 2)
    {
        PlainDistance<It, eigen_distance_callback> pd(dcb);
        Neighbors nb = find_neighbors(NeighborsMethod(Brute), idx.begin(), idx.end(), pd, (IndexType)k, true);
        Laplacian lap = compute_laplacian(idx.begin(), idx.end(), nb, dcb, width);
        M = DenseMatrix(lap.first);
        dv = lap.second.diagonal();
        own = construct_locality_preserving_eigenproblem(lap.first, lap.second, idx.begin(), idx.end(), fcb, (IndexType)D);
    }
    else
    {
        KernelDistance<It, eigen_kernel_callback> kd(kcb);
        Neighbors nb = find_neighbors(NeighborsMethod(Brute), idx.begin(), idx.end(), kd, (IndexType)k, true);
        if (mi == 0)
        {
            SparseWeightMatrix W = linear_weight_matrix(idx.begin(), idx.end(), nb, kcb, nshift, kshift);
            M = DenseMatrix(W);
            own = construct_neighborhood_preserving_eigenproblem(W, idx.begin(), idx.end(), fcb, (IndexType)D);
        }
        else
        {
            SparseWeightMatrix W = tangent_weight_matrix(idx.begin(), idx.end(), nb, kcb, (IndexType)d, nshift);
            M = DenseMatrix(W);
            own = construct_lltsa_eigenproblem(W, idx.begin(), idx.end(), fcb, (IndexType)D);
        }
    }
    // structural chain: embed() = construct_* -> generalized_eigendecomposition -> project
    const C10Record& rec = c10_rec();
    double dl = -1, dr = -1, dp = -1;
    if (rec.calls == 1 && rec.lhs.rows() == own.first.rows() && rec.lhs.cols() == own.first.cols() &&
        rec.rhs.rows() == own.second.rows() && rec.rhs.cols() == own.second.cols())
    {
        dl = (rec.lhs - own.first).norm() / (own.first.norm() + 1e-300);
        dr = (rec.rhs - own.second).norm() / (own.second.norm() + 1e-300);
    }
    if (rec.calls == 1 && rec.vecs.rows() == impl->proj_mat.rows() && rec.vecs.cols() == impl->proj_mat.cols())
        dp = (rec.vecs - impl->proj_mat).norm();
    printf("E ok shape %d %d %d %d", (int)impl->proj_mat.rows(), (int)impl->proj_mat.cols(),
           (int)out.embedding.rows(), (int)out.embedding.cols());
    printf(" chain %d %d %d %a %a %a", rec.calls, rec.d, rec.smallest ? 1 : 0, dl, dr, dp);
    pm("P", impl->proj_mat);
    pv("mean", impl->mean_vec);
    pm("Y", out.embedding);
    pm("M", M);
    pv("dv", dv);
    if (rec.calls == 1 && rec.lhs.rows() == D && rec.lhs.cols() == D && rec.rhs.rows() == D && rec.rhs.cols() == D)
    {
        pm("recL", rec.lhs);
        pm("recR", rec.rhs);
    }
    printf("\n");
    return 0;
}

#endif // C10_PART != 1

#if C10_PART != 2
// plain reference arithmetic: nothing here knows about triangles
static int do_R(std::istringstream& is)
{
    int N, D, d, bkind;
    is >> N >> D >> d;
    if (!is || N <= 0 || D <= 0 || d <= 0 || N > 4096 || D > 512 || d > D) { printf("R ERR parse\n"); return 0; }
    DenseMatrix X;
    if (!read_x(is, N, D, X)) { printf("R ERR parse\n"); return 0; }
    DenseMatrix M(N, N);
    for (int i = 0; i < N; i++) for (int j = 0; j < N; j++) if (!rd(is, M(i, j))) { printf("R ERR parse\n"); return 0; }
    is >> bkind;
    DenseVector dv(N);
    for (int i = 0; i < N; i++) if (!rd(is, dv(i))) { printf("R ERR parse\n"); return 0; }
    DenseMatrix P(D, d);
    for (int i = 0; i < D; i++) for (int j = 0; j < d; j++) if (!rd(is, P(i, j))) { printf("R ERR parse\n"); return 0; }
    DenseMatrix Bm = DenseMatrix::Zero(N, N);
    for (int i = 0; i < N; i++)
        for (int j = 0; j < N; j++)
            Bm(i, j) = bkind == 0 ? (i == j ? 1.0 : 0.0)
                     : bkind == 1 ? ((i == j ? 1.0 : 0.0) - 1.0 / N)
                                  : (i == j ? dv(i) : 0.0);
    DenseMatrix A = DenseMatrix::Zero(D, D), B = DenseMatrix::Zero(D, D);
    DenseMatrix XM = DenseMatrix::Zero(D, N), XB = DenseMatrix::Zero(D, N);
    for (int f = 0; f < D; f++)
        for (int t = 0; t < N; t++)
        {
            double a = 0, b = 0;
            for (int s = 0; s < N; s++) { a += X(f, s) * M(s, t); b += X(f, s) * Bm(s, t); }
            XM(f, t) = a; XB(f, t) = b;
        }
    for (int f = 0; f < D; f++)
        for (int g = 0; g < D; g++)
        {
            double a = 0, b = 0;
            for (int t = 0; t < N; t++) { a += XM(f, t) * X(g, t); b += XB(f, t) * X(g, t); }
            A(f, g) = a; B(f, g) = b;
        }
    // make the reference pair exactly symmetric (rounding only), then any triangle gives the same
    DenseMatrix As = 0.5 * (A + A.transpose()), Bs = 0.5 * (B + B.transpose());
    Eigen::GeneralizedSelfAdjointEigenSolver<DenseMatrix> ref(As, Bs);
    DenseVector rq(d), res(d);
    for (int j = 0; j < d; j++)
    {
        DenseVector p = P.col(j);
        DenseVector Ap = As * p, Bp = Bs * p;
        double den = p.dot(Bp);
        double lam = p.dot(Ap) / den;
        rq(j) = lam;
        res(j) = (Ap - lam * Bp).norm() / (As.norm() * p.norm() + 1e-300);
    }
    DenseMatrix gram = P.transpose() * Bs * P;
    printf("R ok %d", ref.info() == Eigen::Success ? 1 : 0);
    pv("ref_evals", ref.eigenvalues());
    pv("rq", rq);
    pv("res", res);
    pm("gram", gram);
    // conditioning of the right-hand side: the caller scales its tolerances with it
    Eigen::SelfAdjointEigenSolver<DenseMatrix> eb(Bs);
    double bmin = eb.eigenvalues().minCoeff(), bmax = eb.eigenvalues().maxCoeff();
    double condB = (bmin > 0) ? bmax / bmin : INFINITY;
    printf(" norms %a %a condB %a", As.norm(), Bs.norm(), condB);
    // the reference tables and the magnitudes |X| (|M| + |M|^T) |X|^T, |X| |Bmat| |X|^T (plain loops)
    DenseMatrix absA = DenseMatrix::Zero(D, D), absB = DenseMatrix::Zero(D, D);
    {
        DenseMatrix XMa = DenseMatrix::Zero(D, N), XBa = DenseMatrix::Zero(D, N);
        for (int f = 0; f < D; f++)
            for (int t = 0; t < N; t++)
            {
                double a = 0, b = 0;
                for (int s = 0; s < N; s++)
                {
                    a += std::fabs(X(f, s)) * (std::fabs(M(s, t)) + std::fabs(M(t, s)));
                    b += std::fabs(X(f, s)) * std::fabs(Bm(s, t));
                }
                XMa(f, t) = a; XBa(f, t) = b;
            }
        for (int f = 0; f < D; f++)
            for (int g = 0; g < D; g++)
            {
                double a = 0, b = 0;
                for (int t = 0; t < N; t++) { a += XMa(f, t) * std::fabs(X(g, t)); b += XBa(f, t) * std::fabs(X(g, t)); }
                absA(f, g) = a; absB(f, g) = b;
            }
    }
    DenseMatrix A2 = A + A.transpose();
    pm("tab2A", A2);
    pm("tabB", Bs);
    pm("absA", absA);
    pm("absB", absB);
    printf("\n");
    return 0;
}

#endif // C10_PART != 2

int main()
{
    std::string line;
    long idx = 0;
    tapkee::Logging::instance().disable_info();
    tapkee::Logging::instance().disable_warning();
    while (std::getline(std::cin, line))
    {
        if (line.empty()) continue;
        std::istringstream is(line);
        std::string cmd;
        is >> cmd;
        printf("C %ld\n", idx++);
        fflush(stdout);
        try
        {
            if (false) {}
#if C10_PART != 2
            else if (cmd == "K") do_K(is);
            else if (cmd == "G") do_G(is);
            else if (cmd == "R") do_R(is);
            else if (cmd == "J") do_J(is);
#endif
#if C10_PART != 1
            else if (cmd == "E") do_E(is);
#endif
            else printf("? ERR unknown\n");
        }
        catch (const std::exception& ex)
        {
            std::string w = ex.what();
            for (size_t i = 0; i < w.size(); i++) if (w[i] == '\n') w[i] = ' ';
            printf("%s ERR %s\n", cmd.c_str(), w.c_str());
        }
        fflush(stdout);
    }
    return 0;
}
