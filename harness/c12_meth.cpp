// C12 harness (3/3): the embed() bodies of Isomap, MDS, kernel PCA and PCA AS THE LIBRARY TEXT HAS THEM,
// with the matrices that flow between their stages recorded (exact stage-level stream of checks/c12.py).
// The technique is the one of harness/c04.cpp: inside methods/{isomap,multidimensional_scaling,kernel_pca,
// pca}.hpp (and only there) the identifiers `compute_shortest_distances_matrix(` and `eigendecomposition_via(`
// are wrapped by function-like macros that record the result / the matrix handed to the solver and forward
// to the real functions (whose definitions are included BEFORE the macros; #pragma once keeps them).  The
// implementations are constructed the way tapkee::embed() + DynamicImplementation::embedUsing() construct
// them (parameters.check(); checkTypes; merge(defaults); Context; ImplementationBase; validate(); embed()).
// The source is untouched.  Not <tapkee/tapkee.hpp>: the public dispatcher would instantiate all twenty
// methods for every callback triple.
//
// Input: one command per line (hex floats)
//   METH <id> isomap <N> <k> <d> <N*N doubles: distance table, row-major>
//   METH <id> mds    <N> <k> <d> <N*N doubles>                      (k ignored)
//   METN <id> isomap <N> <k> <d> <nm: 0 brute | 1 vptree | 2 covertree> <seed> <N*N doubles>
//        the same Isomap body with the given neighbours method; srand(seed) before the call (the VP-tree draws
//        its pivots from std::rand); used by the tied-data stream (integer lattice metrics, exact ties)
//   METH <id> kpca   <N> <D> <d> <N*D doubles: features, sample-major>   (stock linear kernel callback)
//   METH <id> pca    <N> <D> <d> <N*D doubles>                            (stock features callback)
//     -> R <id> OK st 1 1 <0: returned | 1: threw> [| geo N N ..] | H n n ..   (geo: Isomap only; H = the matrix
//        handed to eigendecomposition_via; both absent when the call threw before reaching them)
// Output (every line flushed):  C <id> before the call, R <id> .. result, T <id> watchdog (exit code 7).
#include <cmath>
#include <csignal>
#include <cstdio>
#include <cstdlib>
#include <cstring>
#include <iostream>
#include <numeric>
#include <sstream>
#include <string>
#include <unistd.h>
#include <vector>

#include <tapkee/defines.hpp>
#include <tapkee/utils/matrix.hpp> // routines/pca.hpp and methods/isomap.hpp use centerMatrix without including it
#include <tapkee/methods/base.hpp>
#include <tapkee/routines/eigendecomposition.hpp>
#include <tapkee/routines/isomap.hpp>
#include <tapkee/routines/multidimensional_scaling.hpp>
#include <tapkee/routines/pca.hpp>

namespace vh12
{
using tapkee::DenseMatrix;
struct capture_t
{
    bool have_geo = false, have_handed = false;
    DenseMatrix geo, handed;
    void reset()
    {
        have_geo = have_handed = false;
    }
};
inline capture_t& cap()
{
    static capture_t c;
    return c;
}
template <class It, class CB> DenseMatrix cap_geo(It, It, tapkee::tapkee_internal::Neighbors&, CB, DenseMatrix r)
{
    cap().geo = r;
    cap().have_geo = true;
    return r;
}
template <class M> void cap_handed(const M& m)
{
    cap().handed = DenseMatrix(m);
    cap().have_handed = true;
}
} // namespace vh12

#define compute_shortest_distances_matrix(...)                                                                         \
    ::vh12::cap_geo(__VA_ARGS__, compute_shortest_distances_matrix(__VA_ARGS__))
#define eigendecomposition_via(S, M, D) (::vh12::cap_handed(M), eigendecomposition_via(S, M, D))
#include <tapkee/methods/isomap.hpp>
#include <tapkee/methods/kernel_pca.hpp>
#include <tapkee/methods/multidimensional_scaling.hpp>
#include <tapkee/methods/pca.hpp>
#undef compute_shortest_distances_matrix
#undef eigendecomposition_via

#include <tapkee/callbacks/dummy_callbacks.hpp>
#include <tapkee/callbacks/eigen_callbacks.hpp>
#include <tapkee/parameters/defaults.hpp>

using namespace tapkee;

static volatile long g_current_id = -1;

static void on_alarm(int)
{
    char buf[64];
    int n = snprintf(buf, sizeof buf, "T %ld\n", (long)g_current_id);
    if (write(1, buf, n) < 0)
    {
    }
    _exit(7);
}

static std::string hex(double x)
{
    char buf[64];
    if (std::isnan(x))
        return "nan";
    if (std::isinf(x))
        return x > 0 ? "inf" : "-inf";
    snprintf(buf, sizeof buf, "%a", x);
    return buf;
}

static void put_matrix(std::ostringstream& os, const char* tag, const DenseMatrix& M)
{
    os << tag << " " << M.rows() << " " << M.cols();
    for (Eigen::Index i = 0; i < M.rows(); i++)
        for (Eigen::Index j = 0; j < M.cols(); j++)
            os << " " << hex(M(i, j));
}

static bool get_doubles(std::istringstream& ss, long count, std::vector<double>& out)
{
    out.clear();
    std::string tok;
    for (long i = 0; i < count; i++)
    {
        if (!(ss >> tok))
            return false;
        char* end = nullptr;
        double v = strtod(tok.c_str(), &end);
        if (end == tok.c_str())
            return false;
        out.push_back(v);
    }
    return true;
}

struct table_callback
{
    const DenseMatrix* T;
    inline ScalarType distance(IndexType a, IndexType b) const
    {
        return (*T)(a, b);
    }
};

typedef std::vector<IndexType>::const_iterator It;

template <template <class, class, class, class> class Impl, class KCB, class DCB, class FCB>
static void run_one(const std::vector<IndexType>& idx, KCB kcb, DCB dcb, FCB fcb, int k, int d, int nm = 0)
{
    typedef tapkee_internal::ImplementationBase<It, KCB, DCB, FCB> Base;
    // the statements of tapkee::embed() (embed.hpp) and DynamicImplementation::embedUsing (methods.hpp)
    stichwort::ParametersSet parameters =
        (num_neighbors = (IndexType)k, target_dimension = (IndexType)d, eigen_method = Dense);
    if (nm == 1)
        parameters.add(neighbors_method = VpTree);
    else if (nm == 2)
        parameters.add(neighbors_method = CoverTree);
    else
        parameters.add(neighbors_method = Brute);
    parameters.check();
    parameters.checkTypes(tapkee_internal::defaults);
    parameters.merge(tapkee_internal::defaults);
    tapkee_internal::Context context(nullptr, nullptr);
    It b = idx.begin(), e = idx.end();
    Base base(b, e, kcb, dcb, fcb, parameters, context);
    Impl<It, KCB, DCB, FCB> implementation(base);
    implementation.validate();
    TapkeeOutput out = implementation.embed();
    (void)out;
}

int main()
{
    std::ios::sync_with_stdio(true);
    setvbuf(stdout, nullptr, _IOLBF, 0);
    signal(SIGALRM, on_alarm);
    Logging::instance().disable_info();
    Logging::instance().disable_warning();
    Logging::instance().disable_error();
    Logging::instance().disable_benchmark();
    Logging::instance().disable_debug();

    std::string line;
    while (std::getline(std::cin, line))
    {
        std::istringstream ss(line);
        std::string cmd, meth;
        long id = -1;
        if (!(ss >> cmd >> id))
            continue;
        g_current_id = id;
        int N = 0, a = 0, d = 0, nm = 0;
        long seed = -1;
        std::vector<double> v;
        bool table = false;
        bool ok = (cmd == "METH" || cmd == "METN") && bool(ss >> meth >> N >> a >> d) && N > 0 && N <= 2048 && a >= 0 &&
                  a <= 4096 && d > 0;
        if (ok && cmd == "METN")
            ok = meth == "isomap" && bool(ss >> nm >> seed) && nm >= 0 && nm <= 2;
        if (ok)
        {
            table = (meth == "isomap" || meth == "mds");
            ok = (table || meth == "kpca" || meth == "pca") && (table || a > 0) &&
                 get_doubles(ss, table ? (long)N * N : (long)N * a, v);
        }
        if (!ok)
        {
            printf("C %ld\nR %ld BADCASE\n", id, id);
            fflush(stdout);
            continue;
        }
        printf("C %ld\n", id);
        fflush(stdout);
        alarm(10);
        std::vector<IndexType> idx(N);
        std::iota(idx.begin(), idx.end(), 0);
        vh12::cap().reset();
        int threw = 0;
        try
        {
            if (table)
            {
                DenseMatrix T(N, N);
                for (int i = 0; i < N; i++)
                    for (int j = 0; j < N; j++)
                        T(i, j) = v[(size_t)i * N + j];
                table_callback cb{&T};
                typedef dummy_kernel_callback<IndexType> KCB;
                typedef dummy_features_callback<IndexType> FCB;
                if (seed >= 0)
                    srand((unsigned)seed);
                if (meth == "isomap")
                    run_one<tapkee_internal::IsomapImplementation>(idx, KCB(), cb, FCB(), a, d, nm);
                else
                    run_one<tapkee_internal::MultidimensionalScalingImplementation>(idx, KCB(), cb, FCB(), a, d);
            }
            else
            {
                DenseMatrix X(a, N);
                for (int i = 0; i < N; i++)
                    for (int j = 0; j < a; j++)
                        X(j, i) = v[(size_t)i * a + j];
                typedef dummy_distance_callback<IndexType> DCB;
                if (meth == "kpca")
                    run_one<tapkee_internal::KernelPrincipalComponentAnalysisImplementation>(
                        idx, eigen_kernel_callback(X), DCB(), dummy_features_callback<IndexType>(), 5, d);
                else
                    run_one<tapkee_internal::PrincipalComponentAnalysisImplementation>(
                        idx, dummy_kernel_callback<IndexType>(), DCB(), eigen_features_callback(X), 5, d);
            }
        }
        catch (const std::exception& ex)
        {
            threw = 1;
            if (getenv("C12_METH_DEBUG"))
                fprintf(stderr, "exception: %s\n", ex.what());
        }
        catch (...)
        {
            threw = 1;
        }
        alarm(0);
        std::ostringstream os;
        os << "R " << id << " OK st 1 1 " << hex((double)threw);
        if (vh12::cap().have_geo)
        {
            os << " | ";
            put_matrix(os, "geo", vh12::cap().geo);
        }
        if (vh12::cap().have_handed)
        {
            os << " | ";
            put_matrix(os, "H", vh12::cap().handed);
        }
        puts(os.str().c_str());
        fflush(stdout);
    }
    return 0;
}
