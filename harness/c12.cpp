// C12 harness (1/2): the assemble stages of the deterministic methods, called directly
// (exact stream of checks/c12.py).  The public-API driver is harness/c12_emb.cpp.
//
// Input: one command per line (numbers: anything strtod accepts; the Python side sends hex floats)
//   KPCA <id> <N> <D> <N*D doubles, sample-major>
//        compute_centered_kernel_matrix(begin, end, eigen_kernel_callback)
//        -> R <id> OK M <N> <N> ...
//   MDS <id> <N> <N*N doubles, row-major distance table>
//        compute_distance_matrix(begin, end, table callback); centerMatrix; *= -0.5  (the three
//        statements of methods/multidimensional_scaling.hpp embed())
//        -> R <id> OK M <N> <N> ...
//   PCA <id> <N> <D> <d> <N*D doubles> <D*d doubles (projection matrix, row-major)>
//        compute_mean; compute_covariance_matrix; project(P, mean)
//        -> R <id> OK mean <D> 1 ... | cov <D> <D> ... | proj <N> <d> ...   (one line, '|' separated)
// Output (every line flushed):
//   C <id>       marker printed BEFORE the work of a command (a crash / hang belongs to it)
//   R <id> ...   result
//   T <id>       the in-process watchdog fired; the process exits with code 7
// Doubles are printed with %a (exact).
#include <cmath>
#include <csignal>
#include <cstdio>
#include <cstdlib>
#include <cstring>
#include <iostream>
#include <map>
#include <sstream>
#include <string>
#include <unistd.h>
#include <vector>

#include <tapkee/callbacks/eigen_callbacks.hpp>
#include <tapkee/defines.hpp>
#include <tapkee/utils/matrix.hpp>
#include <tapkee/routines/multidimensional_scaling.hpp>
#include <tapkee/routines/pca.hpp>
#include <tapkee/utils/logging.hpp>

using namespace tapkee;

static volatile long g_current_id = -1;

static void on_alarm(int)
{
    char buf[64];
    int n = snprintf(buf, sizeof buf, "T %ld\n", (long)g_current_id);
    if (write(1, buf, n) < 0)
    {
    }
    _exit(7);
}

static std::string hex(double x)
{
    char buf[64];
    if (std::isnan(x))
        return "nan";
    if (std::isinf(x))
        return x > 0 ? "inf" : "-inf";
    snprintf(buf, sizeof buf, "%a", x);
    return buf;
}

static void put_matrix(std::ostringstream& os, const char* tag, const DenseMatrix& M)
{
    os << tag << " " << M.rows() << " " << M.cols();
    for (Eigen::Index i = 0; i < M.rows(); i++)
        for (Eigen::Index j = 0; j < M.cols(); j++)
            os << " " << hex(M(i, j));
}

static bool get_doubles(std::istringstream& ss, long count, std::vector<double>& out)
{
    out.clear();
    std::string tok;
    for (long i = 0; i < count; i++)
    {
        if (!(ss >> tok))
            return false;
        char* end = nullptr;
        double v = strtod(tok.c_str(), &end);
        if (end == tok.c_str())
            return false;
        out.push_back(v);
    }
    return true;
}

struct table_distance_callback
{
    table_distance_callback(const DenseMatrix& t) : table(t)
    {
    }
    inline ScalarType distance(IndexType a, IndexType b) const
    {
        return table(a, b);
    }
    inline ScalarType operator()(IndexType a, IndexType b) const
    {
        return table(a, b);
    }
    const DenseMatrix& table;
};

int main()
{
    std::ios::sync_with_stdio(true);
    setvbuf(stdout, nullptr, _IOLBF, 0);
    signal(SIGALRM, on_alarm);
    Logging::instance().disable_info();
    Logging::instance().disable_warning();
    Logging::instance().disable_error();
    Logging::instance().disable_benchmark();
    Logging::instance().disable_debug();

    std::string line;
    while (std::getline(std::cin, line))
    {
        std::istringstream ss(line);
        std::string cmd;
        long id = -1;
        if (!(ss >> cmd >> id))
            continue;
        g_current_id = id;
        if (cmd == "KPCA")
        {
            int N = 0, D = 0;
            std::vector<double> v;
            if (!(ss >> N >> D) || N <= 0 || D <= 0 || N > 4096 || D > 4096 || !get_doubles(ss, (long)N * D, v))
            {
                printf("C %ld\nR %ld BADCASE\n", id, id);
                continue;
            }
            printf("C %ld\n", id);
            fflush(stdout);
            alarm(20);
            DenseMatrix X(D, N);
            for (int i = 0; i < N; i++)
                for (int j = 0; j < D; j++)
                    X(j, i) = v[(size_t)i * D + j];
            std::vector<IndexType> idx(N);
            for (int i = 0; i < N; i++)
                idx[i] = i;
            eigen_kernel_callback kcb(X);
            DenseMatrix M = tapkee_internal::compute_centered_kernel_matrix(idx.begin(), idx.end(), kcb);
            alarm(0);
            std::ostringstream os;
            os << "R " << id << " OK ";
            put_matrix(os, "M", M);
            puts(os.str().c_str());
        }
        else if (cmd == "MDS")
        {
            int N = 0;
            std::vector<double> v;
            if (!(ss >> N) || N <= 0 || N > 4096 || !get_doubles(ss, (long)N * N, v))
            {
                printf("C %ld\nR %ld BADCASE\n", id, id);
                continue;
            }
            printf("C %ld\n", id);
            fflush(stdout);
            alarm(20);
            DenseMatrix T(N, N);
            for (int i = 0; i < N; i++)
                for (int j = 0; j < N; j++)
                    T(i, j) = v[(size_t)i * N + j];
            std::vector<IndexType> idx(N);
            for (int i = 0; i < N; i++)
                idx[i] = i;
            table_distance_callback dcb(T);
            DenseMatrix M = tapkee_internal::compute_distance_matrix(idx.begin(), idx.end(), dcb);
            tapkee_internal::centerMatrix(M);
            M.array() *= -0.5;
            alarm(0);
            std::ostringstream os;
            os << "R " << id << " OK ";
            put_matrix(os, "M", M);
            puts(os.str().c_str());
        }
        else if (cmd == "PCA")
        {
            int N = 0, D = 0, d = 0;
            std::vector<double> v, pv;
            if (!(ss >> N >> D >> d) || N <= 0 || D <= 0 || d <= 0 || N > 4096 || D > 4096 || d > D ||
                !get_doubles(ss, (long)N * D, v) || !get_doubles(ss, (long)D * d, pv))
            {
                printf("C %ld\nR %ld BADCASE\n", id, id);
                continue;
            }
            printf("C %ld\n", id);
            fflush(stdout);
            alarm(20);
            DenseMatrix X(D, N);
            for (int i = 0; i < N; i++)
                for (int j = 0; j < D; j++)
                    X(j, i) = v[(size_t)i * D + j];
            DenseMatrix P(D, d);
            for (int a = 0; a < D; a++)
                for (int c = 0; c < d; c++)
                    P(a, c) = pv[(size_t)a * d + c];
            std::vector<IndexType> idx(N);
            for (int i = 0; i < N; i++)
                idx[i] = i;
            eigen_features_callback fcb(X);
            DenseVector mean = tapkee_internal::compute_mean(idx.begin(), idx.end(), fcb, D);
            DenseMatrix cov = tapkee_internal::compute_covariance_matrix(idx.begin(), idx.end(), mean, fcb, D);
            DenseMatrix proj = tapkee_internal::project(P, mean, idx.begin(), idx.end(), fcb, D);
            alarm(0);
            std::ostringstream os;
            os << "R " << id << " OK ";
            DenseMatrix mm = mean;
            put_matrix(os, "mean", mm);
            os << " | ";
            put_matrix(os, "cov", cov);
            os << " | ";
            put_matrix(os, "proj", proj);
            puts(os.str().c_str());
        }
        else
        {
            printf("C %ld\nR %ld BADCASE unknown-command\n", id, id);
        }
        fflush(stdout);
    }
    return 0;
}
