// C12 harness (1/2): the assemble stages of the deterministic methods, called directly
// (exact stream of checks/c12.py).  The public-API driver is harness/c12_emb.cpp.
//
// Input: one command per line (numbers: anything strtod accepts; the Python side sends hex floats)
//   KPCA <id> <N> <D> <N*D doubles, sample-major>
//        compute_centered_kernel_matrix(begin, end, eigen_kernel_callback)
//        -> R <id> OK M <N> <N> ...
//   MDS <id> <N> <N*N doubles, row-major distance table>
//        compute_distance_matrix(begin, end, table callback); centerMatrix; *= -0.5  (the three
//        statements of methods/multidimensional_scaling.hpp embed())
//        -> R <id> OK M <N> <N> ...
//   CEN <id> <N> <N*N doubles, row-major, any matrix>
//        centerMatrix(M)  -> R <id> OK M <N> <N> ...
//   PCA <id> <N> <D> <d> <N*D doubles> <D*d doubles (projection matrix, row-major)>
//        compute_mean; compute_covariance_matrix; project(P, mean)
//        -> R <id> OK mean <D> 1 ... | cov <D> <D> ... | proj <N> <d> ...   (one line, '|' separated)
//   LAP <id> <N> <k> <width> <N*N distance table> <N*k neighbour indices>
//        compute_laplacian(begin, end, neighbors, table callback, width)
//        -> R <id> OK L <N> <N> ... | D <N> 1 ...
//   KLLEW <id> <N> <D> <k> <shift> <trace_shift> <N*D doubles> <N*k neighbour indices>
//        linear_weight_matrix(begin, end, neighbors, eigen_kernel_callback, shift, trace_shift)
//   KLTSAW <id> <N> <D> <k> <d> <shift> <N*D doubles> <N*k neighbour indices>
//        tangent_weight_matrix(begin, end, neighbors, eigen_kernel_callback, d, shift)
//   HLLEW <id> <N> <D> <k> <d> <N*D doubles> <N*k neighbour indices>
//        hessian_weight_matrix(begin, end, neighbors, eigen_kernel_callback, d)
//        -> R <id> OK M <N> <N> ...        (the sparse matrix, printed densely)
//   DMX <id> <N> <width> <N*N distance table>
//        compute_diffusion_matrix(begin, end, table callback, width)  -> R <id> OK M <N> <N> ...
// Output (every line flushed):
//   C <id>       marker printed BEFORE the work of a command (a crash / hang belongs to it)
//   R <id> ...   result
//   T <id>       the in-process watchdog fired; the process exits with code 7
// Doubles are printed with %a (exact).
#include <cmath>
#include <csignal>
#include <cstdio>
#include <cstdlib>
#include <cstring>
#include <iostream>
#include <map>
#include <sstream>
#include <string>
#include <unistd.h>
#include <vector>

#include <tapkee/callbacks/eigen_callbacks.hpp>
#include <tapkee/defines.hpp>
#include <tapkee/utils/matrix.hpp>
#include <tapkee/routines/multidimensional_scaling.hpp>
#include <tapkee/routines/pca.hpp>
#include <tapkee/utils/naming.hpp>
#include <tapkee/utils/sparse.hpp>
#include <tapkee/routines/laplacian_eigenmaps.hpp>
#include <tapkee/routines/locally_linear.hpp>
#include <tapkee/routines/diffusion_maps.hpp>
#include <tapkee/utils/logging.hpp>

using namespace tapkee;

static volatile long g_current_id = -1;

static void on_alarm(int)
{
    char buf[64];
    int n = snprintf(buf, sizeof buf, "T %ld\n", (long)g_current_id);
    if (write(1, buf, n) < 0)
    {
    }
    _exit(7);
}

static std::string hex(double x)
{
    char buf[64];
    if (std::isnan(x))
        return "nan";
    if (std::isinf(x))
        return x > 0 ? "inf" : "-inf";
    snprintf(buf, sizeof buf, "%a", x);
    return buf;
}

static void put_matrix(std::ostringstream& os, const char* tag, const DenseMatrix& M)
{
    os << tag << " " << M.rows() << " " << M.cols();
    for (Eigen::Index i = 0; i < M.rows(); i++)
        for (Eigen::Index j = 0; j < M.cols(); j++)
            os << " " << hex(M(i, j));
}

static bool get_doubles(std::istringstream& ss, long count, std::vector<double>& out)
{
    out.clear();
    std::string tok;
    for (long i = 0; i < count; i++)
    {
        if (!(ss >> tok))
            return false;
        char* end = nullptr;
        double v = strtod(tok.c_str(), &end);
        if (end == tok.c_str())
            return false;
        out.push_back(v);
    }
    return true;
}

struct table_distance_callback
{
    table_distance_callback(const DenseMatrix& t) : table(t)
    {
    }
    inline ScalarType distance(IndexType a, IndexType b) const
    {
        return table(a, b);
    }
    inline ScalarType operator()(IndexType a, IndexType b) const
    {
        return table(a, b);
    }
    const DenseMatrix& table;
};

int main()
{
    std::ios::sync_with_stdio(true);
    setvbuf(stdout, nullptr, _IOLBF, 0);
    signal(SIGALRM, on_alarm);
    Logging::instance().disable_info();
    Logging::instance().disable_warning();
    Logging::instance().disable_error();
    Logging::instance().disable_benchmark();
    Logging::instance().disable_debug();

    std::string line;
    while (std::getline(std::cin, line))
    {
        std::istringstream ss(line);
        std::string cmd;
        long id = -1;
        if (!(ss >> cmd >> id))
            continue;
        g_current_id = id;
        if (cmd == "KPCA")
        {
            int N = 0, D = 0;
            std::vector<double> v;
            if (!(ss >> N >> D) || N <= 0 || D <= 0 || N > 4096 || D > 4096 || !get_doubles(ss, (long)N * D, v))
            {
                printf("C %ld\nR %ld BADCASE\n", id, id);
                continue;
            }
            printf("C %ld\n", id);
            fflush(stdout);
            alarm(10);
            DenseMatrix X(D, N);
            for (int i = 0; i < N; i++)
                for (int j = 0; j < D; j++)
                    X(j, i) = v[(size_t)i * D + j];
            std::vector<IndexType> idx(N);
            for (int i = 0; i < N; i++)
                idx[i] = i;
            eigen_kernel_callback kcb(X);
            DenseMatrix M = tapkee_internal::compute_centered_kernel_matrix(idx.begin(), idx.end(), kcb);
            alarm(0);
            std::ostringstream os;
            os << "R " << id << " OK ";
            put_matrix(os, "M", M);
            puts(os.str().c_str());
        }
        else if (cmd == "MDS")
        {
            int N = 0;
            std::vector<double> v;
            if (!(ss >> N) || N <= 0 || N > 4096 || !get_doubles(ss, (long)N * N, v))
            {
                printf("C %ld\nR %ld BADCASE\n", id, id);
                continue;
            }
            printf("C %ld\n", id);
            fflush(stdout);
            alarm(10);
            DenseMatrix T(N, N);
            for (int i = 0; i < N; i++)
                for (int j = 0; j < N; j++)
                    T(i, j) = v[(size_t)i * N + j];
            std::vector<IndexType> idx(N);
            for (int i = 0; i < N; i++)
                idx[i] = i;
            table_distance_callback dcb(T);
            DenseMatrix M = tapkee_internal::compute_distance_matrix(idx.begin(), idx.end(), dcb);
            tapkee_internal::centerMatrix(M);
            M.array() *= -0.5;
            alarm(0);
            std::ostringstream os;
            os << "R " << id << " OK ";
            put_matrix(os, "M", M);
            puts(os.str().c_str());
        }
        else if (cmd == "CEN")
        {
            // centerMatrix on an arbitrary (not necessarily symmetric) matrix
            int N = 0;
            std::vector<double> v;
            if (!(ss >> N) || N <= 0 || N > 4096 || !get_doubles(ss, (long)N * N, v))
            {
                printf("C %ld\nR %ld BADCASE\n", id, id);
                continue;
            }
            printf("C %ld\n", id);
            fflush(stdout);
            alarm(10);
            DenseMatrix M(N, N);
            for (int i = 0; i < N; i++)
                for (int j = 0; j < N; j++)
                    M(i, j) = v[(size_t)i * N + j];
            tapkee_internal::centerMatrix(M);
            alarm(0);
            std::ostringstream os;
            os << "R " << id << " OK ";
            put_matrix(os, "M", M);
            puts(os.str().c_str());
        }
        else if (cmd == "PCA")
        {
            int N = 0, D = 0, d = 0;
            std::vector<double> v, pv;
            if (!(ss >> N >> D >> d) || N <= 0 || D <= 0 || d <= 0 || N > 4096 || D > 4096 || d > D ||
                !get_doubles(ss, (long)N * D, v) || !get_doubles(ss, (long)D * d, pv))
            {
                printf("C %ld\nR %ld BADCASE\n", id, id);
                continue;
            }
            printf("C %ld\n", id);
            fflush(stdout);
            alarm(10);
            DenseMatrix X(D, N);
            for (int i = 0; i < N; i++)
                for (int j = 0; j < D; j++)
                    X(j, i) = v[(size_t)i * D + j];
            DenseMatrix P(D, d);
            for (int a = 0; a < D; a++)
                for (int c = 0; c < d; c++)
                    P(a, c) = pv[(size_t)a * d + c];
            std::vector<IndexType> idx(N);
            for (int i = 0; i < N; i++)
                idx[i] = i;
            eigen_features_callback fcb(X);
            DenseVector mean = tapkee_internal::compute_mean(idx.begin(), idx.end(), fcb, D);
            DenseMatrix cov = tapkee_internal::compute_covariance_matrix(idx.begin(), idx.end(), mean, fcb, D);
            DenseMatrix proj = tapkee_internal::project(P, mean, idx.begin(), idx.end(), fcb, D);
            alarm(0);
            std::ostringstream os;
            os << "R " << id << " OK ";
            DenseMatrix mm = mean;
            put_matrix(os, "mean", mm);
            os << " | ";
            put_matrix(os, "cov", cov);
            os << " | ";
            put_matrix(os, "proj", proj);
            puts(os.str().c_str());
        }
        else if (cmd == "DMX")
        {
            int N = 0;
            std::vector<double> v, wv;
            if (!(ss >> N) || N <= 0 || N > 2048 || !get_doubles(ss, 1, wv) || !get_doubles(ss, (long)N * N, v))
            {
                printf("C %ld\nR %ld BADCASE\n", id, id);
                continue;
            }
            printf("C %ld\n", id);
            fflush(stdout);
            alarm(10);
            DenseMatrix T(N, N);
            for (int i = 0; i < N; i++)
                for (int j = 0; j < N; j++)
                    T(i, j) = v[(size_t)i * N + j];
            std::vector<IndexType> idx(N);
            for (int i = 0; i < N; i++)
                idx[i] = i;
            table_distance_callback dcb(T);
            DenseMatrix M = tapkee_internal::compute_diffusion_matrix(idx.begin(), idx.end(), dcb, wv[0]);
            alarm(0);
            std::ostringstream os;
            os << "R " << id << " OK ";
            put_matrix(os, "M", M);
            puts(os.str().c_str());
        }
        else if (cmd == "LAP" || cmd == "KLLEW" || cmd == "KLTSAW" || cmd == "HLLEW")
        {
            int N = 0, D = 0, k = 0, d = 0;
            double width = 1, shift = 0, tshift = 0;
            std::vector<double> v, nbv;
            bool ok = true;
            if (cmd == "LAP")
                ok = bool(ss >> N >> k) && get_doubles(ss, 1, v) && (width = v[0], true) && N > 0 && N <= 2048 &&
                     k > 0 && k <= N && get_doubles(ss, (long)N * N, v);
            else if (cmd == "KLLEW")
            {
                std::vector<double> pr;
                ok = bool(ss >> N >> D >> k) && get_doubles(ss, 2, pr) && N > 0 && N <= 2048 && D > 0 && D <= 512 &&
                     k > 0 && k <= N && get_doubles(ss, (long)N * D, v);
                if (ok)
                {
                    shift = pr[0];
                    tshift = pr[1];
                }
            }
            else if (cmd == "HLLEW")
                ok = bool(ss >> N >> D >> k >> d) && N > 0 && N <= 2048 && D > 0 && D <= 512 && k > 0 && k <= N &&
                     d > 0 && 1 + d + d * (d + 1) / 2 <= k && get_doubles(ss, (long)N * D, v);
            else
            {
                std::vector<double> pr;
                ok = bool(ss >> N >> D >> k >> d) && get_doubles(ss, 1, pr) && N > 0 && N <= 2048 && D > 0 &&
                     D <= 512 && k > 0 && k <= N && d > 0 && d < k && get_doubles(ss, (long)N * D, v);
                if (ok)
                    shift = pr[0];
            }
            if (ok)
                ok = get_doubles(ss, (long)N * k, nbv);
            if (ok)
                for (double x : nbv)
                    if (!(x >= 0 && x < N) || x != std::floor(x))
                        ok = false;
            if (!ok)
            {
                printf("C %ld\nR %ld BADCASE\n", id, id);
                continue;
            }
            printf("C %ld\n", id);
            fflush(stdout);
            alarm(10);
            tapkee_internal::Neighbors nbrs(N);
            for (int i = 0; i < N; i++)
                for (int a = 0; a < k; a++)
                    nbrs[i].push_back((IndexType)nbv[(size_t)i * k + a]);
            std::vector<IndexType> idx(N);
            for (int i = 0; i < N; i++)
                idx[i] = i;
            std::ostringstream os;
            os << "R " << id << " OK ";
            if (cmd == "LAP")
            {
                DenseMatrix T(N, N);
                for (int i = 0; i < N; i++)
                    for (int j = 0; j < N; j++)
                        T(i, j) = v[(size_t)i * N + j];
                table_distance_callback dcb(T);
                tapkee_internal::Laplacian lap =
                    tapkee_internal::compute_laplacian(idx.begin(), idx.end(), nbrs, dcb, width);
                DenseMatrix L = DenseMatrix(lap.first);
                DenseMatrix Dg = lap.second.diagonal();
                put_matrix(os, "L", L);
                os << " | ";
                put_matrix(os, "D", Dg);
            }
            else
            {
                DenseMatrix X(D, N);
                for (int i = 0; i < N; i++)
                    for (int j = 0; j < D; j++)
                        X(j, i) = v[(size_t)i * D + j];
                eigen_kernel_callback kcb(X);
                SparseWeightMatrix W =
                    (cmd == "KLLEW")
                        ? tapkee_internal::linear_weight_matrix(idx.begin(), idx.end(), nbrs, kcb, shift, tshift)
                        : (cmd == "HLLEW"
                               ? tapkee_internal::hessian_weight_matrix(idx.begin(), idx.end(), nbrs, kcb, d)
                               : tapkee_internal::tangent_weight_matrix(idx.begin(), idx.end(), nbrs, kcb, d, shift));
                DenseMatrix M = DenseMatrix(W);
                put_matrix(os, "M", M);
            }
            alarm(0);
            puts(os.str().c_str());
        }
        else
        {
            printf("C %ld\nR %ld BADCASE unknown-command\n", id, id);
        }
        fflush(stdout);
    }
    return 0;
}
