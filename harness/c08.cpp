// c08.cpp — harness for C08 (KLLE / KLTSA / HLLE).  One case per stdin line:
//   WM  meth n d shift tshift <nbrs> <n*n kernel table>
//         meth = lle | ltsa | hlle ; <nbrs> = n lists "len v_1 .. v_len".
//         Calls the PUBLIC TEMPLATE linear_weight_matrix / tangent_weight_matrix /
//         hessian_weight_matrix of routines/locally_linear.hpp with a table kernel callback and
//         exactly these neighbour lists; prints the assembled sparse matrix densely ("R M").
//         For ltsa / hlle additionally the ORACLE CALLS the routine makes, replicated statement
//         by statement (Gram fill, tapkee's centerMatrix, DenseSelfAdjointEigenSolver):
//         "R Eloc" (n*k x k, block i = eigenvectors() of sample i), "R lamloc" (n x k),
//         "R rsk" (1/sqrt(k) as the routine computes it).
//   EMB meth nm n k d shift tshift <n*n kernel table>
//         nm = brute | vptree | covertree.  (1) the neighbours the method will use (same
//         find_neighbors call on KernelDistance, check_connectivity = true): "R nbrs";
//         (2) everything WM prints for these neighbours; (3) the GLOBAL ORACLE CALL of
//         eigendecomposition_impl_dense replicated statement by statement on that matrix
//         (dense_wm = wm; dense_wm += dense_wm^T; dense_wm /= 2; DenseSelfAdjointEigenSolver):
//         "R eigvals" (ascending) and "R gE" (n x n, all eigenvectors) - the check validates the
//         solver contract (full orthonormal decomposition, ascending, constant first column) the
//         optimality theorems assume, in exact arithmetic, on every call; (4) the method: the statements of
//         tapkee::embed() and DynamicImplementation::embedUsing for the selected method
//         (X##Implementation(base).validate(); .embed()): "R emb".
//   EIG n <n*n symmetric matrix>
//         reference decomposition (Eigen::SelfAdjointEigenSolver, independent of tapkee's
//         front-ends) of a matrix the CHECK assembled from the model: "R eigvals" ascending.
// Numbers: decimal or hex-float in, hex-float out.  Protocol lines as in spectral_common.hpp
// ("C k" before a case, "X k what" for an exception, "END k" after it).
#include "spectral_common.hpp"

#include <numeric>

#include <tapkee/neighbors/neighbors.hpp>
#include <tapkee/routines/locally_linear.hpp>

using namespace tapkee;
using namespace vh;

struct table_kernel
{
    const DenseMatrix* t;
    inline ScalarType kernel(IndexType a, IndexType b) const
    {
        return (*t)(a, b);
    }
};

typedef std::vector<IndexType> Idx;

static bool read_neighbors(std::istringstream& is, int n, tapkee_internal::Neighbors& nb)
{
    nb.clear();
    for (int i = 0; i < n; i++)
    {
        int len;
        if (!(is >> len) || len < 0 || len > 100000) return false;
        tapkee_internal::LocalNeighbors l;
        for (int j = 0; j < len; j++)
        {
            int v;
            if (!(is >> v)) return false;
            l.push_back(v);
        }
        nb.push_back(l);
    }
    return true;
}

// the oracle calls of tangent_weight_matrix / hessian_weight_matrix, replicated
static void local_eigen(const Idx& idx, const tapkee_internal::Neighbors& nb, const table_kernel& kcb)
{
    const int n = idx.size();
    const IndexType k = nb[0].size();
    DenseMatrix Eloc(n * k, k);
    DenseMatrix lamloc(n, k);
    DenseMatrix gram_matrix = DenseMatrix::Zero(k, k);
    for (int s = 0; s < n; s++)
    {
        const tapkee_internal::LocalNeighbors& cur = nb[s];
        for (IndexType i = 0; i < k; ++i)
            for (IndexType j = i; j < k; ++j)
            {
                ScalarType kij = kcb.kernel(idx[cur[i]], idx[cur[j]]);
                gram_matrix(i, j) = kij;
                gram_matrix(j, i) = kij;
            }
        tapkee_internal::centerMatrix(gram_matrix);
        DenseSelfAdjointEigenSolver solver;
        solver.compute(gram_matrix);
        Eloc.block(s * k, 0, k, k) = solver.eigenvectors();
        lamloc.row(s) = solver.eigenvalues().transpose();
    }
    print_matrix("Eloc", Eloc);
    print_matrix("lamloc", lamloc);
    DenseMatrix r(1, 1);
    r(0, 0) = 1 / sqrt(static_cast<ScalarType>(k));
    print_matrix("rsk", r);
}

// the oracle call of eigendecomposition_impl_dense (SmallestEigenvalues), replicated
static void global_eigen(const DenseMatrix& wm)
{
    DenseSymmetricMatrix dense_wm = wm;
    dense_wm += dense_wm.transpose().eval();
    dense_wm /= 2.0;
    DenseSelfAdjointEigenSolver solver(dense_wm);
    print_vector("eigvals", solver.eigenvalues());
    print_matrix("gE", solver.eigenvectors());
}

static DenseMatrix weight_matrix(const std::string& meth, Idx& idx, const tapkee_internal::Neighbors& nb,
                                 const table_kernel& kcb, int d, double shift, double tshift)
{
    SparseWeightMatrix W;
    if (meth == "lle")
        W = tapkee_internal::linear_weight_matrix(idx.begin(), idx.end(), nb, kcb, shift, tshift);
    else if (meth == "ltsa")
        W = tapkee_internal::tangent_weight_matrix(idx.begin(), idx.end(), nb, kcb, static_cast<IndexType>(d), shift);
    else
        W = tapkee_internal::hessian_weight_matrix(idx.begin(), idx.end(), nb, kcb, static_cast<IndexType>(d));
    return DenseMatrix(W);
}

static bool plausible(const tapkee_internal::Neighbors& nb, int n, const std::string& meth, int d)
{
    // the routines index begin[] and the k x k buffers without any check: refuse inputs on which
    // the C++ has undefined behaviour by construction of the CASE (the model reports them as OOB):
    // empty container, a list shorter than the first, an index outside [0,n), rightCols(d) with d > k
    if (nb.empty()) return false;
    const size_t k = nb[0].size();
    if (k == 0) return false;   // degenerate request, not generated
    for (const auto& l : nb)
    {
        if (l.size() < k) return false;
        for (size_t j = 0; j < k; j++)
            if (l[j] < 0 || l[j] >= n) return false;
    }
    if (meth != "lle" && (d < 0 || static_cast<size_t>(d) > k)) return false;
    return true;
}

int main()
{
    std::string line;
    int kcase = 0;
    tapkee::Logging::instance().disable_warning();
    while (std::getline(std::cin, line))
    {
        if (line.empty()) continue;
        std::istringstream is(line);
        std::string cmd;
        is >> cmd;
        guarded(kcase, [&]() {
            if (cmd == "WM")
            {
                std::string meth;
                int n, d;
                double shift, tshift;
                is >> meth >> n >> d;
                tapkee_internal::Neighbors nb;
                DenseMatrix T;
                if (!is || !read_double(is, shift) || !read_double(is, tshift) || n < 1 || n > 2048 ||
                    !read_neighbors(is, n, nb) || !read_matrix(is, n, n, T) ||
                    (meth != "lle" && meth != "ltsa" && meth != "hlle"))
                {
                    std::cout << "X " << kcase << " bad-input" << std::endl;
                    return;
                }
                if (!plausible(nb, n, meth, d))
                {
                    std::cout << "X " << kcase << " undefined-by-construction" << std::endl;
                    return;
                }
                Idx idx(n);
                std::iota(idx.begin(), idx.end(), 0);
                table_kernel kcb{&T};
                if (meth != "lle") local_eigen(idx, nb, kcb);
                print_matrix("M", weight_matrix(meth, idx, nb, kcb, d, shift, tshift));
            }
            else if (cmd == "EIG")
            {
                int n;
                is >> n;
                DenseMatrix S;
                if (!is || n < 1 || n > 2048 || !read_matrix(is, n, n, S))
                {
                    std::cout << "X " << kcase << " bad-input" << std::endl;
                    return;
                }
                reference_eig(S);
            }
#ifndef C08_NO_EMB
            else if (cmd == "EMB")
            {
                std::string meth, nm;
                int n, k, d;
                double shift, tshift;
                is >> meth >> nm >> n >> k >> d;
                DenseMatrix T;
                if (!is || !read_double(is, shift) || !read_double(is, tshift) || n < 1 || n > 2048 ||
                    !read_matrix(is, n, n, T) || (meth != "lle" && meth != "ltsa" && meth != "hlle"))
                {
                    std::cout << "X " << kcase << " bad-input" << std::endl;
                    return;
                }
                Idx idx(n);
                std::iota(idx.begin(), idx.end(), 0);
                table_kernel kcb{&T};
                NeighborsMethod nmeth = Brute;
                if (nm == "vptree") nmeth = VpTree;
                if (nm == "covertree") nmeth = CoverTree;
                DimensionReductionMethod m = KernelLocallyLinearEmbedding;
                if (meth == "ltsa") m = KernelLocalTangentSpaceAlignment;
                if (meth == "hlle") m = HessianLocallyLinearEmbedding;
                // (1) neighbours, as ImplementationBase::find_neighbors_with does.  The VP-tree draws its
                //     vantage points from std::rand(): the same seed before (1) and (4) makes both calls
                //     build the same tree, hence break distance ties the same way (which neighbour set is
                //     taken among ties is free under the property)
                std::srand(20260926u + 7919u * static_cast<unsigned>(kcase));
                if (k >= 3 && k < n)
                {
                    tapkee_internal::KernelDistance<Idx::iterator, table_kernel> kd(kcb);
                    tapkee_internal::Neighbors nb = tapkee_internal::find_neighbors(
                        nmeth, idx.begin(), idx.end(), kd, static_cast<IndexType>(k), true);
                    if (plausible(nb, n, meth, d))
                    {
                        const int kk = nb[0].size();
                        DenseMatrix NB(n, kk);
                        for (int i = 0; i < n; i++)
                            for (int j = 0; j < kk; j++)
                                NB(i, j) = nb[i][j];
                        print_matrix("nbrs", NB);
                        if (meth != "lle") local_eigen(idx, nb, kcb);
                        DenseMatrix M = weight_matrix(meth, idx, nb, kcb, d, shift, tshift);
                        print_matrix("M", M);
                        global_eigen(M);
                    }
                    else
                        std::cout << "R ragged-neighbours 0 0" << std::endl;
                }
                // (4) the method itself: the statements of tapkee::embed() (parameters.check(),
                //     merge(defaults), Context) followed by the three lines of
                //     DynamicImplementation::embedUsing for the selected method
                //     (construct X##Implementation from the base, validate(), embed()).
                //     Only these three of the twenty implementation classes are instantiated:
                //     instantiating all of them through chain_interface.hpp costs 2.5 minutes of
                //     compile time per run; the generic dispatcher is exercised by C01/C13/C14.
                std::srand(20260926u + 7919u * static_cast<unsigned>(kcase));
                stichwort::ParametersSet parameters =
                    (method = m, target_dimension = d, num_neighbors = k, eigen_method = Dense,
                     neighbors_method = nmeth, nullspace_shift = shift, klle_shift = tshift,
                     check_connectivity = true);
                parameters.check();
                parameters.merge(tapkee_internal::defaults);
                void (*progress_function_ptr)(double) = parameters[progress_function];
                bool (*cancel_function_ptr)() = parameters[cancel_function];
                tapkee_internal::Context context(progress_function_ptr, cancel_function_ptr);
                typedef dummy_distance_callback<IndexType> DCb;
                typedef dummy_features_callback<IndexType> FCb;
                typedef tapkee_internal::ImplementationBase<Idx::iterator, table_kernel, DCb, FCb> Base;
                Base base(idx.begin(), idx.end(), kcb, DCb(), FCb(), parameters, context);
                TapkeeOutput out;
                if (meth == "lle")
                {
                    tapkee_internal::KernelLocallyLinearEmbeddingImplementation<Idx::iterator, table_kernel, DCb, FCb>
                        impl(base);
                    impl.validate();
                    out = impl.embed();
                }
                else if (meth == "ltsa")
                {
                    tapkee_internal::KernelLocalTangentSpaceAlignmentImplementation<Idx::iterator, table_kernel, DCb,
                                                                                   FCb>
                        impl(base);
                    impl.validate();
                    out = impl.embed();
                }
                else
                {
                    tapkee_internal::HessianLocallyLinearEmbeddingImplementation<Idx::iterator, table_kernel, DCb, FCb>
                        impl(base);
                    impl.validate();
                    out = impl.embed();
                }
                print_matrix("emb", out.embedding);
            }
#endif
            else
                std::cout << "X " << kcase << " bad-command" << std::endl;
        });
        kcase++;
    }
    return 0;
}
