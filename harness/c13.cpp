// C13 harness: one embedding request, supplied to tapkee's PUBLIC API in every equivalent call form.
//
// Call forms ("families"), all over the SAME data, the same parameters and the same random stream:
//   fam=M  with(p).embedUsing(matrix)                                   (the reference)
//   fam=E  with(p).with<..>(tapkee's own eigen_*_callback)....embedRange(indices)   (iterator type
//          std::vector<IndexType>::iterator, i.e. the very instantiation the matrix form uses)
//   fam=U  indices + hand-written callbacks (one universal counting callback type per role, backed at
//          run time by the eigen callbacks (back=eigen), by hand-written loops over the raw data
//          (back=hand), or by tapkee's precomputed_*_callback over precomputed kernel / distance matrices
//          (back=pre; filled by the hand-written loops if src=hand, else by the eigen callbacks));
//          any subset of {K,D,F}
//   fam=O  a sequence of OBJECTS (struct Obj, not an index) + hand-written callbacks on objects
//   fam=X / fam=Y  tapkee::embed(begin, end, k, d, f, params) called directly, with tapkee's eigen callbacks /
//          with the counting callbacks (no chain)
//   fam=P  tapkee's OWN callback classes attached DIRECTLY (precomputed_kernel_callback, precomputed_distance_callback over
//          tables, eigen_features_callback; not wrapped in a counting callback): whatever a method does for these TYPES
//          must be what it does for a hand-written callback returning the same values
// ids=<i0,i1,...>  the DENOTED SEQUENCE: the request embeds samples i0, i1, ... of the data set (any length, repeated
//          ids allowed, any order); absent = 0..N-1.  fam=M embeds the feature matrix whose columns are those samples;
//          the index / object sequences of the other families denote the same samples; tables stay N x N.
// cont=<vec|deque|stride>  the container kind of the sequence handed to tapkee (fam U with a full order, fam P):
//          std::vector, a std::deque whose elements straddle two blocks, a custom random-access iterator over every
//          second slot of an array (decoys in between): random access, NOT contiguous
// order = the order in which withKernel/withDistance/withFeatures are attached (a string over K,D,F
// without repetition, e.g. "FKD"); entry = range (embedRange(begin,end)) | using (embedUsing(container)).
//
// The universal callback type has ALL of kernel()/distance()/vector()/dimension(), whatever its role,
// and counts every call per (role, function): a callback routed into the wrong slot compiles and is
// SEEN (cross-call), and "a method invokes only the callbacks it declares" is observable as zero counts.
// Obj converts implicitly to IndexType (to a WRONG, in-range index) and counts such conversions: code
// that uses the dereferenced iterator as an index compiles and is seen.
//
// The translation unit is large (every distinct (iterator, K, D, F) type quadruple instantiates all 20
// methods; about 50-80 s at -O0), so the source can be built in parts: -DC13_PART=1|2|3 selects which
// quadruples exist in the binary (C13_PART undefined or 0: all of them; that is what checks/c13.py builds).  A request for a chain that is not in this binary
// answers "R <id> NOTBUILT".
//
// Input:   DATA <N> <D> <N*D hex doubles, sample-major>
//          SLOTS <subset of KDF>          -> "S given kernel=.. distance=.. features=..", "S slots kernel=.. distance=..
//                                            features=.. plain_distance=.. kernel_distance=.. begin=<0|1> end=<0|1> n=<N>", "SEND"
//                                            (structural dump of the method implementation object's slots)
//          TRAITS                         -> "I <callback class> <is_dummy<class>::value>" ..., "IEND"
//          NEEDS <method> ...             -> "N <method> <needs_kernel needs_distance needs_features as 0/1>" ..., "NEND"
//          KTAB <N> <N*N hex doubles, row-major> / DTAB <N> <...>   kernel / distance VALUE TABLES (need not be symmetric, need not
//                                            come from the data): back=tab answers kernel(a,b) = KTAB[a][b] by a hand-written
//                                            callback, back=pretab hands the same tables to tapkee's precomputed_*_callback
//          ADAPT exact=<0|1>              -> "A <class>.<member> n=<calls> bad=<n> [first=<a>,<b> got=<hex> want=<hex>]" ..., "AEND"
//                                            every adapter class the library ships, called DIRECTLY for all ordered pairs (a,b):
//                                            precomputed_* on KTAB/DTAB (want = the table entry for the pair AS GIVEN), eigen_* on the
//                                            data (want = hand-written loops; compared only if exact=1, i.e. dyadic data)
//          RUN id=<n> m=<method> fam=<M|E|U|O|X|Y> back=<eigen|hand|pre|tab|pretab> src=<eigen|hand> order=<str> entry=<range|using>
//              d=<int> k=<int> seed=<int> nm=<brute|vptree|covertree> em=<dense|randomized> wd=<s> [off=<shift of
//              the index sequence, fam U/Y only>] [perm=<seed: the integers of the index sequence are permuted, fam U/Y only>]
//              [min=1: only method, target dimension, max_iteration and squishing_rate are set, all other keywords left to the library defaults] [..]
// Output:  C <id>                          marker before the call
//          R <id> OK <rows> <cols> <hex...> | <12 counters role-major K,D,F x kernel,distance,vector,dimension> <obj_as_index>
//                 <index_as_obj> <foreign: a callback received something that is not an element of [begin,end)>
//                 <adapter_bad: a precomputed_* adapter answered something else than the table entry for the pair it was called with>
//          R <id> EXC <type> | <counters> | <message>
//          T <id>                          watchdog fired (process exits with code 7)
#include <cmath>
#include <csignal>
#include <cstdio>
#include <cstdlib>
#include <cstring>
#include <iostream>
#include <map>
#include <sstream>
#include <string>
#include <unistd.h>
#include <vector>
#include <omp.h>

#include <algorithm>
#include <cassert>
#include <chrono>
#include <deque>
#include <fstream>
#include <functional>
#include <iomanip>
#include <iterator>
#include <limits>
#include <list>
#include <memory>
#include <numeric>
#include <queue>
#include <random>
#include <set>
#include <stack>
#include <utility>

// third-party and standard headers first (defines.hpp pulls in Eigen, fmt, stichwort) ...
#include <tapkee/defines.hpp>
// ... then tapkee's own classes with their protected members readable: the SLOTS command dumps the slots of the
// method implementation object (ImplementationBase members are protected).  Access only; no layout change.
#define protected public
#include <tapkee/callbacks/eigen_callbacks.hpp>
#include <tapkee/callbacks/precomputed_callbacks.hpp>
#include <tapkee/exceptions.hpp>
#include <tapkee/tapkee.hpp>
#undef protected

using namespace tapkee;

#ifndef C13_PART
#define C13_PART 0
#endif

// ------------------------------------------------------------------ which chains exist in this binary
enum
{
    KBIT = 1,
    DBIT = 2,
    FBIT = 4
};
enum
{
    FAM_E = 0,
    FAM_U = 1,
    FAM_O = 2,
    FAM_P = 3, // tapkee's precomputed_* / eigen_features classes attached directly
    FAM_UC = 4 // counting callbacks over a non-vector container (all three attached)
};

constexpr bool allowed(int fam, int mask)
{
#ifdef C13_NO_RAW
    // fallback build: without the chains over tapkee's own eigen callbacks (they have exactly one member
    // function each, so a library that routes a callback into the wrong slot does not compile with them)
    if (fam == FAM_E || fam == FAM_P)
        return false;
#endif
#ifdef C13_NO_OBJ
    // second fallback build: without the object-sequence family (a library that hands something else than the
    // dereferenced iterator to a callback may not compile with a value type that is not an integer)
    if (fam == FAM_O)
        return false;
#endif
#if C13_PART == 0
    return mask != 0 && (fam == FAM_U || mask == 7);
#elif C13_PART == 1
    return mask == 7 && (fam == FAM_E || fam == FAM_U);
#elif C13_PART == 2
    return (fam == FAM_O && mask == 7) || (fam == FAM_U && (mask == KBIT || mask == DBIT));
#elif C13_PART == 3
    return fam == FAM_U && (mask == FBIT || mask == (KBIT | FBIT) || mask == (DBIT | FBIT) || mask == (KBIT | DBIT));
#else
    return false;
#endif
}
constexpr bool reachable(int fam, int mask)
{
    for (int m = 1; m < 8; m++)
        if ((m & mask) == mask && allowed(fam, m))
            return true;
    return false;
}
static const bool g_matrix_form = (C13_PART == 0 || C13_PART == 1);

// ------------------------------------------------------------------ counters
static long g_cnt[3][4];
static long g_obj_as_index;
static long g_index_as_obj;
static long g_foreign;
static long g_adapter_bad;
static void reset_counters()
{
    memset(g_cnt, 0, sizeof g_cnt);
    g_obj_as_index = 0;
    g_index_as_obj = 0;
    g_foreign = 0;
    g_adapter_bad = 0;
}
static IndexType g_n = 0;                 // number of samples of the current data set
static std::vector<double> g_ktab, g_dtab; // value tables (row-major g_n x g_n), empty if not given
static inline bool same_bits(double a, double b)
{
    return memcmp(&a, &b, sizeof a) == 0;
}

// ------------------------------------------------------------------ objects that are not indices
struct Obj
{
    long key;        // 1000 + 7 * (position in the data set)
    IndexType decoy; // a wrong but in-range index
    Obj() : key(-1), decoy(0)
    {
    }
    // the other direction: code that hands a loop counter / position to a callback where the data OBJECT belongs
    // compiles (as it does when the objects are integers) and is seen: such an Obj is no element of the sequence
    Obj(IndexType i) : key(-1), decoy(i)
    {
        g_index_as_obj++;
    }
    operator IndexType() const
    {
        g_obj_as_index++;
        return decoy;
    }
};
// fam U / Y: the index sequence may be SHIFTED (element i of the data is the integer i + g_index_offset) and the
// hand-written callbacks undo the shift: code that uses the dereferenced iterator as an index (instead of
// iterator - begin) then reads the wrong sample even though the objects are integers
static IndexType g_index_offset = 0;
// every callback checks that what it is handed IS an element of the sequence given to tapkee (oracle on every call)
// (when the request embeds a SUB-sequence of the data set -- ids= -- g_member says which samples are in it)
static std::vector<char> g_member;
static inline IndexType in_range(long i)
{
    if (i < 0 || i >= (long)g_n)
    {
        g_foreign++;
        return 0;
    }
    if (!g_member.empty() && !g_member[(size_t)i])
        g_foreign++;
    return (IndexType)i;
}
// ... and PERMUTED (element i of the data is the integer sigma(i) + g_index_offset; g_inv = sigma^-1): the order of the
// objects' VALUES is then unrelated to their positions, so code that compares / sorts / breaks ties by the object instead
// of by the position (or only through callback values) gives another result than on the identity sequence
static std::vector<IndexType> g_inv;
static inline IndexType index_of(IndexType i)
{
    long p = (long)i - (long)g_index_offset;
    if (!g_inv.empty())
    {
        if (p < 0 || p >= (long)g_inv.size())
        {
            g_foreign++;
            return 0;
        }
        p = g_inv[p];
    }
    return in_range(p);
}
static inline IndexType index_of(const Obj& o)
{
    if (o.key < 1000 || (o.key - 1000) % 7 != 0)
    {
        g_foreign++;
        return 0;
    }
    return in_range((o.key - 1000) / 7);
}

// ------------------------------------------------------------------ random-access ranges that are NOT contiguous
// tapkee's interface asks for "a random access iterator with no specific capabilities": &*begin + i need not be begin[i].
// (a) every second slot of an array, decoys in the slots between
template <class T> struct StrideIt
{
    typedef std::random_access_iterator_tag iterator_category;
    typedef T value_type;
    typedef std::ptrdiff_t difference_type;
    typedef const T* pointer;
    typedef const T& reference;
    const T* p;
    StrideIt() : p(nullptr)
    {
    }
    explicit StrideIt(const T* q) : p(q)
    {
    }
    reference operator*() const
    {
        return *p;
    }
    pointer operator->() const
    {
        return p;
    }
    reference operator[](difference_type n) const
    {
        return p[2 * n];
    }
    StrideIt& operator++()
    {
        p += 2;
        return *this;
    }
    StrideIt operator++(int)
    {
        StrideIt t(*this);
        p += 2;
        return t;
    }
    StrideIt& operator--()
    {
        p -= 2;
        return *this;
    }
    StrideIt operator--(int)
    {
        StrideIt t(*this);
        p -= 2;
        return t;
    }
    StrideIt& operator+=(difference_type n)
    {
        p += 2 * n;
        return *this;
    }
    StrideIt& operator-=(difference_type n)
    {
        p -= 2 * n;
        return *this;
    }
    friend StrideIt operator+(StrideIt a, difference_type n)
    {
        return a += n;
    }
    friend StrideIt operator+(difference_type n, StrideIt a)
    {
        return a += n;
    }
    friend StrideIt operator-(StrideIt a, difference_type n)
    {
        return a -= n;
    }
    friend difference_type operator-(const StrideIt& a, const StrideIt& b)
    {
        return (a.p - b.p) / 2;
    }
    friend bool operator==(const StrideIt& a, const StrideIt& b)
    {
        return a.p == b.p;
    }
    friend bool operator!=(const StrideIt& a, const StrideIt& b)
    {
        return a.p != b.p;
    }
    friend bool operator<(const StrideIt& a, const StrideIt& b)
    {
        return a.p < b.p;
    }
    friend bool operator>(const StrideIt& a, const StrideIt& b)
    {
        return a.p > b.p;
    }
    friend bool operator<=(const StrideIt& a, const StrideIt& b)
    {
        return a.p <= b.p;
    }
    friend bool operator>=(const StrideIt& a, const StrideIt& b)
    {
        return a.p >= b.p;
    }
};
template <class T> struct StrideSeq
{
    typedef StrideIt<T> const_iterator;
    typedef StrideIt<T> iterator;
    typedef T value_type;
    std::vector<T> store; // element i of the sequence is store[2 i]; store[2 i + 1] is a decoy
    StrideSeq(const std::vector<T>& elems, const std::vector<T>& decoys) : store(2 * elems.size())
    {
        for (size_t i = 0; i < elems.size(); i++)
        {
            store[2 * i] = elems[i];
            store[2 * i + 1] = decoys[i];
        }
    }
    const_iterator begin() const
    {
        return const_iterator(store.data());
    }
    const_iterator end() const
    {
        return const_iterator(store.data() + store.size());
    }
    size_t size() const
    {
        return store.size() / 2;
    }
};
// (b) a std::deque whose elements straddle two blocks whatever the block size: the second half is appended, then the first
// half is prepended element by element (libstdc++ starts an empty deque at the beginning of a block, so the first
// push_front opens the block before it)
template <class T> std::deque<T> straddling_deque(const std::vector<T>& v)
{
    std::deque<T> d;
    const size_t h = v.size() / 2;
    for (size_t i = h; i < v.size(); i++)
        d.push_back(v[i]);
    for (size_t i = h; i-- > 0;)
        d.push_front(v[i]);
    return d;
}

// ------------------------------------------------------------------ value tables behind the callbacks
struct Backing
{
    const DenseMatrix& X;
    eigen_kernel_callback ek;
    eigen_distance_callback ed;
    eigen_features_callback ef;
    DenseMatrix KM, DM;
    precomputed_kernel_callback pk;
    precomputed_distance_callback pd;
    int mode; // 0: tapkee's eigen callbacks, 1: hand-written loops, 2: tapkee's precomputed callbacks (tables computed from
              // the data), 3: hand-written callbacks that look a pair up in the VALUE TABLES g_ktab / g_dtab (arbitrary,
              // not symmetric), 4: tapkee's precomputed callbacks over matrices holding those same tables
    // hand-written kernel / distance / features: plain sequential loops over the raw data.  On dyadic data
    // (small integers) every product and sum is exact, so these agree BITWISE with the eigen callbacks.
    ScalarType hand_kernel(IndexType a, IndexType b) const
    {
        ScalarType s = 0;
        for (IndexType j = 0; j < X.rows(); j++)
            s += X(j, a) * X(j, b);
        return s;
    }
    ScalarType hand_distance(IndexType a, IndexType b) const
    {
        ScalarType s = 0;
        for (IndexType j = 0; j < X.rows(); j++)
        {
            ScalarType t = X(j, a) - X(j, b);
            s += t * t;
        }
        return std::sqrt(s);
    }
    Backing(const DenseMatrix& x, int m, bool tables_by_hand)
        : X(x), ek(x), ed(x), ef(x), KM(x.cols(), x.cols()), DM(x.cols(), x.cols()), pk(KM), pd(DM), mode(m)
    {
        const IndexType n = x.cols();
        for (IndexType i = 0; i < n; i++)
            for (IndexType j = 0; j < n; j++)
            {
                if (m >= 3)
                {
                    KM(i, j) = g_ktab[(size_t)i * n + j];
                    DM(i, j) = g_dtab[(size_t)i * n + j];
                }
                else
                {
                    KM(i, j) = tables_by_hand ? hand_kernel(i, j) : ek.kernel(i, j);
                    DM(i, j) = tables_by_hand ? hand_distance(i, j) : ed.distance(i, j);
                }
            }
    }
    // the contract of a precomputed adapter, checked on EVERY call the library makes: the answer is the entry of the
    // supplied matrix for the pair in the order given
    ScalarType via_adapter(ScalarType got, const DenseMatrix& M, IndexType a, IndexType b) const
    {
        if (!same_bits(got, M(a, b)))
            g_adapter_bad++;
        return got;
    }
    ScalarType kernel(IndexType a, IndexType b) const
    {
        switch (mode)
        {
        case 4:
        case 2: return via_adapter(pk.kernel(a, b), KM, a, b);
        case 3: return g_ktab[(size_t)a * X.cols() + b];
        case 1: return hand_kernel(a, b);
        default: return ek.kernel(a, b);
        }
    }
    ScalarType distance(IndexType a, IndexType b) const
    {
        switch (mode)
        {
        case 4:
        case 2: return via_adapter(pd.distance(a, b), DM, a, b);
        case 3: return g_dtab[(size_t)a * X.cols() + b];
        case 1: return hand_distance(a, b);
        default: return ed.distance(a, b);
        }
    }
    void vector(IndexType a, DenseVector& v) const
    {
        if (mode == 1 || mode == 3)
        {
            v.resize(X.rows());
            for (IndexType j = 0; j < X.rows(); j++)
                v(j) = X(j, a);
        }
        else
            ef.vector(a, v);
    }
    IndexType dimension() const
    {
        return (mode == 1 || mode == 3) ? (IndexType)X.rows() : ef.dimension();
    }
};

static int g_next_cb_id = 1;
template <int Role, class Data> struct UCb
{
    const Backing* b;
    int id; // identity of the object the caller made (copies keep it)
    explicit UCb(const Backing* bb) : b(bb), id(g_next_cb_id++)
    {
    }
    ScalarType kernel(const Data& x, const Data& y) const
    {
        g_cnt[Role][0]++;
        return b->kernel(index_of(x), index_of(y));
    }
    ScalarType distance(const Data& x, const Data& y) const
    {
        g_cnt[Role][1]++;
        return b->distance(index_of(x), index_of(y));
    }
    void vector(const Data& x, DenseVector& v) const
    {
        g_cnt[Role][2]++;
        b->vector(index_of(x), v);
    }
    IndexType dimension() const
    {
        g_cnt[Role][3]++;
        return b->dimension();
    }
};

// ------------------------------------------------------------------ the chain walker
struct not_built
{
};
struct bad_order
{
};

template <int Fam, int Mask, class St, class KC, class DC, class FC, class B, class E, class Cont>
TapkeeOutput walk(const St& st, const char* order, const KC& k, const DC& d, const FC& f, B b, E e, const Cont& c,
                  bool use_container)
{
    if (*order == 0)
    {
        if constexpr (Mask != 0 && allowed(Fam, Mask))
        {
            if (use_container)
            {
                if constexpr (Fam == FAM_E)
                    throw not_built(); // would need a second iterator type (const_iterator)
                else
                    return st.embedUsing(c);
            }
            return st.embedRange(b, e);
        }
        else
            throw not_built();
    }
    const char* rest = order + 1;
    switch (*order)
    {
    case 'K':
        if constexpr (!(Mask & KBIT))
        {
            if constexpr (reachable(Fam, Mask | KBIT))
                return walk<Fam, Mask | KBIT>(st.withKernel(k), rest, k, d, f, b, e, c, use_container);
            else
                throw not_built();
        }
        break;
    case 'D':
        if constexpr (!(Mask & DBIT))
        {
            if constexpr (reachable(Fam, Mask | DBIT))
                return walk<Fam, Mask | DBIT>(st.withDistance(d), rest, k, d, f, b, e, c, use_container);
            else
                throw not_built();
        }
        break;
    case 'F':
        if constexpr (!(Mask & FBIT))
        {
            if constexpr (reachable(Fam, Mask | FBIT))
                return walk<Fam, Mask | FBIT>(st.withFeatures(f), rest, k, d, f, b, e, c, use_container);
            else
                throw not_built();
        }
        break;
    }
    throw bad_order();
}

// ------------------------------------------------------------------ structural dump of the implementation slots
template <int R, class D> std::string describe(const UCb<R, D>& c)
{
    return std::string("U:") + "KDF"[R] + "#" + std::to_string(c.id);
}
template <class D> std::string describe(const dummy_kernel_callback<D>&)
{
    return "dummy:K";
}
template <class D> std::string describe(const dummy_distance_callback<D>&)
{
    return "dummy:D";
}
template <class D> std::string describe(const dummy_features_callback<D>&)
{
    return "dummy:F";
}
template <class It, class C> std::string describe(const tapkee_internal::PlainDistance<It, C>& w)
{
    return "PlainDistance(" + describe(w.callback) + ")";
}
template <class It, class C> std::string describe(const tapkee_internal::KernelDistance<It, C>& w)
{
    return "KernelDistance(" + describe(w.callback) + ")";
}

// what DynamicImplementation::embedUsing does up to the method's embed(): initialize(...), the by-value cast to the
// base class, the construction of the method implementation from it -- then print what every slot holds
template <class KC, class DC, class FC>
void dump_slots(const KC& k, const DC& d, const FC& f, ParametersSet ps, const std::vector<IndexType>& cidx)
{
    typedef std::vector<IndexType>::const_iterator It;
    typedef tapkee_internal::ImplementationBase<It, KC, DC, FC> Base;
    tapkee_internal::Context context(nullptr, nullptr);
    auto impl = tapkee_internal::initialize(cidx.begin(), cidx.end(), k, d, f, ps, context);
    const auto& self = static_cast<Base>(impl);
    tapkee_internal::IsomapImplementation<It, KC, DC, FC> m(self);
    printf("S given kernel=%s distance=%s features=%s\n", describe(k).c_str(), describe(d).c_str(), describe(f).c_str());
    printf("S slots kernel=%s distance=%s features=%s plain_distance=%s kernel_distance=%s begin=%d end=%d n=%ld\n",
           describe(m.kernel).c_str(), describe(m.distance).c_str(), describe(m.features).c_str(),
           describe(m.plain_distance).c_str(), describe(m.kernel_distance).c_str(), (int)(m.begin == cidx.begin()),
           (int)(m.end == cidx.end()), (long)m.n_vectors);
}

// ------------------------------------------------------------------ the adapters, called directly
struct ProbeStat
{
    long n = 0, bad = 0;
    long fa = -1, fb = -1;
    double got = 0, want = 0;
    // bitwise: a table lookup must hand back the stored bits; numeric (-0 == +0, NaN == NaN): two ways of computing
    // the same exact sum may differ in the sign of a zero
    void see(long a, long b, double g, double w, bool compare = true, bool bitwise = true)
    {
        n++;
        const bool same = bitwise ? same_bits(g, w) : (g == w || (std::isnan(g) && std::isnan(w)));
        if (compare && !same)
        {
            if (bad == 0)
            {
                fa = a;
                fb = b;
                got = g;
                want = w;
            }
            bad++;
        }
    }
    void print(const char* what) const
    {
        printf("A %s n=%ld bad=%ld", what, n, bad);
        if (bad)
            printf(" first=%ld,%ld got=%a want=%a", fa, fb, got, want);
        printf("\n");
    }
};

// every (a, b) in order, both triangles and the diagonal: the adapter must answer with the value supplied FOR THAT PAIR
static void probe_adapters(const DenseMatrix& X, bool exact)
{
    const IndexType n = X.cols();
    try
    {
        if (g_ktab.size() == (size_t)n * n && g_dtab.size() == (size_t)n * n)
        {
            DenseMatrix KM(n, n), DM(n, n);
            for (IndexType i = 0; i < n; i++)
                for (IndexType j = 0; j < n; j++)
                {
                    KM(i, j) = g_ktab[(size_t)i * n + j];
                    DM(i, j) = g_dtab[(size_t)i * n + j];
                }
            precomputed_kernel_callback pk(KM);
            precomputed_distance_callback pd(DM);
            ProbeStat sk, sd;
            for (IndexType a = 0; a < n; a++)
                for (IndexType b = 0; b < n; b++)
                {
                    sk.see(a, b, pk.kernel(a, b), g_ktab[(size_t)a * n + b]);
                    sd.see(a, b, pd.distance(a, b), g_dtab[(size_t)a * n + b]);
                }
            sk.print("precomputed_kernel_callback.kernel");
            sd.print("precomputed_distance_callback.distance");
        }
        Backing hand(X, 1, true);
        eigen_kernel_callback ek(X);
        eigen_distance_callback ed(X);
        eigen_features_callback ef(X);
        ProbeStat k1, k2, d1, d2, fv, fd;
        for (IndexType a = 0; a < n; a++)
            for (IndexType b = 0; b < n; b++)
            {
                k1.see(a, b, ek.kernel(a, b), hand.hand_kernel(a, b), exact, false);
                k2.see(a, b, ek(a, b), ek.kernel(a, b));
                d1.see(a, b, ed.distance(a, b), hand.hand_distance(a, b), exact, false);
                d2.see(a, b, ed(a, b), ed.distance(a, b));
            }
        for (IndexType a = 0; a < n; a++)
        {
            DenseVector v;
            ef.vector(a, v);
            if (v.size() != X.rows())
                fv.see(a, -1, (double)v.size(), (double)X.rows());
            else
                for (IndexType j = 0; j < X.rows(); j++)
                    fv.see(a, j, v(j), X(j, a));
        }
        fd.see(-1, -1, (double)ef.dimension(), (double)X.rows());
        k1.print("eigen_kernel_callback.kernel");
        k2.print("eigen_kernel_callback.operator()");
        d1.print("eigen_distance_callback.distance");
        d2.print("eigen_distance_callback.operator()");
        fv.print("eigen_features_callback.vector");
        fd.print("eigen_features_callback.dimension");
    }
    catch (const std::exception& ex)
    {
        printf("A exception %s\n", ex.what());
    }
    printf("AEND\n");
}

// ------------------------------------------------------------------ plumbing
static volatile long g_current_id = -1;
static void on_alarm(int)
{
    char buf[64];
    int n = snprintf(buf, sizeof buf, "T %ld\n", (long)g_current_id);
    if (write(1, buf, n) < 0)
    {
    }
    _exit(7);
}

static const DimensionReductionMethod* method_by_name(const std::string& s)
{
    static const std::map<std::string, const DimensionReductionMethod*> tbl = {
        {"KernelLocallyLinearEmbedding", &KernelLocallyLinearEmbedding},
        {"NeighborhoodPreservingEmbedding", &NeighborhoodPreservingEmbedding},
        {"KernelLocalTangentSpaceAlignment", &KernelLocalTangentSpaceAlignment},
        {"LinearLocalTangentSpaceAlignment", &LinearLocalTangentSpaceAlignment},
        {"HessianLocallyLinearEmbedding", &HessianLocallyLinearEmbedding},
        {"LaplacianEigenmaps", &LaplacianEigenmaps},
        {"LocalityPreservingProjections", &LocalityPreservingProjections},
        {"DiffusionMap", &DiffusionMap},
        {"Isomap", &Isomap},
        {"LandmarkIsomap", &LandmarkIsomap},
        {"MultidimensionalScaling", &MultidimensionalScaling},
        {"LandmarkMultidimensionalScaling", &LandmarkMultidimensionalScaling},
        {"StochasticProximityEmbedding", &StochasticProximityEmbedding},
        {"KernelPrincipalComponentAnalysis", &KernelPrincipalComponentAnalysis},
        {"PrincipalComponentAnalysis", &PrincipalComponentAnalysis},
        {"RandomProjection", &RandomProjection},
        {"FactorAnalysis", &FactorAnalysis},
        {"tDistributedStochasticNeighborEmbedding", &tDistributedStochasticNeighborEmbedding},
        {"ManifoldSculpting", &ManifoldSculpting},
        {"PassThru", &PassThru},
    };
    auto it = tbl.find(s);
    return it == tbl.end() ? nullptr : it->second;
}

static void print_counters()
{
    for (int r = 0; r < 3; r++)
        for (int f = 0; f < 4; f++)
            printf(" %ld", g_cnt[r][f]);
    printf(" %ld %ld %ld %ld", g_obj_as_index, g_index_as_obj, g_foreign, g_adapter_bad);
}

static void report_exc(long id, const char* type, const char* msg)
{
    alarm(0);
    std::string m(msg ? msg : "");
    for (char& ch : m)
        if (ch == '\n' || ch == '\r')
            ch = ' ';
    printf("R %ld EXC %s |", id, type);
    print_counters();
    printf(" | %s\n", m.c_str());
}

int main()
{
    std::ios::sync_with_stdio(true);
    setvbuf(stdout, nullptr, _IOLBF, 0);
    signal(SIGALRM, on_alarm);
    omp_set_num_threads(1);
    Logging::instance().disable_info();
    Logging::instance().disable_warning();
    Logging::instance().disable_error();
    Logging::instance().disable_benchmark();
    Logging::instance().disable_debug();

    DenseMatrix X;
    int N = 0, D = 0;
    std::string line;
    while (std::getline(std::cin, line))
    {
        if (line.rfind("DATA", 0) == 0)
        {
            std::istringstream ss(line.substr(4));
            ss >> N >> D;
            if (N < 0 || D < 0 || N > 100000 || D > 100000)
            {
                N = D = 0;
            }
            g_n = N;
            g_ktab.clear();
            g_dtab.clear();
            g_member.clear();
            X.resize(D, N);
            for (int i = 0; i < N; i++)
                for (int j = 0; j < D; j++)
                {
                    std::string tok;
                    ss >> tok;
                    X(j, i) = strtod(tok.c_str(), nullptr);
                }
            continue;
        }
        if (line.rfind("KTAB", 0) == 0 || line.rfind("DTAB", 0) == 0)
        {
            std::vector<double>& tab = line[0] == 'K' ? g_ktab : g_dtab;
            std::istringstream ss(line.substr(4));
            long n = 0;
            ss >> n;
            tab.clear();
            if (n == N && n > 0)
            {
                tab.resize((size_t)n * n);
                for (size_t i = 0; i < tab.size(); i++)
                {
                    std::string tok;
                    ss >> tok;
                    tab[i] = strtod(tok.c_str(), nullptr);
                }
            }
            continue;
        }
        if (line.rfind("ADAPT", 0) == 0)
        {
            const bool exact = line.find("exact=1") != std::string::npos;
            probe_adapters(X, exact);
            continue;
        }
        if (line.rfind("SLOTS", 0) == 0)
        {
            // SLOTS <subset of KDF>: dump the slots for the callbacks of that subset (dummies elsewhere)
            std::istringstream ss(line.substr(5));
            std::string sub;
            ss >> sub;
            int mask = 0;
            for (char ch : sub)
                mask |= ch == 'K' ? KBIT : ch == 'D' ? DBIT : ch == 'F' ? FBIT : 0;
            if (N < 3)
            {
                printf("S nodata\nSEND\n");
                continue;
            }
            std::vector<IndexType> ix(N);
            for (int i = 0; i < N; i++)
                ix[i] = i;
            Backing backing(X, 0, false);
            UCb<0, IndexType> kcb(&backing);
            UCb<1, IndexType> dcb(&backing);
            UCb<2, IndexType> fcb(&backing);
            dummy_kernel_callback<IndexType> nk;
            dummy_distance_callback<IndexType> nd;
            dummy_features_callback<IndexType> nf;
            ParametersSet ps;
            ps.add(target_dimension = (IndexType)2);
            try
            {
                if constexpr (C13_PART == 0)
                {
                    switch (mask)
                    {
                    case 1: dump_slots(kcb, nd, nf, ps, ix); break;
                    case 2: dump_slots(nk, dcb, nf, ps, ix); break;
                    case 3: dump_slots(kcb, dcb, nf, ps, ix); break;
                    case 4: dump_slots(nk, nd, fcb, ps, ix); break;
                    case 5: dump_slots(kcb, nd, fcb, ps, ix); break;
                    case 6: dump_slots(nk, dcb, fcb, ps, ix); break;
                    case 7: dump_slots(kcb, dcb, fcb, ps, ix); break;
                    default: printf("S badmask\n");
                    }
                }
                else
                    printf("S notbuilt\n");
            }
            catch (const std::exception& ex)
            {
                printf("S exception %s\n", ex.what());
            }
            printf("SEND\n");
            continue;
        }
        if (line.rfind("TRAITS", 0) == 0)
        {
            // what is_dummy<T> really says of every callback class the library ships (and of the harness's own)
#define C13_TRAIT(T) printf("I %s %d\n", #T, (int)is_dummy<T>::value)
            C13_TRAIT(dummy_kernel_callback<IndexType>);
            C13_TRAIT(dummy_distance_callback<IndexType>);
            C13_TRAIT(dummy_features_callback<IndexType>);
            C13_TRAIT(dummy_kernel_callback<Obj>);
            C13_TRAIT(eigen_kernel_callback);
            C13_TRAIT(eigen_distance_callback);
            C13_TRAIT(eigen_features_callback);
            C13_TRAIT(precomputed_kernel_callback);
            C13_TRAIT(precomputed_distance_callback);
            printf("I harness_UCb %d\n", (int)is_dummy<UCb<0, IndexType>>::value);
#undef C13_TRAIT
            printf("IEND\n");
            continue;
        }
        if (line.rfind("NEEDS", 0) == 0)
        {
            // the needs_* flags of the real DimensionReductionMethod objects
            std::istringstream ss(line.substr(5));
            std::string name;
            while (ss >> name)
            {
                const DimensionReductionMethod* mm = method_by_name(name);
                if (!mm)
                    printf("N %s ?\n", name.c_str());
                else
                    printf("N %s %d%d%d\n", name.c_str(), (int)mm->needs_kernel, (int)mm->needs_distance,
                           (int)mm->needs_features);
            }
            printf("NEND\n");
            continue;
        }
        if (line.rfind("RUN", 0) != 0)
            continue;
        std::map<std::string, std::string> kv;
        {
            std::istringstream ss(line.substr(3));
            std::string tok;
            while (ss >> tok)
            {
                size_t e = tok.find('=');
                if (e != std::string::npos)
                    kv[tok.substr(0, e)] = tok.substr(e + 1);
            }
        }
        long id = atol(kv["id"].c_str());
        const DimensionReductionMethod* m = method_by_name(kv["m"]);
        if (!m || N == 0)
        {
            printf("C %ld\nR %ld BADCASE\n", id, id);
            continue;
        }
        ParametersSet ps;
        ps.add(method = *m);
        ps.add(target_dimension = (IndexType)atoi(kv["d"].c_str()));
        // min=1: ONLY the method and the target dimension are given; every other keyword is left to the library's defaults
        // (the call forms must agree there too: same defaults, same refusals)
        const bool minimal = kv.count("min") && kv["min"] == "1";
        if (minimal)
            // (max_iteration and squishing_rate stay explicit: with the defaults 100 / 0.99 ManifoldSculpting needs minutes
            // for two dozen points, its step length shrinks by 0.9 per iteration)
            kv.erase("lr"), kv.erase("perp"), kv.erase("theta"), kv.erase("width"),
                kv.erase("ts"), kv.erase("speg"), kv.erase("spen"), kv.erase("spetol"), kv.erase("fae"), kv.erase("cc"),
                kv["nm"] = "", kv["em"] = "";
        else
            ps.add(num_neighbors = (IndexType)atoi(kv["k"].c_str()));
        const std::string nm = kv["nm"], em = kv["em"];
        if (nm == "brute")
            ps.add(neighbors_method = Brute);
        else if (nm == "vptree")
            ps.add(neighbors_method = VpTree);
        else if (nm == "covertree")
            ps.add(neighbors_method = CoverTree);
        if (em == "dense")
            ps.add(eigen_method = Dense);
        else if (em == "randomized")
            ps.add(eigen_method = Randomized);
        if (kv.count("lr"))
            ps.add(landmark_ratio = strtod(kv["lr"].c_str(), nullptr));
        if (kv.count("perp"))
            ps.add(sne_perplexity = strtod(kv["perp"].c_str(), nullptr));
        if (kv.count("theta"))
            ps.add(sne_theta = strtod(kv["theta"].c_str(), nullptr));
        if (kv.count("sq"))
            ps.add(squishing_rate = strtod(kv["sq"].c_str(), nullptr));
        if (kv.count("maxit"))
            ps.add(max_iteration = (IndexType)atoi(kv["maxit"].c_str()));
        if (kv.count("width"))
            ps.add(gaussian_kernel_width = strtod(kv["width"].c_str(), nullptr));
        if (kv.count("ts"))
            ps.add(diffusion_map_timesteps = (IndexType)atoi(kv["ts"].c_str()));
        if (kv.count("speg"))
            ps.add(spe_global_strategy = (kv["speg"] == "1"));
        if (kv.count("spen"))
            ps.add(spe_num_updates = (IndexType)atoi(kv["spen"].c_str()));
        if (kv.count("spetol"))
            ps.add(spe_tolerance = strtod(kv["spetol"].c_str(), nullptr));
        if (kv.count("fae"))
            ps.add(fa_epsilon = strtod(kv["fae"].c_str(), nullptr));
        if (kv.count("cc"))
            ps.add(check_connectivity = (kv["cc"] == "1"));

        const std::string fam = kv["fam"], order = kv["order"];
        const bool use_container = kv["entry"] == "using";
        const int mode = kv["back"] == "pretab" ? 4 : kv["back"] == "tab" ? 3 : kv["back"] == "pre" ? 2 : kv["back"] == "hand" ? 1 : 0;
        if (mode >= 3 && (g_ktab.size() != (size_t)N * N || g_dtab.size() != (size_t)N * N))
        {
            printf("C %ld\nR %ld BADCASE\n", id, id);
            continue;
        }
        const bool tables_by_hand = kv["src"] == "hand";
        int wd = kv.count("wd") ? atoi(kv["wd"].c_str()) : 20;
        unsigned seed = (unsigned)atol(kv["seed"].c_str());

        // the DENOTED SEQUENCE: which samples of the data set this request embeds, in which order (repeats allowed)
        std::vector<IndexType> ids;
        bool ids_ok = true;
        if (kv.count("ids"))
        {
            std::istringstream is(kv["ids"]);
            std::string tok;
            while (std::getline(is, tok, ','))
            {
                char* endp = nullptr;
                long v = strtol(tok.c_str(), &endp, 10);
                if (tok.empty() || *endp != 0 || v < 0 || v >= N)
                    ids_ok = false;
                else
                    ids.push_back((IndexType)v);
            }
        }
        else
            for (int i = 0; i < N; i++)
                ids.push_back(i);
        const std::string cont = kv.count("cont") ? kv["cont"] : std::string("vec");
        if (!ids_ok || ids.empty() || ids.size() > 100000 || (cont != "vec" && cont != "deque" && cont != "stride"))
        {
            printf("C %ld\nR %ld BADCASE\n", id, id);
            continue;
        }
        const int M = (int)ids.size();
        g_member.clear();
        if (kv.count("ids"))
        {
            g_member.assign(N, 0);
            for (int j = 0; j < M; j++)
                g_member[ids[j]] = 1;
        }

        g_index_offset = (fam == "U" || fam == "Y") && kv.count("off") ? (IndexType)atoi(kv["off"].c_str()) : 0;
        std::vector<IndexType> idx(M);
        std::vector<Obj> objs(M);
        g_inv.clear();
        std::vector<IndexType> sigma(N);
        for (int i = 0; i < N; i++)
            sigma[i] = i;
        if ((fam == "U" || fam == "Y") && kv.count("perm") && atol(kv["perm"].c_str()) != 0)
        {
            unsigned long long st = (unsigned long long)atol(kv["perm"].c_str()) * 6364136223846793005ULL + 1442695040888963407ULL;
            for (int i = N - 1; i > 0; i--)
            {
                st = st * 6364136223846793005ULL + 1442695040888963407ULL;
                std::swap(sigma[i], sigma[(st >> 33) % (unsigned long long)(i + 1)]);
            }
            g_inv.resize(N);
            for (int i = 0; i < N; i++)
                g_inv[sigma[i]] = i;
        }
        for (int j = 0; j < M; j++)
        {
            idx[j] = sigma[ids[j]] + g_index_offset;
            objs[j].key = 1000 + 7L * ids[j];
            objs[j].decoy = N - 1 - ids[j];
        }
        Backing backing(X, mode, tables_by_hand);

        srand(seed);
#ifdef TAPKEE_VERIF_SHUFFLE_HOOK
        tapkee::verif_shuffle_reseed(seed);
#endif
        reset_counters();
        g_current_id = id;
        printf("C %ld\n", id);
        fflush(stdout);
        alarm(wd);
        try
        {
            TapkeeOutput out;
            if (fam == "M")
            {
                if (!g_matrix_form)
                    throw not_built();
                if (kv.count("ids"))
                {
                    // the feature-matrix form of the denoted sequence: one column per element of the sequence
                    DenseMatrix Xs(X.rows(), M);
                    for (int j = 0; j < M; j++)
                        Xs.col(j) = X.col(ids[j]);
                    out = with(ps).embedUsing(Xs);
                }
                else
                    out = with(ps).embedUsing(X);
            }
            else if (fam == "E")
            {
                eigen_kernel_callback kcb(X);
                eigen_distance_callback dcb(X);
                eigen_features_callback fcb(X);
                out = walk<FAM_E, 0>(with(ps), order.c_str(), kcb, dcb, fcb, idx.begin(), idx.end(), idx, use_container);
            }
            else if (fam == "X")
            {
                // tapkee::embed called directly (no chain) with tapkee's eigen callbacks
                if constexpr (allowed(FAM_E, 7))
                {
                    eigen_kernel_callback kcb(X);
                    eigen_distance_callback dcb(X);
                    eigen_features_callback fcb(X);
                    out = tapkee::embed(idx.begin(), idx.end(), kcb, dcb, fcb, ps);
                }
                else
                    throw not_built();
            }
            else if (fam == "Y")
            {
                // tapkee::embed called directly with the counting callbacks
                if constexpr (allowed(FAM_U, 7))
                {
                    UCb<0, IndexType> kcb(&backing);
                    UCb<1, IndexType> dcb(&backing);
                    UCb<2, IndexType> fcb(&backing);
                    const std::vector<IndexType>& cidx = idx;
                    out = tapkee::embed(cidx.begin(), cidx.end(), kcb, dcb, fcb, ps);
                }
                else
                    throw not_built();
            }
            else if (fam == "U")
            {
                UCb<0, IndexType> kcb(&backing);
                UCb<1, IndexType> dcb(&backing);
                UCb<2, IndexType> fcb(&backing);
                const std::vector<IndexType>& cidx = idx;
                if (cont == "vec")
                    out = walk<FAM_U, 0>(with(ps), order.c_str(), kcb, dcb, fcb, cidx.begin(), cidx.end(), cidx, use_container);
                else if constexpr (allowed(FAM_UC, 7))
                {
                    if (cont == "deque")
                    {
                        const std::deque<IndexType> dq = straddling_deque(idx);
                        out = walk<FAM_UC, 0>(with(ps), order.c_str(), kcb, dcb, fcb, dq.begin(), dq.end(), dq, use_container);
                    }
                    else
                    {
                        // decoys: integers that denote no sample at all
                        const StrideSeq<IndexType> sq(idx, std::vector<IndexType>(M, (IndexType)-7));
                        out = walk<FAM_UC, 0>(with(ps), order.c_str(), kcb, dcb, fcb, sq.begin(), sq.end(), sq, use_container);
                    }
                }
                else
                    throw not_built();
            }
            else if (fam == "P")
            {
                // tapkee's own callback classes attached directly: a method that treats these TYPES specially must still
                // produce what it produces for any other callback returning the same values
                if constexpr (allowed(FAM_P, 7))
                {
                    if (mode != 2 && mode != 4)
                        throw bad_order();
                    const std::vector<IndexType>& cidx = idx; // (no shift, no permutation: these classes index their matrix)
                    if (cont == "vec")
                        out = walk<FAM_P, 0>(with(ps), order.c_str(), backing.pk, backing.pd, backing.ef, cidx.begin(), cidx.end(),
                                             cidx, use_container);
                    else if (cont == "deque")
                    {
                        const std::deque<IndexType> dq = straddling_deque(idx);
                        out = walk<FAM_P, 0>(with(ps), order.c_str(), backing.pk, backing.pd, backing.ef, dq.begin(), dq.end(), dq,
                                             use_container);
                    }
                    else
                    {
                        // decoys: valid ids of OTHER samples
                        std::vector<IndexType> decoys(M);
                        for (int j = 0; j < M; j++)
                            decoys[j] = (ids[j] + 1) % N;
                        const StrideSeq<IndexType> sq(idx, decoys);
                        out = walk<FAM_P, 0>(with(ps), order.c_str(), backing.pk, backing.pd, backing.ef, sq.begin(), sq.end(), sq,
                                             use_container);
                    }
                }
                else
                    throw not_built();
            }
            else if (fam == "O")
            {
                UCb<0, Obj> kcb(&backing);
                UCb<1, Obj> dcb(&backing);
                UCb<2, Obj> fcb(&backing);
                const std::vector<Obj>& cobjs = objs;
                out = walk<FAM_O, 0>(with(ps), order.c_str(), kcb, dcb, fcb, cobjs.begin(), cobjs.end(), cobjs, use_container);
            }
            else
                throw bad_order();
            alarm(0);
            const DenseMatrix& E = out.embedding;
            printf("R %ld OK %ld %ld", id, (long)E.rows(), (long)E.cols());
            for (Eigen::Index i = 0; i < E.rows(); i++)
                for (Eigen::Index j = 0; j < E.cols(); j++)
                    printf(" %a", (double)E(i, j));
            printf(" |");
            print_counters();
            printf("\n");
        }
        catch (const not_built&)
        {
            alarm(0);
            printf("R %ld NOTBUILT\n", id);
        }
        catch (const bad_order&)
        {
            alarm(0);
            printf("R %ld BADCASE\n", id);
        }
        catch (const tapkee::wrong_parameter_error& ex)
        {
            report_exc(id, "wrong_parameter_error", ex.what());
        }
        catch (const tapkee::wrong_parameter_type_error& ex)
        {
            report_exc(id, "wrong_parameter_type_error", ex.what());
        }
        catch (const tapkee::missed_parameter_error& ex)
        {
            report_exc(id, "missed_parameter_error", ex.what());
        }
        catch (const tapkee::multiple_parameter_error& ex)
        {
            report_exc(id, "multiple_parameter_error", ex.what());
        }
        catch (const tapkee::unsupported_method_error& ex)
        {
            report_exc(id, "unsupported_method_error", ex.what());
        }
        catch (const tapkee::not_enough_memory_error& ex)
        {
            report_exc(id, "not_enough_memory_error", ex.what());
        }
        catch (const tapkee::cancelled_exception& ex)
        {
            report_exc(id, "cancelled_exception", "");
        }
        catch (const tapkee::eigendecomposition_error& ex)
        {
            report_exc(id, "eigendecomposition_error", ex.what());
        }
        catch (const tapkee::no_data_error& ex)
        {
            report_exc(id, "no_data_error", ex.what());
        }
        catch (const std::exception& ex)
        {
            report_exc(id, "UNDOC", ex.what());
        }
        catch (...)
        {
            report_exc(id, "UNDOC", "non-std exception");
        }
        fflush(stdout);
    }
    return 0;
}
