// c15.cpp — property C15: runs every OpenMP region of tapkee (ten of them) on generated inputs under
// a list of (thread count, schedule kind, chunk) combinations and reports, per combination, a hash of
// the result and its largest deviation from the first combination (1 thread).  The source is untouched;
// the build adds  -D'nowait=schedule(runtime) nowait'  (OpenMP directives are macro-expanded), so the
// `omp for nowait` loops of the nine library regions take their schedule from omp_set_schedule().
//
// input (stdin), one command per line:
//   COMBOS t:k:c[:m] ...            k: 1 static, 2 dynamic, 3 guided ; c: chunk (0 = default); t = 0: the thread count
//                                   of the environment (OMP_NUM_THREADS) instead of omp_set_num_threads(t)
//        m (execution context, wave 3; default 0):
//          0 plain top-level call
//          1 the routine is called from INSIDE a `#pragma omp parallel num_threads(3)` region of this harness, every outer
//            thread on its own data set; nested parallelism off (max-active-levels 1: the inner team has ONE thread while
//            omp_get_max_threads() still answers t)
//          2 the same with nested parallelism on (max-active-levels 2)
//          3 plain call with omp_set_dynamic(1): the runtime may give the region a team smaller than t (it always does
//            when t exceeds the number of processors)
//        whatever the context, the result on each data set must be the one of the plain single-threaded call.
//        (OMP_THREAD_LIMIT below the thread count is the remaining context: it is set in the environment by the check)
//   CASE <id> <region> <N> <k> <d> <L> <dim> <seed> <intdata>
//        region: iso isol mds mdsl diff klle kltsa hlle tri cli tsne
//        (tsne: no OpenMP region on the pinned tree — a sentinel: tsne::TSNE::run on N points of dimension dim,
//         perplexity k, theta = 0.5 if d == 2 else 0 (exact), stopped by the harness' logger at the first progress
//         line with iteration >= L; result = the map Y after those iterations + the logged error)
// output: "C <id>" before each case (flushed), then per combination
//   "R <id> <t> <k> <c> <hash> <entries> <maxabsdiff %a> <maxabsref %a> <nonfinite> <hash of the iteration->thread map> <m> <team>"
//   (m = 1, 2: three data sets; <hash> is the hash of the first data set's result when all three results are bit-identical
//    to their single-threaded references, otherwise a hash of the three results together; <maxabsdiff> the largest deviation
//    over the three; <team> = largest team size the OpenMP runtime reported for a probe region in that context)
//   and up to three lines "X <id> <t> <k> <c> <index> <ref %a> <val %a>" for differing entries,
//   "V <id> <n> <n hex doubles>" once per case for small mds / mdsl / cli results (row major),
//   then "E <id>".
#include <cctype>
#include <cmath>
#include <cstdint>
#include <cstdio>
#include <cstdlib>
#include <cstring>
#include <iostream>
#include <limits>
#include <sstream>
#include <string>
#include <vector>
#include <algorithm>
#include <atomic>
#include <chrono>
#include <thread>
#include <omp.h>

#include <tapkee/defines.hpp>
#include <tapkee/utils/naming.hpp>
#include <tapkee/routines/isomap.hpp>
#include <tapkee/routines/multidimensional_scaling.hpp>
#include <tapkee/routines/diffusion_maps.hpp>
#include <tapkee/routines/locally_linear.hpp>
#include <tapkee/routines/landmarks.hpp>
#include <cli/util.hpp>
#include <tapkee/external/barnes_hut_sne/tsne.hpp>
#include <tapkee/utils/logging.hpp>

using namespace tapkee;
using namespace tapkee::tapkee_internal;

struct Data
{
    int N, dim;
    std::vector<double> x;
    double at(int i, int c) const { return x[(size_t)i * dim + c]; }
};

// which thread ran which iteration (only recorded for the regions whose callback's first argument
// identifies the iteration: every slot is then written by exactly one thread)
static std::vector<int> g_owner;
static bool g_track = false;

// wave 4, big weight-matrix cases only: ONE evaluation of the callback is slow (a lazily loaded sample): the first call whose
// first argument is g_stall_sample waits until no other thread has called the callback for 100 ms (at most 20 s), i.e. until the
// rest of the team has run ahead as far as it can.  Values are untouched; an iteration that is in flight for a long time is what
// makes a block claimed early and filled late (or any other "obtained under the lock, used after it") visible in the RESULT
// and to ASan, where ThreadSanitizer sees the race whatever the timing.
static std::atomic<long> g_calls(0);
static std::atomic<int> g_stall_sample(-1);
static std::atomic<bool> g_stalled(false);
static void stall_once()
{
    long seen = g_calls.load(std::memory_order_relaxed);
    int quiet = 0;
    for (int ms = 0; ms < 20000 && quiet < 100; ms += 10)
    {
        std::this_thread::sleep_for(std::chrono::milliseconds(10));
        long now = g_calls.load(std::memory_order_relaxed);
        quiet = (now == seen) ? quiet + 10 : 0;
        seen = now;
    }
}
static inline void callback_called(int a)
{
    g_calls.fetch_add(1, std::memory_order_relaxed);
    if (a == g_stall_sample.load(std::memory_order_relaxed) && !g_stalled.exchange(true)) stall_once();
}

struct dist_cb
{
    const Data* D;
    inline ScalarType distance(int a, int b) const
    {
        callback_called(a);
        if (g_track) g_owner[a] = omp_get_thread_num();
        double s = 0;
        for (int c = 0; c < D->dim; c++)
        {
            double t = D->at(a, c) - D->at(b, c);
            s += t * t;
        }
        return std::sqrt(s);
    }
    inline ScalarType kernel(int a, int b) const
    {
        callback_called(a);
        double s = 0;
        for (int c = 0; c < D->dim; c++)
            s += D->at(a, c) * D->at(b, c);
        return s;
    }
};

struct Combo
{
    int t, k, c, m;
};

static uint64_t lcg(uint64_t& s)
{
    s = s * 6364136223846793005ULL + 1442695040888963407ULL;
    return s >> 33;
}

static uint64_t fnv(const double* p, size_t n)
{
    uint64_t h = 1469598103934665603ULL;
    const unsigned char* b = (const unsigned char*)p;
    for (size_t i = 0; i < n * sizeof(double); i++)
    {
        h ^= b[i];
        h *= 1099511628211ULL;
    }
    return h;
}

typedef std::vector<int> Indices;

// a progress line of an iterative method = an info message with at least two numbers: the first is the iteration,
// the last the error ("Iteration 50: error is 67.1" today; robust to a rewording of the message)
static bool parse_progress(const std::string& msg, long& iteration, double& value)
{
    std::vector<double> nums;
    const char* s = msg.c_str();
    size_t n = msg.size();
    for (size_t i = 0; i < n;)
    {
        bool start = (isdigit((unsigned char)s[i]) || ((s[i] == '-' || s[i] == '.') && i + 1 < n && isdigit((unsigned char)s[i + 1]))) &&
                     (i == 0 || !(isalnum((unsigned char)s[i - 1]) || s[i - 1] == '_' || s[i - 1] == '.'));
        if (start)
        {
            char* e = nullptr;
            double v = strtod(s + i, &e);
            if (e && e > s + i)
            {
                nums.push_back(v);
                i = (size_t)(e - s);
                continue;
            }
        }
        i++;
    }
    if (nums.size() < 2) return false;
    iteration = (long)nums.front();
    value = nums.back();
    return true;
}

// ends TSNE::run (its iteration count is a local constant) at the first progress line with iteration >= stop_at
struct stop_request
{
    long iteration;
};
// per calling thread: in the nested contexts three threads of the harness call tapkee concurrently
static thread_local long tl_stop_at = -1;
static thread_local double tl_last_error = 0;
struct StopLogger : public LoggerImplementation
{
    virtual void message_info(const std::string& msg)
    {
        long it = 0;
        double v = 0;
        if (parse_progress(msg, it, v))
        {
            tl_last_error = v;
            if (tl_stop_at >= 0 && it >= tl_stop_at) throw stop_request{it};
        }
    }
    virtual void message_warning(const std::string&) {}
    virtual void message_debug(const std::string&) {}
    virtual void message_error(const std::string&) {}
    virtual void message_benchmark(const std::string&) {}
};
static StopLogger* g_logger = nullptr;

static Neighbors knn(const Data& D, int k)
{
    dist_cb cb{&D};
    Neighbors nb(D.N);
    for (int i = 0; i < D.N; i++)
    {
        std::vector<std::pair<double, int>> v;
        for (int j = 0; j < D.N; j++)
            if (j != i) v.push_back({cb.distance(i, j), j});
        std::sort(v.begin(), v.end());
        for (int j = 0; j < k && j < (int)v.size(); j++) nb[i].push_back(v[j].second);
    }
    return nb;
}

// wave 4: problems far above the small cases (N up to 60000 for the weight-matrix regions: a reserve() cap, a branch that only
// switches at 2^22 triplets).  Exact k-NN is quadratic, so the neighbourhood of i is the window i+1 .. i+k (mod N) — the region
// under test takes ANY neighbour lists —, and the N x N result is not densified: the result is a signature of the sparse
// matrix (total nnz; per column: nnz, sum of the values, sum of value * (row + 1)), compared like any other sparse result.
static const int BIG_N = 2000;
static Neighbors window_neighbors(int N, int k)
{
    Neighbors nb(N);
    for (int i = 0; i < N; i++)
        for (int j = 1; j <= k; j++) nb[i].push_back((i + j) % N);
    return nb;
}
static std::vector<double> signature(const SparseWeightMatrix& W)
{
    std::vector<double> r(1 + 3 * (size_t)W.cols(), 0.0);
    r[0] = (double)W.nonZeros();
    for (int c = 0; c < W.outerSize(); ++c)
        for (SparseWeightMatrix::InnerIterator it(W, c); it; ++it)
        {
            size_t o = 1 + 3 * (size_t)it.col();
            r[o] += 1.0;
            r[o + 1] += it.value();
            r[o + 2] += it.value() * (double)(it.row() % 16 + 1);
        }
    return r;
}

static std::vector<double> flat(const DenseMatrix& M)
{
    std::vector<double> r((size_t)M.rows() * M.cols());
    for (int i = 0; i < M.rows(); i++)
        for (int j = 0; j < M.cols(); j++) r[(size_t)i * M.cols() + j] = M(i, j);
    return r;
}

static std::vector<double> run_region(const std::string& region, const Data& D, int k, int d, int L, uint64_t seed)
{
    // iteration 0 of a big weight-matrix case meets the slow sample (its first window neighbour) in its first callback
    const bool big_weight = D.N > BIG_N && (region == "klle" || region == "kltsa" || region == "hlle");
    g_stalled.store(false);
    g_stall_sample.store(big_weight ? 1 : -1);
    Indices idx(D.N);
    for (int i = 0; i < D.N; i++) idx[i] = i;
    dist_cb cb{&D};
    Landmarks lm;
    for (int i = 0; i < L && i < D.N; i++) lm.push_back((int)(((uint64_t)i * 7 + seed) % D.N));
    // distinct landmarks: stride walk
    {
        std::vector<char> used(D.N, 0);
        for (size_t i = 0; i < lm.size(); i++)
        {
            int v = lm[i];
            while (used[v]) v = (v + 1) % D.N;
            used[v] = 1;
            lm[i] = v;
        }
    }
    if (region == "iso")
    {
        Neighbors nb = knn(D, k);
        return flat(compute_shortest_distances_matrix(idx.begin(), idx.end(), nb, cb));
    }
    if (region == "isol")
    {
        Neighbors nb = knn(D, k);
        return flat(compute_shortest_distances_matrix(idx.begin(), idx.end(), lm, nb, cb));
    }
    if (region == "mds") return flat(compute_distance_matrix(idx.begin(), idx.end(), cb));
    if (region == "mdsl") return flat(compute_distance_matrix(idx.begin(), idx.end(), lm, cb));
    if (region == "diff") return flat(compute_diffusion_matrix(idx.begin(), idx.end(), cb, 4.0));
    if (region == "klle")
    {
        if (D.N > BIG_N) return signature(linear_weight_matrix(idx.begin(), idx.end(), window_neighbors(D.N, k), cb, 1e-3, 1e-3));
        Neighbors nb = knn(D, k);
        return flat(DenseMatrix(linear_weight_matrix(idx.begin(), idx.end(), nb, cb, 1e-3, 1e-3)));
    }
    if (region == "kltsa")
    {
        if (D.N > BIG_N) return signature(tangent_weight_matrix(idx.begin(), idx.end(), window_neighbors(D.N, k), cb, d, 1e-3));
        Neighbors nb = knn(D, k);
        return flat(DenseMatrix(tangent_weight_matrix(idx.begin(), idx.end(), nb, cb, d, 1e-3)));
    }
    if (region == "hlle")
    {
        if (D.N > BIG_N) return signature(hessian_weight_matrix(idx.begin(), idx.end(), window_neighbors(D.N, k), cb, d));
        Neighbors nb = knn(D, k);
        return flat(DenseMatrix(hessian_weight_matrix(idx.begin(), idx.end(), nb, cb, d)));
    }
    if (region == "tri")
    {
        uint64_t s = seed ^ 0x9e3779b97f4a7c15ULL;
        int nl = (int)lm.size();
        DenseMatrix le(nl, d);
        DenseVector ev(d), lds(nl);
        for (int i = 0; i < nl; i++)
            for (int j = 0; j < d; j++) le(i, j) = (double)((int)(lcg(s) % 33) - 16) / 8.0;
        for (int j = 0; j < d; j++) ev(j) = 1.0 + (double)(lcg(s) % 16) / 4.0;
        for (int i = 0; i < nl; i++) lds(i) = (double)(lcg(s) % 64) / 4.0;
        EigendecompositionResult er(le, ev);
        DenseMatrix e = triangulate(idx.begin(), idx.end(), cb, lm, lds, er, d);
        // rows of landmarks are copied before the region; every other row is written by the region
        return flat(e);
    }
    if (region == "tsne")
    {
        DenseMatrix X(D.dim, D.N);
        for (int i = 0; i < D.N; i++)
            for (int c = 0; c < D.dim; c++) X(c, i) = D.at(i, c);
        std::vector<double> Y((size_t)D.N * 2 + 1, 0.0);
        tl_stop_at = L;
        tl_last_error = 0;
        srand((unsigned)seed);
        tsne::TSNE t;
        try
        {
            t.run(X, D.N, D.dim, Y.data(), 2, (double)k, d == 2 ? 0.5 : 0.0);
        }
        catch (const stop_request&)
        {
        }
        tl_stop_at = -1;
        Y[(size_t)D.N * 2] = tl_last_error;
        return Y;
    }
    if (region == "cli")
    {
        const Data* Dp = &D;
        auto f = [Dp](IndexType a, IndexType b) -> ScalarType {
            if (g_track) g_owner[a] = omp_get_thread_num();
            dist_cb c{Dp};
            return c.kernel(a, b) + 0.25 * c.distance(a, b);
        };
        return flat(matrix_from_callback((IndexType)D.N, f));
    }
    return std::vector<double>();
}

static void make_data(Data& D, int N, int dim, unsigned long long seed, int intdata)
{
    D.N = N;
    D.dim = dim;
    D.x.resize((size_t)N * dim);
    uint64_t s = seed * 2654435761ULL + 12345;
    for (auto& v : D.x) v = intdata ? (double)((int)(lcg(s) % 41) - 20) : ((double)(lcg(s) % 2000001) - 1e6) / 7e4;
}

struct Cmp
{
    double maxd = 0, maxr = 0;
    long nonfinite = 0;
    bool identical = true;
    std::vector<std::pair<size_t, std::pair<double, double>>> bad;
};

static void compare(const std::vector<double>& r, const std::vector<double>& ref, size_t offset, Cmp& out)
{
    if (r.size() != ref.size())
    {
        out.maxd = std::numeric_limits<double>::infinity();
        out.identical = false;
        return;
    }
    if (r.size() && memcmp(r.data(), ref.data(), r.size() * sizeof(double)) != 0) out.identical = false;
    for (size_t i = 0; i < r.size(); i++)
    {
        if (!std::isfinite(r[i]) || !std::isfinite(ref[i]))
        {
            out.nonfinite++;
            if (memcmp(&r[i], &ref[i], sizeof(double)) != 0 && !(std::isnan(r[i]) && std::isnan(ref[i])))
            {
                out.maxd = std::numeric_limits<double>::infinity();
                if (out.bad.size() < 3) out.bad.push_back({offset + i, {ref[i], r[i]}});
            }
            continue;
        }
        double df = std::fabs(r[i] - ref[i]);
        if (df > out.maxd) out.maxd = df;
        if (std::fabs(ref[i]) > out.maxr) out.maxr = std::fabs(ref[i]);
        if (df != 0 && out.bad.size() < 3) out.bad.push_back({offset + i, {ref[i], r[i]}});
    }
}

// the routine, called by one thread; an exception must not leave an OpenMP region of the harness
static std::vector<double> run_guarded(const std::string& region, const Data& D, int k, int d, int L, uint64_t seed, int& threw)
{
    try
    {
        return run_region(region, D, k, d, L, seed);
    }
    catch (...)
    {
        threw = 1;
        return std::vector<double>();
    }
}

int main()
{
    std::vector<Combo> combos;
    combos.push_back({1, 1, 0, 0});
    std::string line;
    const int env_threads = omp_get_max_threads();      // OMP_NUM_THREADS of the environment (combination t = 0)
    omp_set_dynamic(0);
    g_logger = new StopLogger;
    Logging::instance().set_logger_impl(g_logger);      // owned by the singleton from here on
    Logging::instance().enable_info();
    Logging::instance().disable_warning();
    Logging::instance().disable_error();
    Logging::instance().disable_benchmark();
    Logging::instance().disable_debug();
    const int OUTER = 3;
    while (std::getline(std::cin, line))
    {
        std::istringstream is(line);
        std::string cmd;
        if (!(is >> cmd)) continue;
        if (cmd == "COMBOS")
        {
            combos.clear();
            std::string tok;
            while (is >> tok)
            {
                Combo c{1, 1, 0, 0};
                int nf = sscanf(tok.c_str(), "%d:%d:%d:%d", &c.t, &c.k, &c.c, &c.m);
                if (nf == 3) c.m = 0;
                if (nf >= 3 && c.t >= 0 && c.t <= 64 && c.k >= 1 && c.k <= 3 && c.c >= 0 && c.m >= 0 && c.m <= 3)
                    combos.push_back(c);
            }
            if (combos.empty()) combos.push_back({1, 1, 0, 0});
            continue;
        }
        if (cmd != "CASE") continue;
        long id;
        std::string region;
        int N, k, d, L, dim, intdata;
        unsigned long long seed;
        if (!(is >> id >> region >> N >> k >> d >> L >> dim >> seed >> intdata))
        {
            printf("BAD %s\n", line.c_str());
            continue;
        }
        printf("C %ld\n", id);
        fflush(stdout);
        const bool weight_region = (region == "klle" || region == "kltsa" || region == "hlle");
        if (N < 1 || N > (weight_region ? 60000 : 4000) || (N > 4000 && k > 64) || dim < 1 || dim > 16 || k < 1 || k >= std::max(N, 2) || d < 1 || d > 6 || L < 1 || L > N)
        {
            printf("BAD %ld\nE %ld\n", id, id);
            continue;
        }
        // data set 0 is the case's; 1 and 2 are the ones the other outer threads work on in the nested contexts
        Data Dq[OUTER];
        for (int q = 0; q < OUTER; q++) make_data(Dq[q], N, dim, seed + (unsigned long long)q * 7919ULL, intdata);
        const Data& D = Dq[0];
        std::vector<double> refq[OUTER];
        bool have_refq = false;
        for (size_t ci = 0; ci < combos.size(); ci++)
        {
            const Combo& c = combos[ci];
            const bool nested = (c.m == 1 || c.m == 2);
            omp_set_num_threads(c.t == 0 ? env_threads : c.t);
            omp_set_schedule(c.k == 1 ? omp_sched_static : c.k == 2 ? omp_sched_dynamic : omp_sched_guided, c.c);
            omp_set_dynamic(0);
            omp_set_max_active_levels(1);
            if (nested && !have_refq)
            {
                // single-threaded plain references of the other two data sets
                omp_set_num_threads(1);
                for (int q = 1; q < OUTER; q++) refq[q] = run_region(region, Dq[q], k, d, L, seed);
                omp_set_num_threads(c.t == 0 ? env_threads : c.t);
                have_refq = true;
            }
            omp_set_dynamic(c.m == 3 ? 1 : 0);
            omp_set_max_active_levels(c.m == 2 ? 2 : 1);
            g_owner.assign(N, -1);
            g_track = !nested && (region == "mds" || region == "mdsl" || region == "diff" || region == "tri" || region == "cli");
            std::vector<double> rs[OUTER];
            int threw = 0;
            int team = 0;
            if (!nested)
            {
                // team size the runtime grants in this context (reported only)
#pragma omp parallel
                {
#pragma omp master
                    team = omp_get_num_threads();
                }
                rs[0] = run_region(region, D, k, d, L, seed);
            }
            else
            {
#pragma omp parallel num_threads(OUTER) shared(rs, threw, team)
                {
                    const int me = omp_get_thread_num(), outer_team = omp_get_num_threads();
                    int inner = 0;
#pragma omp parallel
                    {
#pragma omp master
                        inner = omp_get_num_threads();
                    }
                    // a thread limit may leave fewer than OUTER outer threads: deal the data sets out
                    for (int q = me; q < OUTER; q += outer_team)
                    {
                        int th = 0;
                        std::vector<double> r = run_guarded(region, Dq[q], k, d, L, seed, th);
                        rs[q].swap(r);
                        if (th)
                        {
#pragma omp atomic write
                            threw = 1;
                        }
                    }
#pragma omp critical(c15_team)
                    if (inner > team) team = inner;
                }
            }
            g_track = false;
            uint64_t ah = 1469598103934665603ULL;
            for (int v : g_owner)
            {
                ah ^= (uint64_t)(v + 2);
                ah *= 1099511628211ULL;
            }
            if (ci == 0)
            {
                refq[0] = rs[0];
                // small symmetric-fill results are printed in full: the check compares them with the closed form
                // f(min(a,b), max(a,b)) of theorem c15_sym_fill_all_schedules
                if ((region == "mds" || region == "mdsl" || region == "cli") && rs[0].size() <= 1100)
                {
                    printf("V %ld %zu", id, rs[0].size());
                    for (double v : rs[0]) printf(" %a", v);
                    printf("\n");
                }
            }
            Cmp cm;
            uint64_t h;
            size_t entries;
            if (!nested)
            {
                compare(rs[0], refq[0], 0, cm);
                h = fnv(rs[0].data(), rs[0].size());
                entries = rs[0].size();
            }
            else
            {
                size_t off = 0;
                entries = 0;
                std::vector<double> all;
                bool sizes_ok = true;
                for (int q = 0; q < OUTER; q++)
                {
                    compare(rs[q], refq[q], off, cm);
                    off += refq[q].size();
                    if (rs[q].size() != refq[q].size()) sizes_ok = false;
                    all.insert(all.end(), rs[q].begin(), rs[q].end());
                }
                if (threw) cm.maxd = std::numeric_limits<double>::infinity(), cm.identical = false;
                entries = sizes_ok ? rs[0].size() : all.size() + 1;
                h = cm.identical ? fnv(rs[0].data(), rs[0].size()) : (fnv(all.data(), all.size()) ^ 0x5bd1e995ULL);
            }
            printf("R %ld %d %d %d %016llx %zu %a %a %ld %016llx %d %d\n", id, c.t, c.k, c.c, (unsigned long long)h, entries,
                   cm.maxd, cm.maxr, cm.nonfinite, (unsigned long long)ah, c.m, team);
            for (auto& b : cm.bad) printf("X %ld %d %d %d %zu %a %a\n", id, c.t, c.k, c.c, b.first, b.second.first, b.second.second);
        }
        printf("E %ld\n", id);
        fflush(stdout);
    }
    return 0;
}
