// c15.cpp — property C15: runs every OpenMP region of tapkee (ten of them) on generated inputs under
// a list of (thread count, schedule kind, chunk) combinations and reports, per combination, a hash of
// the result and its largest deviation from the first combination (1 thread).  The source is untouched;
// the build adds  -D'nowait=schedule(runtime) nowait'  (OpenMP directives are macro-expanded), so the
// `omp for nowait` loops of the nine library regions take their schedule from omp_set_schedule().
//
// input (stdin), one command per line:
//   COMBOS t:k:c t:k:c ...          k: 1 static, 2 dynamic, 3 guided ; c: chunk (0 = default)
//   CASE <id> <region> <N> <k> <d> <L> <dim> <seed> <intdata>
//        region: iso isol mds mdsl diff klle kltsa hlle tri cli tsne
//        (tsne: no OpenMP region on the pinned tree — a sentinel: tsne::TSNE::run on N points of dimension dim,
//         perplexity k, theta = 0.5 if d == 2 else 0 (exact), stopped by the harness' logger at the first progress
//         line with iteration >= L; result = the map Y after those iterations + the logged error)
// output: "C <id>" before each case (flushed), then per combination
//   "R <id> <t> <k> <c> <hash> <entries> <maxabsdiff %a> <maxabsref %a> <nonfinite> <hash of the iteration->thread map>"
//   and up to three lines "X <id> <t> <k> <c> <index> <ref %a> <val %a>" for differing entries,
//   "V <id> <n> <n hex doubles>" once per case for small mds / mdsl / cli results (row major),
//   then "E <id>".
#include <cctype>
#include <cmath>
#include <cstdint>
#include <cstdio>
#include <cstdlib>
#include <cstring>
#include <iostream>
#include <limits>
#include <sstream>
#include <string>
#include <vector>
#include <algorithm>
#include <omp.h>

#include <tapkee/defines.hpp>
#include <tapkee/utils/naming.hpp>
#include <tapkee/routines/isomap.hpp>
#include <tapkee/routines/multidimensional_scaling.hpp>
#include <tapkee/routines/diffusion_maps.hpp>
#include <tapkee/routines/locally_linear.hpp>
#include <tapkee/routines/landmarks.hpp>
#include <cli/util.hpp>
#include <tapkee/external/barnes_hut_sne/tsne.hpp>
#include <tapkee/utils/logging.hpp>

using namespace tapkee;
using namespace tapkee::tapkee_internal;

struct Data
{
    int N, dim;
    std::vector<double> x;
    double at(int i, int c) const { return x[(size_t)i * dim + c]; }
};

// which thread ran which iteration (only recorded for the regions whose callback's first argument
// identifies the iteration: every slot is then written by exactly one thread)
static std::vector<int> g_owner;
static bool g_track = false;

struct dist_cb
{
    const Data* D;
    inline ScalarType distance(int a, int b) const
    {
        if (g_track) g_owner[a] = omp_get_thread_num();
        double s = 0;
        for (int c = 0; c < D->dim; c++)
        {
            double t = D->at(a, c) - D->at(b, c);
            s += t * t;
        }
        return std::sqrt(s);
    }
    inline ScalarType kernel(int a, int b) const
    {
        double s = 0;
        for (int c = 0; c < D->dim; c++)
            s += D->at(a, c) * D->at(b, c);
        return s;
    }
};

struct Combo
{
    int t, k, c;
};

static uint64_t lcg(uint64_t& s)
{
    s = s * 6364136223846793005ULL + 1442695040888963407ULL;
    return s >> 33;
}

static uint64_t fnv(const double* p, size_t n)
{
    uint64_t h = 1469598103934665603ULL;
    const unsigned char* b = (const unsigned char*)p;
    for (size_t i = 0; i < n * sizeof(double); i++)
    {
        h ^= b[i];
        h *= 1099511628211ULL;
    }
    return h;
}

typedef std::vector<int> Indices;

// a progress line of an iterative method = an info message with at least two numbers: the first is the iteration,
// the last the error ("Iteration 50: error is 67.1" today; robust to a rewording of the message)
static bool parse_progress(const std::string& msg, long& iteration, double& value)
{
    std::vector<double> nums;
    const char* s = msg.c_str();
    size_t n = msg.size();
    for (size_t i = 0; i < n;)
    {
        bool start = (isdigit((unsigned char)s[i]) || ((s[i] == '-' || s[i] == '.') && i + 1 < n && isdigit((unsigned char)s[i + 1]))) &&
                     (i == 0 || !(isalnum((unsigned char)s[i - 1]) || s[i - 1] == '_' || s[i - 1] == '.'));
        if (start)
        {
            char* e = nullptr;
            double v = strtod(s + i, &e);
            if (e && e > s + i)
            {
                nums.push_back(v);
                i = (size_t)(e - s);
                continue;
            }
        }
        i++;
    }
    if (nums.size() < 2) return false;
    iteration = (long)nums.front();
    value = nums.back();
    return true;
}

// ends TSNE::run (its iteration count is a local constant) at the first progress line with iteration >= stop_at
struct stop_request
{
    long iteration;
};
struct StopLogger : public LoggerImplementation
{
    long stop_at = -1;
    double last_error = 0;
    virtual void message_info(const std::string& msg)
    {
        long it = 0;
        double v = 0;
        if (parse_progress(msg, it, v))
        {
            last_error = v;
            if (stop_at >= 0 && it >= stop_at) throw stop_request{it};
        }
    }
    virtual void message_warning(const std::string&) {}
    virtual void message_debug(const std::string&) {}
    virtual void message_error(const std::string&) {}
    virtual void message_benchmark(const std::string&) {}
};
static StopLogger* g_logger = nullptr;

static Neighbors knn(const Data& D, int k)
{
    dist_cb cb{&D};
    Neighbors nb(D.N);
    for (int i = 0; i < D.N; i++)
    {
        std::vector<std::pair<double, int>> v;
        for (int j = 0; j < D.N; j++)
            if (j != i) v.push_back({cb.distance(i, j), j});
        std::sort(v.begin(), v.end());
        for (int j = 0; j < k && j < (int)v.size(); j++) nb[i].push_back(v[j].second);
    }
    return nb;
}

static std::vector<double> flat(const DenseMatrix& M)
{
    std::vector<double> r((size_t)M.rows() * M.cols());
    for (int i = 0; i < M.rows(); i++)
        for (int j = 0; j < M.cols(); j++) r[(size_t)i * M.cols() + j] = M(i, j);
    return r;
}

static std::vector<double> run_region(const std::string& region, const Data& D, int k, int d, int L, uint64_t seed)
{
    Indices idx(D.N);
    for (int i = 0; i < D.N; i++) idx[i] = i;
    dist_cb cb{&D};
    Landmarks lm;
    for (int i = 0; i < L && i < D.N; i++) lm.push_back((int)(((uint64_t)i * 7 + seed) % D.N));
    // distinct landmarks: stride walk
    {
        std::vector<char> used(D.N, 0);
        for (size_t i = 0; i < lm.size(); i++)
        {
            int v = lm[i];
            while (used[v]) v = (v + 1) % D.N;
            used[v] = 1;
            lm[i] = v;
        }
    }
    if (region == "iso")
    {
        Neighbors nb = knn(D, k);
        return flat(compute_shortest_distances_matrix(idx.begin(), idx.end(), nb, cb));
    }
    if (region == "isol")
    {
        Neighbors nb = knn(D, k);
        return flat(compute_shortest_distances_matrix(idx.begin(), idx.end(), lm, nb, cb));
    }
    if (region == "mds") return flat(compute_distance_matrix(idx.begin(), idx.end(), cb));
    if (region == "mdsl") return flat(compute_distance_matrix(idx.begin(), idx.end(), lm, cb));
    if (region == "diff") return flat(compute_diffusion_matrix(idx.begin(), idx.end(), cb, 4.0));
    if (region == "klle")
    {
        Neighbors nb = knn(D, k);
        return flat(DenseMatrix(linear_weight_matrix(idx.begin(), idx.end(), nb, cb, 1e-3, 1e-3)));
    }
    if (region == "kltsa")
    {
        Neighbors nb = knn(D, k);
        return flat(DenseMatrix(tangent_weight_matrix(idx.begin(), idx.end(), nb, cb, d, 1e-3)));
    }
    if (region == "hlle")
    {
        Neighbors nb = knn(D, k);
        return flat(DenseMatrix(hessian_weight_matrix(idx.begin(), idx.end(), nb, cb, d)));
    }
    if (region == "tri")
    {
        uint64_t s = seed ^ 0x9e3779b97f4a7c15ULL;
        int nl = (int)lm.size();
        DenseMatrix le(nl, d);
        DenseVector ev(d), lds(nl);
        for (int i = 0; i < nl; i++)
            for (int j = 0; j < d; j++) le(i, j) = (double)((int)(lcg(s) % 33) - 16) / 8.0;
        for (int j = 0; j < d; j++) ev(j) = 1.0 + (double)(lcg(s) % 16) / 4.0;
        for (int i = 0; i < nl; i++) lds(i) = (double)(lcg(s) % 64) / 4.0;
        EigendecompositionResult er(le, ev);
        DenseMatrix e = triangulate(idx.begin(), idx.end(), cb, lm, lds, er, d);
        // rows of landmarks are copied before the region; every other row is written by the region
        return flat(e);
    }
    if (region == "tsne")
    {
        DenseMatrix X(D.dim, D.N);
        for (int i = 0; i < D.N; i++)
            for (int c = 0; c < D.dim; c++) X(c, i) = D.at(i, c);
        std::vector<double> Y((size_t)D.N * 2 + 1, 0.0);
        g_logger->stop_at = L;
        g_logger->last_error = 0;
        srand((unsigned)seed);
        tsne::TSNE t;
        try
        {
            t.run(X, D.N, D.dim, Y.data(), 2, (double)k, d == 2 ? 0.5 : 0.0);
        }
        catch (const stop_request&)
        {
        }
        g_logger->stop_at = -1;
        Y[(size_t)D.N * 2] = g_logger->last_error;
        return Y;
    }
    if (region == "cli")
    {
        const Data* Dp = &D;
        auto f = [Dp](IndexType a, IndexType b) -> ScalarType {
            if (g_track) g_owner[a] = omp_get_thread_num();
            dist_cb c{Dp};
            return c.kernel(a, b) + 0.25 * c.distance(a, b);
        };
        return flat(matrix_from_callback((IndexType)D.N, f));
    }
    return std::vector<double>();
}

int main()
{
    std::vector<Combo> combos;
    combos.push_back({1, 1, 0});
    std::string line;
    omp_set_dynamic(0);
    g_logger = new StopLogger;
    Logging::instance().set_logger_impl(g_logger);      // owned by the singleton from here on
    Logging::instance().enable_info();
    Logging::instance().disable_warning();
    Logging::instance().disable_error();
    Logging::instance().disable_benchmark();
    Logging::instance().disable_debug();
    while (std::getline(std::cin, line))
    {
        std::istringstream is(line);
        std::string cmd;
        if (!(is >> cmd)) continue;
        if (cmd == "COMBOS")
        {
            combos.clear();
            std::string tok;
            while (is >> tok)
            {
                Combo c{1, 1, 0};
                if (sscanf(tok.c_str(), "%d:%d:%d", &c.t, &c.k, &c.c) == 3 && c.t >= 1 && c.t <= 64 && c.k >= 1 &&
                    c.k <= 3 && c.c >= 0)
                    combos.push_back(c);
            }
            if (combos.empty()) combos.push_back({1, 1, 0});
            continue;
        }
        if (cmd != "CASE") continue;
        long id;
        std::string region;
        int N, k, d, L, dim, intdata;
        unsigned long long seed;
        if (!(is >> id >> region >> N >> k >> d >> L >> dim >> seed >> intdata))
        {
            printf("BAD %s\n", line.c_str());
            continue;
        }
        printf("C %ld\n", id);
        fflush(stdout);
        if (N < 1 || N > 4000 || dim < 1 || dim > 16 || k < 1 || k >= std::max(N, 2) || d < 1 || d > 6 || L < 1 || L > N)
        {
            printf("BAD %ld\nE %ld\n", id, id);
            continue;
        }
        Data D;
        D.N = N;
        D.dim = dim;
        D.x.resize((size_t)N * dim);
        uint64_t s = seed * 2654435761ULL + 12345;
        for (auto& v : D.x)
            v = intdata ? (double)((int)(lcg(s) % 41) - 20) : ((double)(lcg(s) % 2000001) - 1e6) / 7e4;
        std::vector<double> ref;
        for (size_t ci = 0; ci < combos.size(); ci++)
        {
            const Combo& c = combos[ci];
            omp_set_num_threads(c.t);
            omp_set_schedule(c.k == 1 ? omp_sched_static : c.k == 2 ? omp_sched_dynamic : omp_sched_guided, c.c);
            g_owner.assign(N, -1);
            g_track = (region == "mds" || region == "mdsl" || region == "diff" || region == "tri" || region == "cli");
            std::vector<double> r = run_region(region, D, k, d, L, seed);
            g_track = false;
            uint64_t ah = 1469598103934665603ULL;
            for (int v : g_owner)
            {
                ah ^= (uint64_t)(v + 2);
                ah *= 1099511628211ULL;
            }
            if (ci == 0)
            {
                ref = r;
                // small symmetric-fill results are printed in full: the check compares them with the closed form
                // f(min(a,b), max(a,b)) of theorem c15_sym_fill_all_schedules
                if ((region == "mds" || region == "mdsl" || region == "cli") && r.size() <= 1100)
                {
                    printf("V %ld %zu", id, r.size());
                    for (double v : r) printf(" %a", v);
                    printf("\n");
                }
            }
            double maxd = 0, maxr = 0;
            long nonfinite = 0;
            std::vector<size_t> bad;
            if (r.size() != ref.size())
                maxd = std::numeric_limits<double>::infinity();
            else
                for (size_t i = 0; i < r.size(); i++)
                {
                    if (!std::isfinite(r[i]) || !std::isfinite(ref[i]))
                    {
                        nonfinite++;
                        if (memcmp(&r[i], &ref[i], sizeof(double)) != 0 && !(std::isnan(r[i]) && std::isnan(ref[i])))
                        {
                            maxd = std::numeric_limits<double>::infinity();
                            if (bad.size() < 3) bad.push_back(i);
                        }
                        continue;
                    }
                    double df = std::fabs(r[i] - ref[i]);
                    if (df > maxd) maxd = df;
                    if (std::fabs(ref[i]) > maxr) maxr = std::fabs(ref[i]);
                    if (df != 0 && bad.size() < 3) bad.push_back(i);
                }
            printf("R %ld %d %d %d %016llx %zu %a %a %ld %016llx\n", id, c.t, c.k, c.c,
                   (unsigned long long)fnv(r.data(), r.size()), r.size(), maxd, maxr, nonfinite, (unsigned long long)ah);
            for (size_t b : bad) printf("X %ld %d %d %d %zu %a %a\n", id, c.t, c.k, c.c, b, ref[b], r[b]);
        }
        printf("E %ld\n", id);
        fflush(stdout);
    }
    return 0;
}
