// harness/c20.cpp — property C20 (the CLI writes exactly what the library computes).
//
// One translation unit, two programs (a tapkee TU takes about a minute to compile, so the command
// line tool and the in-process reference share it):
//
//   c20 cli <argv...>   the command line tool of the working tree: src/cli/main.cpp is included
//                       verbatim (its main() renamed), so this IS bin/tapkee rebuilt from the tree.
//   c20 lib             reads cases from stdin and calls the library in-process with the parameter
//                       values written on the case line (they come from the extracted Coq model /
//                       the documented specification, NOT from main.cpp's option parsing), on the
//                       same data, and prints the embedding (and projection) the way an ostream
//                       prints doubles.  Nothing of src/cli is used on this path: the matrix is read
//                       with strtod, the enumerators are looked up in the table below.
//
// case line:   <key>=<value> ... data <N> <D> <x_00> <x_01> ... (sample-major, C99 hex floats or decimals)
//   keys: method neighbors_method eigen_method computation_strategy (enumerator names)
//         num_neighbors target_dimension diffusion_map_timesteps max_iteration spe_num_updates (int)
//         gaussian_kernel_width spe_tolerance landmark_ratio nullspace_shift fa_epsilon sne_perplexity
//         sne_theta squishing_rate (double)   spe_global_strategy check_connectivity (0/1)
//         seed (optional, unsigned): srandom(seed) + tapkee::verif_shuffle_reseed(seed) (hook H1) before the call
//
// Random numbers.  The library draws from std::rand() and, for shuffles, from std::random_device unless hook H1
// is seeded.  With C20_SEED=<n> in the environment `c20 cli` seeds both generators with n before the tool's
// main() runs, and the tool's own `srand(time(NULL))` is answered with the same n (srand is interposed below:
// nothing of src/cli is edited, the call lands in this translation unit because the executable's symbols come
// first).  `c20 lib` does the same before each case that carries seed=<n>.  Tool and in-process reference then
// see the same random stream, so the randomised methods can be compared on their output too.
// output per case:  BEGIN <index> / EMB <rows> <cols> / rows... / [PM r c / rows... / PV n / values...] /
//                   or EXC <what> / END
#define main tapkee_cli_main
#include <cli/main.cpp>
#undef main

#include <cstdio>
#include <cstdlib>
#include <iostream>
#include <map>
#include <sstream>
#include <string>

namespace c20
{
static bool seed_override = false;
static unsigned seed_value = 0;
static unsigned long srand_calls = 0;

static void reseed(unsigned seed)
{
    ::srandom(seed);
    tapkee::verif_shuffle_reseed(seed);
}
} // namespace c20

// interposes glibc's srand for this executable (rand() keeps using glibc's state, which srandom sets)
extern "C" void srand(unsigned int seed) noexcept
{
    c20::srand_calls++;
    ::srandom(c20::seed_override ? c20::seed_value : seed);
}

namespace c20
{

static const std::map<std::string, tapkee::DimensionReductionMethod> METHODS = {
    {"KernelLocalTangentSpaceAlignment", tapkee::KernelLocalTangentSpaceAlignment},
    {"KernelLocallyLinearEmbedding", tapkee::KernelLocallyLinearEmbedding},
    {"HessianLocallyLinearEmbedding", tapkee::HessianLocallyLinearEmbedding},
    {"MultidimensionalScaling", tapkee::MultidimensionalScaling},
    {"LandmarkMultidimensionalScaling", tapkee::LandmarkMultidimensionalScaling},
    {"Isomap", tapkee::Isomap},
    {"LandmarkIsomap", tapkee::LandmarkIsomap},
    {"DiffusionMap", tapkee::DiffusionMap},
    {"KernelPrincipalComponentAnalysis", tapkee::KernelPrincipalComponentAnalysis},
    {"PrincipalComponentAnalysis", tapkee::PrincipalComponentAnalysis},
    {"RandomProjection", tapkee::RandomProjection},
    {"LaplacianEigenmaps", tapkee::LaplacianEigenmaps},
    {"LocalityPreservingProjections", tapkee::LocalityPreservingProjections},
    {"NeighborhoodPreservingEmbedding", tapkee::NeighborhoodPreservingEmbedding},
    {"LinearLocalTangentSpaceAlignment", tapkee::LinearLocalTangentSpaceAlignment},
    {"StochasticProximityEmbedding", tapkee::StochasticProximityEmbedding},
    {"PassThru", tapkee::PassThru},
    {"FactorAnalysis", tapkee::FactorAnalysis},
    {"tDistributedStochasticNeighborEmbedding", tapkee::tDistributedStochasticNeighborEmbedding},
    {"ManifoldSculpting", tapkee::ManifoldSculpting},
};
static const std::map<std::string, tapkee::NeighborsMethod> NEIGHBORS = {
    {"Brute", tapkee::Brute},
    {"VpTree", tapkee::VpTree},
    {"CoverTree", tapkee::CoverTree},
};
static const std::map<std::string, tapkee::EigenMethod> EIGEN = {
    {"Dense", tapkee::Dense},
    {"Randomized", tapkee::Randomized},
};
static const std::map<std::string, tapkee::ComputationStrategy> STRATEGIES = {
    {"HomogeneousCPUStrategy", tapkee::HomogeneousCPUStrategy},
};

static void print_matrix(const tapkee::DenseMatrix& m)
{
    for (int i = 0; i < m.rows(); i++)
    {
        for (int j = 0; j < m.cols(); j++)
        {
            std::cout << m(i, j);
            if (j != m.cols() - 1)
                std::cout << ',';
        }
        std::cout << '\n';
    }
}

static int run_case(const std::string& line)
{
    std::istringstream ss(line);
    std::map<std::string, std::string> kv;
    std::string tok;
    long N = -1, D = -1;
    tapkee::DenseMatrix features;
    while (ss >> tok)
    {
        if (tok == "data")
        {
            ss >> N >> D;
            if (N < 0 || D < 0 || N > 100000 || D > 100000)
                throw std::runtime_error("bad data header");
            features.resize(D, N); // one column per sample
            for (long i = 0; i < N; i++)
                for (long j = 0; j < D; j++)
                {
                    std::string v;
                    if (!(ss >> v))
                        throw std::runtime_error("short data");
                    features(j, i) = std::strtod(v.c_str(), nullptr);
                }
            break;
        }
        auto eq = tok.find('=');
        if (eq == std::string::npos)
            throw std::runtime_error("bad token " + tok);
        kv[tok.substr(0, eq)] = tok.substr(eq + 1);
    }
    auto need = [&](const char* k) -> const std::string& {
        auto it = kv.find(k);
        if (it == kv.end())
            throw std::runtime_error(std::string("missing key ") + k);
        return it->second;
    };
    auto I = [&](const char* k) { return static_cast<tapkee::IndexType>(std::strtol(need(k).c_str(), nullptr, 10)); };
    auto R = [&](const char* k) { return static_cast<tapkee::ScalarType>(std::strtod(need(k).c_str(), nullptr)); };
    auto B = [&](const char* k) { return need(k) == "1"; };

    tapkee::ParametersSet parameters = tapkee::kwargs[(
        tapkee::method = METHODS.at(need("method")),
        tapkee::computation_strategy = STRATEGIES.at(need("computation_strategy")),
        tapkee::eigen_method = EIGEN.at(need("eigen_method")),
        tapkee::neighbors_method = NEIGHBORS.at(need("neighbors_method")),
        tapkee::num_neighbors = I("num_neighbors"),
        tapkee::target_dimension = I("target_dimension"),
        tapkee::diffusion_map_timesteps = I("diffusion_map_timesteps"),
        tapkee::gaussian_kernel_width = R("gaussian_kernel_width"),
        tapkee::max_iteration = I("max_iteration"),
        tapkee::spe_global_strategy = B("spe_global_strategy"),
        tapkee::spe_num_updates = I("spe_num_updates"),
        tapkee::spe_tolerance = R("spe_tolerance"),
        tapkee::landmark_ratio = R("landmark_ratio"),
        tapkee::nullspace_shift = R("nullspace_shift"),
        tapkee::check_connectivity = B("check_connectivity"),
        tapkee::fa_epsilon = R("fa_epsilon"),
        tapkee::sne_perplexity = R("sne_perplexity"),
        tapkee::sne_theta = R("sne_theta"),
        tapkee::squishing_rate = R("squishing_rate")
    )];
    if (kv.count("seed"))
        reseed(static_cast<unsigned>(std::strtoul(kv["seed"].c_str(), nullptr, 10)));
    tapkee::TapkeeOutput output = tapkee::with(parameters).embedUsing(features);
    std::cout << "EMB " << output.embedding.rows() << ' ' << output.embedding.cols() << '\n';
    print_matrix(output.embedding);
    if (output.projection.implementation)
    {
        auto* mp = dynamic_cast<tapkee::MatrixProjectionImplementation*>(output.projection.implementation.get());
        if (mp)
        {
            std::cout << "PM " << mp->proj_mat.rows() << ' ' << mp->proj_mat.cols() << '\n';
            print_matrix(mp->proj_mat);
            std::cout << "PV " << mp->mean_vec.rows() << '\n';
            for (int i = 0; i < mp->mean_vec.rows(); i++)
                std::cout << mp->mean_vec(i) << '\n';
        }
    }
    return 0;
}

static int lib_main()
{
    std::string line;
    long index = 0;
    while (std::getline(std::cin, line))
    {
        if (line.empty())
            continue;
        std::cout << "BEGIN " << index << std::endl;
        try
        {
            run_case(line);
        }
        catch (const std::exception& ex)
        {
            std::string w = ex.what();
            for (auto& c : w)
                if (c == '\n')
                    c = ' ';
            std::cout << "EXC " << w << '\n';
        }
        catch (...)
        {
            std::cout << "EXC unknown\n";
        }
        std::cout << "END" << std::endl;
        index++;
    }
    return 0;
}

} // namespace c20

int main(int argc, const char** argv)
{
    if (argc >= 2 && std::string(argv[1]) == "cli")
    {
        // argv[1] takes the place of the program name
        if (const char* sd = std::getenv("C20_SEED"))
        {
            c20::seed_override = true;
            c20::seed_value = static_cast<unsigned>(std::strtoul(sd, nullptr, 10));
            c20::reseed(c20::seed_value);
        }
        int rc = tapkee_cli_main(argc - 1, argv + 1);
        if (c20::seed_override)
            std::fprintf(stderr, "C20-SEED %u srand-calls %lu\n", c20::seed_value, c20::srand_calls);
        return rc;
    }
    if (argc >= 2 && std::string(argv[1]) == "lib")
        return c20::lib_main();
    std::fprintf(stderr, "usage: c20 cli <tapkee options> | c20 lib < cases\n");
    return 2;
}
