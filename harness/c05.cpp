// c05.cpp — harness for C05 (MDS / Kernel PCA).  One case per stdin line:
//   DM n <n*n>            distance-callback table (row major; only i<=j is ever asked for):
//                         compute_distance_matrix -> centerMatrix -> *= -0.5, i.e. the three
//                         statements of MultidimensionalScalingImplementation::embed() that
//                         build the matrix handed to eigendecomposition_via.  Prints "R d2" (after
//                         compute_distance_matrix) and "R mds" (handed to the solver).
//   KM n <n*n>            kernel-callback table: compute_centered_kernel_matrix.  Prints "R kpca".
//   CM n <n*n>            centerMatrix on an arbitrary (possibly asymmetric) matrix. "R center".
//   EMB mds|kpca dense|randomized n d <n*n>
//                         public API (tapkee::with(...).withDistance/withKernel(...).embedUsing)
//                         on the precomputed table.  Prints "R emb" (n x d).
//   EIG n <n*n>           reference Eigen::SelfAdjointEigenSolver eigenvalues, ascending. "R eigvals"
//   TRI dense|randomized n d <n*n>
//                         tapkee_internal::eigendecomposition(method, CPU, LargestEigenvalues, M, d)
//                         on a matrix whose triangles DIFFER.  Prints "R vecs" (n x d), "R vals".
//   RAW n <n*n>           Eigen::SelfAdjointEigenSolver on a matrix whose triangles differ
//                         (oracle contract: which triangle does Eigen read?). "R vecs", "R vals".
//   KLLE n D d k <n*D>    public API KernelLocallyLinearEmbedding with the linear kernel on the
//                         given points (smallest-eigenvalue dense site; F7 probe).  "R emb".
// Numbers are decimal or hex-float on input, hex-float on output.
#include "spectral_common.hpp"

#include <numeric>
#include <tapkee/callbacks/eigen_callbacks.hpp>
#include <tapkee/callbacks/precomputed_callbacks.hpp>

using namespace tapkee;
using namespace vh;

int main()
{
    std::string line;
    int k = 0;
    while (std::getline(std::cin, line))
    {
        if (line.empty()) continue;
        std::istringstream is(line);
        std::string cmd;
        is >> cmd;
        guarded(k, [&]() {
            if (cmd == "DM" || cmd == "KM" || cmd == "CM" || cmd == "EIG" || cmd == "RAW")
            {
                int n;
                is >> n;
                DenseMatrix T;
                if (n < 0 || n > 4096 || !read_matrix(is, n, n, T))
                {
                    std::cout << "X " << k << " bad-input" << std::endl;
                    return;
                }
                std::vector<IndexType> idx(n);
                std::iota(idx.begin(), idx.end(), 0);
                if (cmd == "DM")
                {
                    precomputed_distance_callback dcb(T);
                    DenseSymmetricMatrix M = tapkee_internal::compute_distance_matrix(idx.begin(), idx.end(), dcb);
                    print_matrix("d2", M);
                    tapkee_internal::centerMatrix(M);
                    M.array() *= -0.5;
                    print_matrix("mds", M);
                }
                else if (cmd == "KM")
                {
                    precomputed_kernel_callback kcb(T);
                    DenseSymmetricMatrix M =
                        tapkee_internal::compute_centered_kernel_matrix(idx.begin(), idx.end(), kcb);
                    print_matrix("kpca", M);
                }
                else if (cmd == "CM")
                {
                    tapkee_internal::centerMatrix(T);
                    print_matrix("center", T);
                }
                else if (cmd == "EIG")
                {
                    reference_eig(T);
                }
                else
                {
                    Eigen::SelfAdjointEigenSolver<DenseMatrix> es(T);
                    print_matrix("vecs", es.eigenvectors());
                    print_vector("vals", es.eigenvalues());
                }
            }
            else if (cmd == "EMB")
            {
                std::string meth, solver;
                int n, d;
                is >> meth >> solver >> n >> d;
                DenseMatrix T;
                if (n < 0 || n > 4096 || !read_matrix(is, n, n, T))
                {
                    std::cout << "X " << k << " bad-input" << std::endl;
                    return;
                }
                std::vector<IndexType> idx(n);
                std::iota(idx.begin(), idx.end(), 0);
                TapkeeOutput out;
                if (meth == "mds")
                {
                    precomputed_distance_callback dcb(T);
                    out = tapkee::with((method = MultidimensionalScaling, target_dimension = d,
                                        eigen_method = solver_of(solver)))
                              .withDistance(dcb)
                              .embedUsing(idx);
                }
                else
                {
                    precomputed_kernel_callback kcb(T);
                    out = tapkee::with((method = KernelPrincipalComponentAnalysis, target_dimension = d,
                                        eigen_method = solver_of(solver)))
                              .withKernel(kcb)
                              .embedUsing(idx);
                }
                print_matrix("emb", out.embedding);
                std::cout << "R proj " << (out.projection.implementation ? 1 : 0) << std::endl;
            }
            else if (cmd == "TRI")
            {
                std::string solver;
                int n, d;
                is >> solver >> n >> d;
                DenseMatrix T;
                if (n < 0 || n > 4096 || !read_matrix(is, n, n, T))
                {
                    std::cout << "X " << k << " bad-input" << std::endl;
                    return;
                }
                tapkee_internal::EigendecompositionResult r = tapkee_internal::eigendecomposition(
                    solver_of(solver), HomogeneousCPUStrategy, tapkee_internal::LargestEigenvalues, T, d);
                print_matrix("vecs", r.first);
                print_vector("vals", r.second);
            }
            else if (cmd == "KLLE")
            {
                int n, D, d, kk;
                is >> n >> D >> d >> kk;
                DenseMatrix P;
                if (n < 0 || n > 4096 || D < 0 || D > 4096 || !read_matrix(is, n, D, P))
                {
                    std::cout << "X " << k << " bad-input" << std::endl;
                    return;
                }
                DenseMatrix X = P.transpose();   // tapkee: samples are columns
                std::vector<IndexType> idx(n);
                std::iota(idx.begin(), idx.end(), 0);
                eigen_kernel_callback kcb(X);
                TapkeeOutput out = tapkee::with((method = KernelLocallyLinearEmbedding, target_dimension = d,
                                                 num_neighbors = kk, eigen_method = Dense))
                                       .withKernel(kcb)
                                       .embedUsing(idx);
                print_matrix("emb", out.embedding);
            }
            else
            {
                std::cout << "X " << k << " unknown-command" << std::endl;
            }
        });
        k++;
    }
    return 0;
}
