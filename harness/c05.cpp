// c05.cpp — harness for C05 (MDS / Kernel PCA / Isomap with k = N-1).  One case per stdin line:
//   DM n <n*n>            distance-callback table (row major; only i<=j is ever asked for):
//                         compute_distance_matrix -> centerMatrix -> *= -0.5, i.e. the three
//                         statements of MultidimensionalScalingImplementation::embed() that
//                         build the matrix handed to eigendecomposition_via.  Prints "R d2" (after
//                         compute_distance_matrix) and "R mds" (handed to the solver).
//   KM n <n*n>            kernel-callback table: compute_centered_kernel_matrix.  Prints "R kpca".
//   CM n <n*n>            centerMatrix on an arbitrary (possibly asymmetric) matrix. "R center".
//   FULL meth solver seed n d k <n*n>
//                         meth = mds | kpca | isomap | klle ; solver = dense | randomized.
//                         (1) the matrix the method hands to the solver, built with the same
//                             internal routines the method calls ("R B"; mds/kpca only; isomap: the
//                             symmetrised squared geodesics "R geo2" and "R B");
//                         (2) the oracle call replicated: Eigen::SelfAdjointEigenSolver on
//                             (B + B^T)/2 exactly as eigendecomposition_impl_dense does
//                             ("R refvecs", "R refvals", ascending) and std::sqrt of every
//                             max(eigenvalue, 0) ("R refsqrt");
//                         (3) the public API: tapkee::with(...).withKernel(..).withDistance(..)
//                             .embedUsing(indices) on the same table ("R emb").
//                         std::srand(seed) before (3): the randomized solver draws from std::rand.
//                         solver = randomized: also "R omega" (n x d), the Gaussian test matrix the solver
//                         will draw (same seed, same oracle tapkee::gaussian_random, row by row).
//   EMB  meth solver seed n d k <n*n>     only (3).
//   TRI dense|randomized largest|smallest seed n d <n*n>
//                         tapkee_internal::eigendecomposition(method, CPU, Largest/SmallestEigenvalues,
//                         M, d) on a matrix whose triangles may DIFFER.  Prints "R vecs" (n x d), "R vals"
//                         (randomized largest: "R omega" first).
//   RAW n <n*n>           Eigen::SelfAdjointEigenSolver on a matrix whose triangles differ
//                         (oracle contract: which triangle does Eigen read?). "R vecs", "R vals".
//   PAR levels nthreads count {meth d k n <n*n>}*count
//                         a batch of data sets (dense solver).  (a) every data set from plain serial code: the
//                         matrix handed to the solver ("R sB<i>", same internal routines as FULL) and the public
//                         API embedding ("R semb<i>"); (b) the same two, called from INSIDE the application's own
//                         `#pragma omp parallel for num_threads(nthreads) schedule(static,1)` region (one data set
//                         per thread), with omp_set_max_active_levels(levels): "R pB<i>", "R pemb<i>".  Exceptions
//                         are caught per data set ("P serr<i> ..." / "P perr<i> ...").  "P team <observed team
//                         size> ..." (OMP_THREAD_LIMIT may cut the team).
//   RNG cont cb meth solver seed n d k m f <n ids> <payload>
//                         WAVE 4: the same requests on the sequence of samples a RANGE denotes.  The samples are ids into a
//                         table of m samples (payload: f = 0: m*m callback table; f > 0: f x m feature matrix, row major);
//                         the range [begin,end) denotes ids[0..n-1] (ids may repeat, need not be sorted, m may exceed n:
//                         the other samples are decoys).  cont = vector | vectormid (sub-range of a longer vector) |
//                         deque (the whole std::deque) | dequemid (sub-range of a longer std::deque placed across a block
//                         boundary) | strided (every third entry of a buffer) | reversed (every second entry, backwards);
//                         everything the range does not denote is filled with decoy ids.  cb = table (hand-written
//                         callbacks) | precomputed (tapkee::precomputed_{kernel,distance}_callback) | eigen
//                         (tapkee::eigen_{kernel,distance}_callback over the feature matrix).  meth = dm | km (matrix
//                         stage: "R d2" + "R mds" / "R kpca") | mds | kpca | isomap ("R B" (+ "R geo2"), "R emb" through
//                         tapkee::with(...).embedRange(begin, end); randomized: "R omega").  Only the (container,
//                         callback) pairs listed in rng_dispatch are instantiated; others answer "X unsupported".
//   solver = default: the eigen_method keyword is left unset; d < 0: the target_dimension keyword is left unset.
// Numbers are decimal or hex-float on input, hex-float on output.
// There is exactly ONE embedUsing call site (one instantiation of all methods) to keep the
// build short.
#include "spectral_common.hpp"

#include <deque>
#include <iterator>
#include <numeric>

#include <tapkee/callbacks/eigen_callbacks.hpp>
#include <tapkee/callbacks/precomputed_callbacks.hpp>

#include <omp.h>

using namespace tapkee;
using namespace vh;

// callbacks over a table; indices are the "samples"
struct table_kernel
{
    const DenseMatrix* t;
    inline ScalarType kernel(IndexType a, IndexType b) const
    {
        return (*t)(a, b);
    }
};
struct table_distance
{
    const DenseMatrix* t;
    inline ScalarType distance(IndexType a, IndexType b) const
    {
        return (*t)(a, b);
    }
};

typedef std::vector<IndexType> Idx;

// random-access, NON-contiguous iterator adaptor: position p denotes origin[p * stride] (stride 3: every third entry of
// a buffer; stride -2: every second entry, backwards).  Nothing but the random-access iterator requirements.
struct strided_iter
{
    typedef std::random_access_iterator_tag iterator_category;
    typedef IndexType value_type;
    typedef std::ptrdiff_t difference_type;
    typedef const IndexType* pointer;
    typedef const IndexType& reference;
    const IndexType* origin = nullptr;
    difference_type stride = 1;
    difference_type pos = 0;
    strided_iter() = default;
    strided_iter(const IndexType* o, difference_type s, difference_type p) : origin(o), stride(s), pos(p)
    {
    }
    reference operator*() const
    {
        return origin[pos * stride];
    }
    pointer operator->() const
    {
        return origin + pos * stride;
    }
    reference operator[](difference_type k) const
    {
        return origin[(pos + k) * stride];
    }
    strided_iter& operator++()
    {
        ++pos;
        return *this;
    }
    strided_iter operator++(int)
    {
        strided_iter t = *this;
        ++pos;
        return t;
    }
    strided_iter& operator--()
    {
        --pos;
        return *this;
    }
    strided_iter operator--(int)
    {
        strided_iter t = *this;
        --pos;
        return t;
    }
    strided_iter& operator+=(difference_type k)
    {
        pos += k;
        return *this;
    }
    strided_iter& operator-=(difference_type k)
    {
        pos -= k;
        return *this;
    }
    friend strided_iter operator+(strided_iter a, difference_type k)
    {
        a.pos += k;
        return a;
    }
    friend strided_iter operator+(difference_type k, strided_iter a)
    {
        a.pos += k;
        return a;
    }
    friend strided_iter operator-(strided_iter a, difference_type k)
    {
        a.pos -= k;
        return a;
    }
    friend difference_type operator-(const strided_iter& a, const strided_iter& b)
    {
        return a.pos - b.pos;
    }
    friend bool operator==(const strided_iter& a, const strided_iter& b)
    {
        return a.pos == b.pos;
    }
    friend bool operator!=(const strided_iter& a, const strided_iter& b)
    {
        return a.pos != b.pos;
    }
    friend bool operator<(const strided_iter& a, const strided_iter& b)
    {
        return a.pos < b.pos;
    }
    friend bool operator>(const strided_iter& a, const strided_iter& b)
    {
        return a.pos > b.pos;
    }
    friend bool operator<=(const strided_iter& a, const strided_iter& b)
    {
        return a.pos <= b.pos;
    }
    friend bool operator>=(const strided_iter& a, const strided_iter& b)
    {
        return a.pos >= b.pos;
    }
};

static bool method_of(const std::string& s, DimensionReductionMethod& m)
{
    if (s == "mds")
        m = MultidimensionalScaling;
    else if (s == "kpca")
        m = KernelPrincipalComponentAnalysis;
    else if (s == "isomap")
        m = Isomap;
    else if (s == "klle")
        m = KernelLocallyLinearEmbedding;
    else
        return false;
    return true;
}

// the Gaussian test matrix eigendecomposition_impl_randomized is about to draw (LargestEigenvalues: skip = 0, so
// n x d, filled row by row from tapkee::gaussian_random(), which draws from std::rand): the same oracle calls in
// the same order after the same std::srand(seed).  "R omega".  The caller re-seeds afterwards.
static void print_omega(unsigned seed, int n, int d)
{
    std::srand(seed);
    DenseMatrix O(n, d);
    for (int i = 0; i < n; i++)
        for (int j = 0; j < d; j++)
            O(i, j) = tapkee::gaussian_random();
    print_matrix("omega", O);
}

// solver "default": the eigen_method keyword is left unset (the library default applies); d_unset: the
// target_dimension keyword is left unset.  ONE embedUsing call site.
static TapkeeOutput embed_once(const DimensionReductionMethod& m, const std::string& solver, int d, int k,
                               const DenseMatrix& T, const Idx& idx, bool d_unset = false)
{
    table_kernel kcb{&T};
    table_distance dcb{&T};
    ParametersSet p = (method = m, num_neighbors = k, neighbors_method = Brute, check_connectivity = true);
    if (!d_unset)
        p.add(target_dimension = d);
    if (solver != "default")
        p.add(eigen_method = solver_of(solver));
    return tapkee::with(p).withKernel(kcb).withDistance(dcb).embedUsing(idx);
}

// the statements of the embed() bodies that build the matrix handed to eigendecomposition_via, on any range and any
// pair of callbacks
template <class It, class KCB, class DCB>
static bool solver_input_on(const std::string& meth, int kk, It b, It e, KCB kcb, DCB dcb, DenseSymmetricMatrix& B,
                            DenseSymmetricMatrix* geo2 = nullptr)
{
    if (meth == "mds")
    {
        B = tapkee_internal::compute_distance_matrix(b, e, dcb);
        tapkee_internal::centerMatrix(B);
        B.array() *= -0.5;
    }
    else if (meth == "kpca")
    {
        B = tapkee_internal::compute_centered_kernel_matrix(b, e, kcb);
    }
    else if (meth == "isomap")
    {
        // the statements of IsomapImplementation::embed()
        tapkee_internal::PlainDistance<It, DCB> pd(dcb);
        tapkee_internal::Neighbors nb =
            tapkee_internal::find_neighbors(Brute, b, e, pd, static_cast<IndexType>(kk), true);
        B = tapkee_internal::compute_shortest_distances_matrix(b, e, nb, dcb);
        B = B.array().square();
        B = (B + B.transpose()).eval() / 2.0;
        if (geo2)
            *geo2 = B;
        tapkee_internal::centerMatrix(B);
        B.array() *= -0.5;
    }
    else
        return false;
    return true;
}

static bool solver_input(const std::string& meth, int kk, const DenseMatrix& T, const Idx& idx, DenseSymmetricMatrix& B,
                         DenseSymmetricMatrix* geo2 = nullptr)
{
    table_kernel kcb{&T};
    table_distance dcb{&T};
    return solver_input_on(meth, kk, idx.cbegin(), idx.cend(), kcb, dcb, B, geo2);
}

// WAVE 4: one request on the range [b,e) with the callbacks (kcb, dcb)
template <class It, class KCB, class DCB>
static void rng_run(const std::string& meth, const std::string& solver, unsigned seed, int d, int kk, It b, It e, KCB kcb,
                    DCB dcb)
{
    const int n = static_cast<int>(e - b);
    if (meth == "dm")
    {
        DenseSymmetricMatrix M = tapkee_internal::compute_distance_matrix(b, e, dcb);
        print_matrix("d2", M);
        tapkee_internal::centerMatrix(M);
        M.array() *= -0.5;
        print_matrix("mds", M);
        return;
    }
    if (meth == "km")
    {
        DenseSymmetricMatrix M = tapkee_internal::compute_centered_kernel_matrix(b, e, kcb);
        print_matrix("kpca", M);
        return;
    }
    DimensionReductionMethod m = MultidimensionalScaling;
    method_of(meth, m);
    DenseSymmetricMatrix B, geo2;
    solver_input_on(meth, kk, b, e, kcb, dcb, B, &geo2);
    if (meth == "isomap")
        print_matrix("geo2", geo2);
    print_matrix("B", B);
    if (solver == "randomized")
        print_omega(seed, n, d);
    std::srand(seed);
    ParametersSet p = (method = m, num_neighbors = kk, neighbors_method = Brute, check_connectivity = true,
                       target_dimension = d);
    if (solver != "default")
        p.add(eigen_method = solver_of(solver));
    TapkeeOutput out = tapkee::with(p).withKernel(kcb).withDistance(dcb).embedRange(b, e);
    print_matrix("emb", out.embedding);
}

// the (container, callback) pairs that are instantiated (each one is a full instantiation of tapkee::embed)
enum CbKind
{
    CB_TABLE,
    CB_PRECOMPUTED,
    CB_EIGEN
};
template <class It>
static void rng_with(CbKind cb, const std::string& meth, const std::string& solver, unsigned seed, int d, int kk, It b,
                     It e, const DenseMatrix& P)
{
    if (cb == CB_TABLE)
    {
        table_kernel k{&P};
        table_distance dc{&P};
        rng_run(meth, solver, seed, d, kk, b, e, k, dc);
    }
    else if (cb == CB_PRECOMPUTED)
    {
        precomputed_kernel_callback k(P);
        precomputed_distance_callback dc(P);
        rng_run(meth, solver, seed, d, kk, b, e, k, dc);
    }
    else
    {
        eigen_kernel_callback k(P);
        eigen_distance_callback dc(P);
        rng_run(meth, solver, seed, d, kk, b, e, k, dc);
    }
}

struct ParSet
{
    std::string meth;
    int d, k, n;
    DenseMatrix T;
    Idx idx;
    // results: [0] plain serial call, [1] call made from inside the application's parallel region
    DenseSymmetricMatrix B[2];
    DenseMatrix E[2];
    std::string err[2];
    int team[2] = {0, 0};
};

static void par_one(ParSet& s, int slot)
{
    try
    {
        DimensionReductionMethod m = MultidimensionalScaling;
        method_of(s.meth, m);
        s.team[slot] = omp_get_num_threads();
        solver_input(s.meth, s.k, s.T, s.idx, s.B[slot]);
        s.E[slot] = embed_once(m, "dense", s.d, s.k, s.T, s.idx).embedding;
    }
    catch (const std::exception& e)
    {
        s.err[slot] = e.what();
    }
    catch (...)
    {
        s.err[slot] = "unknown exception";
    }
    for (auto& c : s.err[slot])
        if (c == '\n' || c == '\r') c = ' ';
}

int main()
{
    std::string line;
    int k = 0;
    tapkee::Logging::instance().disable_warning();
    while (std::getline(std::cin, line))
    {
        if (line.empty()) continue;
        std::istringstream is(line);
        std::string cmd;
        is >> cmd;
        guarded(k, [&]() {
            if (cmd == "DM" || cmd == "KM" || cmd == "CM" || cmd == "RAW")
            {
                int n;
                is >> n;
                DenseMatrix T;
                if (!is || n < 0 || n > 4096 || !read_matrix(is, n, n, T))
                {
                    std::cout << "X " << k << " bad-input" << std::endl;
                    return;
                }
                Idx idx(n);
                std::iota(idx.begin(), idx.end(), 0);
                if (cmd == "DM")
                {
                    table_distance dcb{&T};
                    DenseSymmetricMatrix M = tapkee_internal::compute_distance_matrix(idx.begin(), idx.end(), dcb);
                    print_matrix("d2", M);
                    tapkee_internal::centerMatrix(M);
                    M.array() *= -0.5;
                    print_matrix("mds", M);
                }
                else if (cmd == "KM")
                {
                    table_kernel kcb{&T};
                    DenseSymmetricMatrix M =
                        tapkee_internal::compute_centered_kernel_matrix(idx.begin(), idx.end(), kcb);
                    print_matrix("kpca", M);
                }
                else if (cmd == "CM")
                {
                    tapkee_internal::centerMatrix(T);
                    print_matrix("center", T);
                }
                else
                {
                    Eigen::SelfAdjointEigenSolver<DenseMatrix> es(T);
                    print_matrix("vecs", es.eigenvectors());
                    print_vector("vals", es.eigenvalues());
                }
            }
            else if (cmd == "FULL" || cmd == "EMB")
            {
                std::string meth, solver;
                unsigned seed;
                int n, d, kk;
                is >> meth >> solver >> seed >> n >> d >> kk;
                DenseMatrix T;
                DimensionReductionMethod m = MultidimensionalScaling;
                if (!is || !method_of(meth, m) || n < 0 || n > 4096 || !read_matrix(is, n, n, T))
                {
                    std::cout << "X " << k << " bad-input" << std::endl;
                    return;
                }
                Idx idx(n);
                std::iota(idx.begin(), idx.end(), 0);
                if (cmd == "FULL" && meth != "klle")
                {
                    DenseSymmetricMatrix B, geo2;
                    solver_input(meth, kk, T, idx, B, &geo2);
                    if (meth == "isomap")
                        print_matrix("geo2", geo2);
                    print_matrix("B", B);
                    // the oracle call of eigendecomposition_impl_dense, replicated
                    DenseSymmetricMatrix W = B;
                    W += W.transpose().eval();
                    W /= 2.0;
                    tapkee::DenseSelfAdjointEigenSolver solver_ref(W);
                    print_matrix("refvecs", solver_ref.eigenvectors());
                    print_vector("refvals", solver_ref.eigenvalues());
                    DenseVector sq = solver_ref.eigenvalues();
                    for (int i = 0; i < sq.size(); i++)
                        sq(i) = sqrt(std::max<ScalarType>(sq(i), 0.0));
                    print_vector("refsqrt", sq);
                }
                if (solver == "randomized")
                    print_omega(seed, n, d);
                std::srand(seed);
                // d < 0: the target_dimension keyword is left unset (documented default 2)
                TapkeeOutput out = embed_once(m, solver, d, kk, T, idx, d < 0);
                print_matrix("emb", out.embedding);
            }
            else if (cmd == "PAR")
            {
                int levels, nthreads, count;
                is >> levels >> nthreads >> count;
                if (!is || levels < 1 || levels > 4 || nthreads < 1 || nthreads > 16 || count < 1 || count > 64)
                {
                    std::cout << "X " << k << " bad-input" << std::endl;
                    return;
                }
                std::vector<ParSet> sets(count);
                for (auto& s : sets)
                {
                    DimensionReductionMethod m = MultidimensionalScaling;
                    is >> s.meth >> s.d >> s.k >> s.n;
                    if (!is || !method_of(s.meth, m) || s.meth == "klle" || s.n < 0 || s.n > 4096 ||
                        !read_matrix(is, s.n, s.n, s.T))
                    {
                        std::cout << "X " << k << " bad-input" << std::endl;
                        return;
                    }
                    s.idx.resize(s.n);
                    std::iota(s.idx.begin(), s.idx.end(), 0);
                }
                // (a) plain serial calls, one data set after another
                for (auto& s : sets)
                    par_one(s, 0);
                // (b) the same calls from inside the application's own parallel region, one data set per thread
                const int saved_levels = omp_get_max_active_levels();
                omp_set_max_active_levels(levels);
                int team = 0;
#pragma omp parallel for num_threads(nthreads) schedule(static, 1)
                for (int i = 0; i < count; i++)
                {
                    if (i == 0)
                        team = omp_get_num_threads();
                    par_one(sets[i], 1);
                }
                omp_set_max_active_levels(saved_levels);
                std::cout << "P team " << team << " levels " << levels << " requested " << nthreads << std::endl;
                for (int i = 0; i < count; i++)
                {
                    const ParSet& s = sets[i];
                    for (int slot = 0; slot < 2; slot++)
                    {
                        const std::string pre = (slot ? "p" : "s");
                        if (!s.err[slot].empty())
                        {
                            std::cout << "P " << pre << "err" << i << " " << s.err[slot] << std::endl;
                            continue;
                        }
                        print_matrix((pre + "B" + std::to_string(i)).c_str(), s.B[slot]);
                        print_matrix((pre + "emb" + std::to_string(i)).c_str(), s.E[slot]);
                    }
                }
            }
            else if (cmd == "RNG")
            {
                std::string cont, cbs, meth, solver;
                unsigned seed;
                int n, d, kk, m, f;
                is >> cont >> cbs >> meth >> solver >> seed >> n >> d >> kk >> m >> f;
                DimensionReductionMethod mm = MultidimensionalScaling;
                if (!is || n < 1 || n > 4096 || m < 1 || m > 4096 || f < 0 || f > 4096 ||
                    !(meth == "dm" || meth == "km" || (method_of(meth, mm) && meth != "klle")))
                {
                    std::cout << "X " << k << " bad-input" << std::endl;
                    return;
                }
                Idx ids(n);
                for (int i = 0; i < n; i++)
                {
                    long v = -1;
                    is >> v;
                    if (!is || v < 0 || v >= m)
                    {
                        std::cout << "X " << k << " bad-input" << std::endl;
                        return;
                    }
                    ids[i] = static_cast<IndexType>(v);
                }
                DenseMatrix P;
                if (!read_matrix(is, f == 0 ? m : f, m, P))
                {
                    std::cout << "X " << k << " bad-input" << std::endl;
                    return;
                }
                CbKind cb;
                if (cbs == "table" && f == 0)
                    cb = CB_TABLE;
                else if (cbs == "precomputed" && f == 0)
                    cb = CB_PRECOMPUTED;
                else if (cbs == "eigen" && f > 0)
                    cb = CB_EIGEN;
                else
                {
                    std::cout << "X " << k << " bad-input" << std::endl;
                    return;
                }
                // decoy ids: valid samples of the table, but not the ones the range denotes at that position
                auto decoy = [m](std::size_t t) { return static_cast<IndexType>((7 * t + 3) % static_cast<std::size_t>(m)); };
                if (cont == "vector" || cont == "vectormid")
                {
                    const std::size_t pre = (cont == "vector") ? 0 : 5, post = (cont == "vector") ? 0 : 4;
                    Idx v(pre + n + post);
                    for (std::size_t t = 0; t < v.size(); t++)
                        v[t] = decoy(t);
                    std::copy(ids.begin(), ids.end(), v.begin() + pre);
                    rng_with(cb, meth, solver, seed, d, kk, v.cbegin() + pre, v.cbegin() + pre + n, P);
                }
                else if (cont == "deque" || cont == "dequemid")
                {
                    std::deque<IndexType> dq;
                    std::size_t off = 0;
                    if (cont == "deque")
                        dq.assign(ids.begin(), ids.end());
                    else
                    {
                        // a long deque of decoys; the denoted samples are placed across the first block boundary
                        const std::size_t len = 2 * 512 / sizeof(IndexType) + 2 * n + 16;
                        for (std::size_t t = 0; t < len; t++)
                            dq.push_back(decoy(t));
                        std::size_t boundary = 0;
                        for (std::size_t t = 0; t + 1 < len && boundary == 0; t++)
                            if (&dq[t] + 1 != &dq[t + 1])
                                boundary = t + 1;
                        const std::size_t before = static_cast<std::size_t>(n) / 2;
                        off = boundary > before ? boundary - before : 0;
                        for (int i = 0; i < n; i++)
                            dq[off + i] = ids[i];
                    }
                    std::size_t breaks = 0;
                    for (int i = 0; i + 1 < n; i++)
                        if (&dq[off + i] + 1 != &dq[off + i + 1])
                            breaks++;
                    std::cout << "P dequebreaks " << breaks << std::endl;
                    rng_with(cb, meth, solver, seed, d, kk, dq.cbegin() + off, dq.cbegin() + off + n, P);
                }
                else if (cont == "strided" || cont == "reversed")
                {
                    const std::ptrdiff_t stride = (cont == "strided") ? 3 : -2;
                    const std::size_t step = static_cast<std::size_t>(stride < 0 ? -stride : stride);
                    Idx buf(step * n + 3);
                    for (std::size_t t = 0; t < buf.size(); t++)
                        buf[t] = decoy(t);
                    const std::size_t first = (stride > 0) ? 1 : step * (n - 1) + 1;
                    for (int i = 0; i < n; i++)
                        buf[first + stride * static_cast<std::ptrdiff_t>(i)] = ids[i];
                    strided_iter b(buf.data() + first, stride, 0), e(buf.data() + first, stride, n);
                    rng_with(cb, meth, solver, seed, d, kk, b, e, P);
                }
                else
                    std::cout << "X " << k << " bad-input" << std::endl;
            }
            else if (cmd == "TRI")
            {
                std::string solver, strat;
                unsigned seed;
                int n, d;
                is >> solver >> strat >> seed >> n >> d;
                DenseMatrix T;
                if (!is || n < 0 || n > 4096 || !read_matrix(is, n, n, T))
                {
                    std::cout << "X " << k << " bad-input" << std::endl;
                    return;
                }
                if (solver == "randomized" && strat != "smallest")
                    print_omega(seed, n, d);
                std::srand(seed);
                tapkee_internal::EigendecompositionResult r = tapkee_internal::eigendecomposition(
                    solver_of(solver), HomogeneousCPUStrategy,
                    strat == "smallest" ? tapkee_internal::SmallestEigenvalues : tapkee_internal::LargestEigenvalues, T,
                    d);
                print_matrix("vecs", r.first);
                print_vector("vals", r.second);
            }
            else
            {
                std::cout << "X " << k << " unknown-command" << std::endl;
            }
        });
        k++;
    }
    return 0;
}
