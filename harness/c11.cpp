// c11.cpp — drives tapkee's landmark code (routines/landmarks.hpp, methods/landmark_*.hpp) on cases
// read from stdin, one case per line; every number crosses the boundary as a hex float or integer.
//
//   T N L d lm_0..lm_{L-1} dist(N*N, row major)          Landmark-MDS through the INTERNAL routines with
//        harness-chosen landmarks (any order): compute_distance_matrix(landmarks) -> colwise mean ->
//        centerMatrix -> *= -0.5 -> eigendecomposition(Dense, Largest) -> *= sqrt(max(.,0)) -> triangulate.
//        (the harness repeats these lines of embed(); embed() itself is exercised by mode E)
//        out: D2 (L*L) MU (L) B (L*L) LAM (d) V (L*d, before scaling) S (d, the sqrt values)
//             YL (L*d, after scaling) EMB (N*d)
//   I N L d k lm_0..lm_{L-1} dist(N*N)                   Landmark-Isomap through the internal routines:
//        find_neighbors(Brute,k) -> compute_shortest_distances_matrix(landmarks) -> square -> row/col/
//        grand means -> *= -0.5 -> B B^T -> eigendecomposition(Dense, Largest) -> B^T U / sqrt(sqrt lam)
//        out: G (L*N) B (L*N) LAM (d) U (L*d) Q (d, sqrt(sqrt lam)) EMB (N*d)
//   E method N d ratio seed k dist(N*N)                  public API tapkee::embed; method in
//        lmds | lisomap | mds | isomap, optionally followed by ":randomized" (eigen_method = Randomized instead
//        of Dense); seed < 0: unseeded (std::random_device)
//        out: PERM p_0..p_{N-1} (the shuffled index vector select_landmarks_random saw; "PERM -" when
//             no shuffle was observed) then EMB (N*d) | EXC <exception kind>
//   S N ratio reps seed                                   select_landmarks_random called reps times
//        out: per repetition "PERM p_0.." (the shuffled vector, "PERM -" if not observed) and "LM l_0 ..."
//   R N L d lm_0..lm_{L-1} dist(N*N) mu(L) first(L*d) second(d)   triangulate() alone on a harness-chosen
//        mean vector / landmark embedding / eigenvalues (exact stream: all operands small dyadics)
//        out: EMB (N*d) and FD (L*d: landmarks_embedding.first AFTER the call, i.e. after the in-place division)
//   M method N d ratio seed k dist(N*N)                  method in lmds | lisomap : the REAL embed() body of the
//        method class (constructed as in mode E) with RECORDING MACROS around the routine calls it makes
//        (select_landmarks_random, compute_distance_matrix, compute_shortest_distances_matrix,
//        eigendecomposition_via, triangulate): inside methods/landmark_*.hpp — and only there — these
//        identifiers are function-like macros that record arguments / results and forward to the real
//        functions (whose definitions are included BEFORE the macros; #pragma once keeps them).  The exact
//        streams therefore see what embed() itself hands over, not a repetition of its lines.
//        out: PERM .. / LM (the landmark list embed() got) /
//             lmds:    D2 (L*L, result of compute_distance_matrix) MU (L, the mean vector handed to triangulate)
//                      B (L*L, the matrix handed to eigendecomposition_via) LAM (d) V (L*d, the solver's answer)
//                      YL (L*d, landmarks_embedding.first as handed to triangulate) TRI (N*d, triangulate's result)
//             lisomap: G (L*N, result of compute_shortest_distances_matrix) BBT (L*L, handed to the solver)
//                      LAM (d) U (L*d)
//             DIM r c / EMB (N*d, what embed() returned)   | EXC <kind>
// Before each case "C <k>" is printed and flushed (crash attribution), after it "END".
//
// Shuffle seeding: with hook H1 (TAPKEE_VERIF_SHUFFLE_HOOK, fixes/H1_random_shuffle_hook.patch) the
// harness reseeds tapkee::random_shuffle and installs the observer.  Without the hook it falls back to a
// source-free trick: `random_device` is renamed (after all std/Eigen headers were included) to a device
// that returns the harness seed, so tapkee::random_shuffle is std::shuffle with mt19937(seed) and the
// harness replays that shuffle on 0..N-1 to learn the permutation.
#include <algorithm>
#include <cmath>
#include <cstdio>
#include <cstdlib>
#include <cstring>
#include <iostream>
#include <iterator>
#include <limits>
#include <numeric>
#include <random>
#include <sstream>
#include <string>
#include <type_traits>
#include <vector>
#include <map>
#include <set>
#include <list>
#include <queue>
#include <functional>
#include <memory>
#include <chrono>
#include <tapkee/defines/eigen3.hpp> // Eigen with tapkee's configuration macros; no tapkee code
#include <fmt/core.h>
#include <fmt/format.h>

static long long g_c11_seed = -1; // < 0: real entropy
namespace std
{
struct c11_seeded_device
{
    typedef unsigned int result_type;
    unsigned int operator()()
    {
        if (g_c11_seed >= 0)
            return static_cast<unsigned int>(g_c11_seed);
        std::random_device real; // still the real one: the macro below is not defined yet
        return real();
    }
};
} // namespace std
#define random_device c11_seeded_device
// --- real definitions first (every header below is #pragma once) ---
#include <tapkee/defines.hpp>
#include <tapkee/parameters/context.hpp>
#include <tapkee/parameters/defaults.hpp>
#include <tapkee/methods/base.hpp>
#include <tapkee/utils/matrix.hpp>
#include <tapkee/routines/eigendecomposition.hpp>
#include <tapkee/routines/landmarks.hpp>
#include <tapkee/routines/multidimensional_scaling.hpp>
#include <tapkee/routines/isomap.hpp>

// --- recorder: what the embed() bodies of the two landmark methods hand to / get from the routines ---
namespace c11rec
{
using tapkee::DenseMatrix;
using tapkee::DenseVector;
using tapkee::IndexType;
using tapkee::tapkee_internal::EigendecompositionResult;
using tapkee::tapkee_internal::Landmarks;
struct rec_t
{
    bool on = false;
    int n_lm = 0, n_d2 = 0, n_geo = 0, n_tri = 0;
    Landmarks lm;
    DenseMatrix d2, geo, yl, tri;
    DenseVector mu, tri_lam;
    std::vector<DenseMatrix> handed;
    std::vector<EigendecompositionResult> eig;
    void reset()
    {
        n_lm = n_d2 = n_geo = n_tri = 0;
        lm.clear();
        handed.clear();
        eig.clear();
        d2.resize(0, 0), geo.resize(0, 0), yl.resize(0, 0), tri.resize(0, 0);
        mu.resize(0), tri_lam.resize(0);
    }
};
inline rec_t& rec()
{
    static rec_t r;
    return r;
}
inline Landmarks got_lm(Landmarks r)
{
    if (rec().on)
        rec().lm = r, rec().n_lm++;
    return r;
}
template <class M> M got_d2(M r)
{
    if (rec().on)
        rec().d2 = DenseMatrix(r), rec().n_d2++;
    return r;
}
template <class M> M got_geo(M r)
{
    if (rec().on)
        rec().geo = DenseMatrix(r), rec().n_geo++;
    return r;
}
template <class M> void handed(const M& m)
{
    if (rec().on)
        rec().handed.push_back(DenseMatrix(m));
}
inline EigendecompositionResult got_eig(EigendecompositionResult r)
{
    if (rec().on)
        rec().eig.push_back(r);
    return r;
}
// triangulate(begin, end, callback, landmarks, landmark_distances_squared, landmarks_embedding, target_dimension):
// the operands are read BEFORE the call (triangulate divides landmarks_embedding.first in place)
template <class It, class CB>
void tri_before(It, It, CB, Landmarks&, DenseVector& mu, EigendecompositionResult& e, IndexType)
{
    if (rec().on)
        rec().mu = mu, rec().yl = e.first, rec().tri_lam = e.second;
}
inline DenseMatrix got_tri(DenseMatrix r)
{
    if (rec().on)
        rec().tri = r, rec().n_tri++;
    return r;
}
} // namespace c11rec

#define select_landmarks_random(...) ::c11rec::got_lm(select_landmarks_random(__VA_ARGS__))
#define compute_distance_matrix(...) ::c11rec::got_d2(compute_distance_matrix(__VA_ARGS__))
#define compute_shortest_distances_matrix(...) ::c11rec::got_geo(compute_shortest_distances_matrix(__VA_ARGS__))
#define eigendecomposition_via(S, M, D) ::c11rec::got_eig((::c11rec::handed(M), eigendecomposition_via(S, M, D)))
#define triangulate(...) (::c11rec::tri_before(__VA_ARGS__), ::c11rec::got_tri(triangulate(__VA_ARGS__)))
#include <tapkee/methods/landmark_multidimensional_scaling.hpp>
#include <tapkee/methods/landmark_isomap.hpp>
#undef select_landmarks_random
#undef compute_distance_matrix
#undef compute_shortest_distances_matrix
#undef eigendecomposition_via
#undef triangulate

#ifdef C11_FULL_API
#include <tapkee/tapkee.hpp> // tapkee::embed with its dispatch over every method (slow to compile)
#else
// quick tier: only the four method classes C11 is about; the harness repeats the five lines of
// tapkee::embed / DynamicImplementation::embedUsing (check, merge defaults, ImplementationBase
// constructor, validate(), embed()) for them — see run_api below
#include <tapkee/methods/multidimensional_scaling.hpp>
#include <tapkee/methods/isomap.hpp>
#endif
#include <tapkee/callbacks/precomputed_callbacks.hpp>
#include <tapkee/callbacks/dummy_callbacks.hpp>
#undef random_device

using namespace tapkee;
using namespace tapkee::tapkee_internal;

static std::vector<long long> g_perm;
static bool g_perm_seen = false;

#ifdef TAPKEE_VERIF_SHUFFLE_HOOK
static void c11_observer(const std::size_t*, const long long* values, std::size_t n, void*)
{
    if (g_perm_seen)
        return; // only the first shuffle of a case
    g_perm.clear();
    if (values)
        g_perm.assign(values, values + n);
    g_perm_seen = values != nullptr;
}
#endif

static void seed_shuffle(long long seed, std::size_t n)
{
    g_perm_seen = false;
    g_perm.clear();
#ifdef TAPKEE_VERIF_SHUFFLE_HOOK
    tapkee::verif_shuffle().observer = c11_observer;
    if (seed >= 0)
        tapkee::verif_shuffle_reseed(static_cast<unsigned>(seed));
    else
        tapkee::verif_shuffle_unseed();
    (void)n;
#else
    g_c11_seed = seed;
    if (seed >= 0)
    {
        // replay of tapkee::random_shuffle as shipped: mt19937(device()) + std::shuffle
        g_perm.resize(n);
        std::iota(g_perm.begin(), g_perm.end(), 0LL);
        std::mt19937 urng(static_cast<unsigned int>(seed));
        std::shuffle(g_perm.begin(), g_perm.end(), urng);
        g_perm_seen = true;
    }
#endif
}

static void put(const char* tag, const DenseMatrix& m)
{
    std::printf("%s", tag);
    for (IndexType i = 0; i < m.rows(); ++i)
        for (IndexType j = 0; j < m.cols(); ++j)
            std::printf(" %a", m(i, j));
    std::printf("\n");
}
static void putv(const char* tag, const DenseVector& v)
{
    std::printf("%s", tag);
    for (IndexType i = 0; i < v.size(); ++i)
        std::printf(" %a", v(i));
    std::printf("\n");
}

struct Reader
{
    std::istringstream is;
    bool ok = true;
    explicit Reader(const std::string& s) : is(s) {}
    std::string word()
    {
        std::string w;
        if (!(is >> w))
            ok = false;
        return w;
    }
    long long integer()
    {
        std::string w = word();
        if (!ok)
            return 0;
        char* e = nullptr;
        long long v = std::strtoll(w.c_str(), &e, 10);
        if (e == w.c_str() || *e)
            ok = false;
        return v;
    }
    double real()
    {
        std::string w = word();
        if (!ok)
            return 0;
        char* e = nullptr;
        double v = std::strtod(w.c_str(), &e);
        if (e == w.c_str() || *e)
            ok = false;
        return v;
    }
    bool matrix(DenseMatrix& m, IndexType r, IndexType c)
    {
        m.resize(r, c);
        for (IndexType i = 0; i < r; ++i)
            for (IndexType j = 0; j < c; ++j)
                m(i, j) = real();
        return ok;
    }
};

template <class It, class K, class D, class F>
static TapkeeOutput run_api(const std::string& m, It begin, It end, K kernel, D distance, F features,
                            stichwort::ParametersSet parameters)
{
#ifdef C11_FULL_API
    (void)m;
    return tapkee::embed(begin, end, kernel, distance, features, parameters);
#else
    try
    {
        parameters.check();
        // embed.hpp since fix F27; written so that the harness also builds on a tree without it
        auto check_types = [](auto& ps) {
            if constexpr (requires { ps.checkTypes(tapkee_internal::defaults); })
                ps.checkTypes(tapkee_internal::defaults);
        };
        check_types(parameters);
        parameters.merge(tapkee_internal::defaults);
        void (*progress_function_ptr)(double) = parameters[progress_function];
        bool (*cancel_function_ptr)() = parameters[cancel_function];
        tapkee_internal::Context context(progress_function_ptr, cancel_function_ptr);
        ImplementationBase<It, K, D, F> self(begin, end, kernel, distance, features, parameters, context);
#define c11_method_handle(NAME, X)                                                                                     \
    if (m == NAME)                                                                                                     \
    {                                                                                                                  \
        auto implementation = X##Implementation<It, K, D, F>(self);                                                    \
        implementation.validate();                                                                                     \
        return implementation.embed();                                                                                 \
    }
        c11_method_handle("lmds", LandmarkMultidimensionalScaling);
        c11_method_handle("lisomap", LandmarkIsomap);
        c11_method_handle("mds", MultidimensionalScaling);
        c11_method_handle("isomap", Isomap);
#undef c11_method_handle
        return TapkeeOutput();
    }
    catch (const std::bad_alloc&) { throw tapkee::not_enough_memory_error("Not enough memory"); }
    catch (const stichwort::wrong_parameter_error& ex) { throw tapkee::wrong_parameter_error(ex.what()); }
    catch (const stichwort::wrong_parameter_type_error& ex) { throw tapkee::wrong_parameter_type_error(ex.what()); }
    catch (const stichwort::multiple_parameter_error& ex) { throw tapkee::multiple_parameter_error(ex.what()); }
    catch (const stichwort::missed_parameter_error& ex) { throw tapkee::missed_parameter_error(ex.what()); }
#endif
}

static const char* run_case(const std::string& line)
{
    Reader in(line);
    std::string mode = in.word();
    if (mode == "T")
    {
        IndexType N = in.integer(), L = in.integer(), d = in.integer();
        if (!in.ok || N <= 0 || L <= 0 || d <= 0 || N > 4096 || L > N || d > L)
            return "BADCASE";
        Landmarks landmarks(L);
        for (IndexType i = 0; i < L; ++i)
        {
            landmarks[i] = in.integer();
            if (landmarks[i] < 0 || landmarks[i] >= N)
                return "BADCASE";
        }
        DenseMatrix dist;
        if (!in.matrix(dist, N, N))
            return "BADCASE";
        std::vector<IndexType> data(N);
        std::iota(data.begin(), data.end(), 0);
        precomputed_distance_callback distance(dist);
        // --- the body of LandmarkMultidimensionalScalingImplementation::embed, landmark choice aside
        DenseSymmetricMatrix distance_matrix = compute_distance_matrix(data.begin(), data.end(), landmarks, distance);
        put("D2", distance_matrix);
        DenseVector landmark_distances_squared = distance_matrix.colwise().mean();
        putv("MU", landmark_distances_squared);
        centerMatrix(distance_matrix);
        distance_matrix.array() *= -0.5;
        put("B", distance_matrix);
        EigendecompositionResult landmarks_embedding =
            eigendecomposition(Dense, HomogeneousCPUStrategy, LargestEigenvalues, distance_matrix, d);
        putv("LAM", landmarks_embedding.second);
        put("V", landmarks_embedding.first);
        DenseVector s(d);
        for (IndexType i = 0; i < d; i++)
        {
            s(i) = sqrt(std::max<ScalarType>(landmarks_embedding.second(i), 0.0));
            landmarks_embedding.first.col(i).array() *= sqrt(std::max<ScalarType>(landmarks_embedding.second(i), 0.0));
        }
        putv("S", s);
        put("YL", landmarks_embedding.first);
        DenseMatrix emb = triangulate(data.begin(), data.end(), distance, landmarks, landmark_distances_squared,
                                      landmarks_embedding, d);
        put("EMB", emb);
        return nullptr;
    }
    if (mode == "R")
    {
        IndexType N = in.integer(), L = in.integer(), d = in.integer();
        if (!in.ok || N <= 0 || L <= 0 || d <= 0 || N > 4096 || L > N || d > L)
            return "BADCASE";
        Landmarks landmarks(L);
        for (IndexType i = 0; i < L; ++i)
        {
            landmarks[i] = in.integer();
            if (landmarks[i] < 0 || landmarks[i] >= N)
                return "BADCASE";
        }
        DenseMatrix dist, first;
        if (!in.matrix(dist, N, N))
            return "BADCASE";
        DenseVector mu(L), second(d);
        for (IndexType i = 0; i < L; ++i)
            mu(i) = in.real();
        if (!in.matrix(first, L, d))
            return "BADCASE";
        for (IndexType i = 0; i < d; ++i)
            second(i) = in.real();
        if (!in.ok)
            return "BADCASE";
        std::vector<IndexType> data(N);
        std::iota(data.begin(), data.end(), 0);
        precomputed_distance_callback distance(dist);
        EigendecompositionResult landmarks_embedding(first, second);
        DenseMatrix emb = triangulate(data.begin(), data.end(), distance, landmarks, mu, landmarks_embedding, d);
        put("EMB", emb);
        put("FD", landmarks_embedding.first);
        return nullptr;
    }
    if (mode == "I")
    {
        IndexType N = in.integer(), L = in.integer(), d = in.integer(), k = in.integer();
        if (!in.ok || N <= 0 || L <= 0 || d <= 0 || N > 4096 || L > N || d > L || k < 1 || k >= N)
            return "BADCASE";
        Landmarks landmarks(L);
        for (IndexType i = 0; i < L; ++i)
        {
            landmarks[i] = in.integer();
            if (landmarks[i] < 0 || landmarks[i] >= N)
                return "BADCASE";
        }
        DenseMatrix dist;
        if (!in.matrix(dist, N, N))
            return "BADCASE";
        std::vector<IndexType> data(N);
        std::iota(data.begin(), data.end(), 0);
        typedef std::vector<IndexType>::iterator It;
        precomputed_distance_callback distance(dist);
        PlainDistance<It, precomputed_distance_callback> plain_distance(distance);
        Neighbors neighbors = find_neighbors(Brute, data.begin(), data.end(), plain_distance, k, false);
        // --- the body of LandmarkIsomapImplementation::embed (Dense branch), landmark choice aside
        DenseMatrix distance_matrix =
            compute_shortest_distances_matrix(data.begin(), data.end(), landmarks, neighbors, distance);
        put("G", distance_matrix);
        distance_matrix = distance_matrix.array().square();
        DenseVector col_means = distance_matrix.colwise().mean();
        DenseVector row_means = distance_matrix.rowwise().mean();
        ScalarType grand_mean = distance_matrix.mean();
        distance_matrix.array() += grand_mean;
        distance_matrix.colwise() -= row_means;
        distance_matrix.rowwise() -= col_means.transpose();
        distance_matrix.array() *= -0.5;
        put("B", distance_matrix);
        DenseMatrix distance_matrix_sym = distance_matrix * distance_matrix.transpose();
        EigendecompositionResult landmarks_embedding =
            eigendecomposition(Dense, HomogeneousCPUStrategy, LargestEigenvalues, distance_matrix_sym, d);
        putv("LAM", landmarks_embedding.second);
        put("U", landmarks_embedding.first);
        DenseMatrix embedding = distance_matrix.transpose() * landmarks_embedding.first;
        DenseVector q(d);
        for (IndexType i = 0; i < d; i++)
        {
            q(i) = sqrt(sqrt(landmarks_embedding.second(i)));
            embedding.col(i).array() /= sqrt(sqrt(landmarks_embedding.second(i)));
        }
        putv("Q", q);
        put("EMB", embedding);
        return nullptr;
    }
    if (mode == "E" || mode == "M")
    {
        const bool recording = mode == "M";
        std::string m = in.word();
        // optional suffix ":randomized" selects eigen_method = Randomized (default Dense); its Gaussian test
        // matrix is drawn with std::rand(), seeded below so that a case replays
        bool randomized = false;
        if (m.size() > 11 && m.compare(m.size() - 11, 11, ":randomized") == 0)
        {
            randomized = true;
            m.erase(m.size() - 11);
        }
        if (recording && m != "lmds" && m != "lisomap")
            return "BADCASE";
        IndexType N = in.integer(), d = in.integer();
        double ratio = in.real();
        long long seed = in.integer();
        IndexType k = in.integer();
        if (!in.ok || N < 0 || N > 4096)
            return "BADCASE";
        DenseMatrix dist;
        if (!in.matrix(dist, N, N))
            return "BADCASE";
        std::vector<IndexType> data(N);
        std::iota(data.begin(), data.end(), 0);
        precomputed_distance_callback distance(dist);
        dummy_kernel_callback<IndexType> kernel;
        dummy_features_callback<IndexType> features;
        DimensionReductionMethod meth = m == "lmds"      ? LandmarkMultidimensionalScaling
                                        : m == "lisomap" ? LandmarkIsomap
                                        : m == "mds"     ? MultidimensionalScaling
                                                         : Isomap;
        seed_shuffle(seed, N);
        std::srand(seed >= 0 ? static_cast<unsigned>(seed) : 1u);
        struct rec_guard
        {
            explicit rec_guard(bool on) { c11rec::rec().reset(), c11rec::rec().on = on; }
            ~rec_guard() { c11rec::rec().on = false; }
        } guard(recording);
        TapkeeOutput out = run_api(m, data.begin(), data.end(), kernel, distance, features,
                                   (method = meth, target_dimension = d, landmark_ratio = ratio,
                                    num_neighbors = k, eigen_method = (randomized ? Randomized : Dense),
                                    check_connectivity = false,
                                    neighbors_method = Brute)); // k-nn search itself is property C02; Brute keeps
                                                                // non-metric integer tables meaningful
        if ((m == "lmds" || m == "lisomap") && g_perm_seen)
        {
            std::printf("PERM");
            for (long long p : g_perm)
                std::printf(" %lld", p);
            std::printf("\n");
        }
        else
            std::printf("PERM -\n");
        if (recording)
        {
            const c11rec::rec_t& r = c11rec::rec();
            // how often embed() called each routine (1 1 0 1 1 for lmds, 1 0 1 1 0 for lisomap)
            std::printf("CALLS %d %d %d %d %d\n", r.n_lm, r.n_d2, r.n_geo, (int)r.eig.size(), r.n_tri);
            std::printf("LM");
            for (IndexType x : r.lm)
                std::printf(" %d", (int)x);
            std::printf("\n");
            if (m == "lmds")
            {
                put("D2", r.d2);
                putv("MU", r.mu);
                if (!r.handed.empty())
                    put("B", r.handed[0]);
                if (!r.eig.empty())
                {
                    putv("LAM", r.eig[0].second);
                    put("V", r.eig[0].first);
                }
                putv("TLAM", r.tri_lam);
                put("YL", r.yl);
                put("TRI", r.tri);
            }
            else
            {
                put("G", r.geo);
                if (!r.handed.empty())
                    put("BBT", r.handed[0]);
                if (!r.eig.empty())
                {
                    putv("LAM", r.eig[0].second);
                    put("U", r.eig[0].first);
                }
            }
        }
        std::printf("DIM %d %d\n", (int)out.embedding.rows(), (int)out.embedding.cols());
        put("EMB", out.embedding);
        return nullptr;
    }
    if (mode == "S")
    {
        IndexType N = in.integer();
        double ratio = in.real();
        IndexType reps = in.integer();
        long long seed = in.integer();
        if (!in.ok || N < 0 || N > 100000 || reps < 0)
            return "BADCASE";
        std::vector<IndexType> data(N);
        std::iota(data.begin(), data.end(), 0);
        for (IndexType r = 0; r < reps; ++r)
        {
            seed_shuffle(seed < 0 ? -1 : seed + r, N);
            Landmarks lm = select_landmarks_random(data.begin(), data.end(), ratio);
            if (g_perm_seen)
            {
                std::printf("PERM");
                for (long long p : g_perm)
                    std::printf(" %lld", p);
                std::printf("\n");
            }
            else
                std::printf("PERM -\n");
            std::printf("LM");
            for (IndexType x : lm)
                std::printf(" %d", (int)x);
            std::printf("\n");
        }
        return nullptr;
    }
    return "BADCASE";
}

int main()
{
    tapkee::Logging::instance().disable_warning();
    tapkee::Logging::instance().disable_error();
    std::string line;
    long long idx = 0;
    while (std::getline(std::cin, line))
    {
        if (line.empty())
            continue;
        std::printf("C %lld\n", idx++);
        std::fflush(stdout);
        const char* bad = nullptr;
        try
        {
            bad = run_case(line);
        }
        catch (const tapkee::wrong_parameter_error&) { std::printf("EXC wrong_parameter\n"); }
        catch (const tapkee::wrong_parameter_type_error&) { std::printf("EXC wrong_parameter_type\n"); }
        catch (const tapkee::missed_parameter_error&) { std::printf("EXC missed_parameter\n"); }
        catch (const tapkee::multiple_parameter_error&) { std::printf("EXC multiple_parameter\n"); }
        catch (const tapkee::unsupported_method_error&) { std::printf("EXC unsupported_method\n"); }
        catch (const tapkee::no_data_error&) { std::printf("EXC no_data\n"); }
        catch (const tapkee::eigendecomposition_error&) { std::printf("EXC eigendecomposition\n"); }
        catch (const tapkee::not_enough_memory_error&) { std::printf("EXC not_enough_memory\n"); }
        catch (const std::exception& e) { std::printf("EXC other %s\n", e.what()); }
        if (bad)
            std::printf("%s\n", bad);
        std::printf("END\n");
        std::fflush(stdout);
    }
    return 0;
}
