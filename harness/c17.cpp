// C17 harness: drives the (private) member functions of tsne::TSNE and tsne::VpTree directly and
// the public API for whole runs.  One case per input line:  <CMD> <id> <args...>   (numbers: anything
// strtod accepts, hex floats included).  For every case a marker line "C <id>" is printed and flushed
// BEFORE the call (a crash / hang belongs to it), then one result line "R <id> ..." (doubles as %a).
//
//   DD  id N D  X[N*D]                     computeSquaredEuclideanDistance          -> DD[N*N]
//   ZM  id N D  X[N*D]                     zeroMean                                 -> X[N*D]
//   PD  id N D perp X[N*D]                 computeGaussianPerplexity (dense)        -> P[N*N] (rows conditional)
//   PK  id N D perp K X[N*D]               computeGaussianPerplexity (K-NN, VP-tree)-> row_P[N+1] | col_P | val_P
//   SY  id N nnz row_P[N+1] col_P[nnz] val_P[nnz]   symmetrizeMatrix                -> row_P[N+1] | col_P | val_P
//   GE  id N D  P[N*N] Y[N*D]              computeExactGradient                     -> dC[N*D]
//   GB  id N theta nnz row_P col_P val_P Y[N*2]     computeGradient (Barnes-Hut)    -> dC[N*2]
//   GS  id N theta nnz row_P col_P val_P Y[N*2]     the same quantity from the PUBLIC QuadTree interface, one point
//                                                   after the other in this (serial) driver: QuadTree(Y, N),
//                                                   computeEdgeForces, computeNonEdgeForces(n) for n = 0..N-1 with one
//                                                   running sum_Q, pos_f - neg_f / sum_Q                -> dC[N*2]
//   every command may carry a thread count:  CMD@T  runs the call with omp_set_num_threads(T) (dynamic adjustment
//   off); without it the OpenMP default of the process applies.  The library code of this slice has no parallel
//   region: results must not depend on T.
//   EE  id N D  P[N*N] Y[N*D]              evaluateError (dense)                    -> C
//   VP  id N D k X[N*D]                    tsne::VpTree create + search of every sample for k results
//                                          -> T <preorder dump: ( item thr L R ) / - for NULL> | per query: idx:dist ...
//   API id N D d perp theta seed X[N*D]    tapkee::embed(tDistributedStochasticNeighborEmbedding)
//                                          -> OK rows cols Y[rows*cols] | <last logged iteration> <its KL error>
//                                             or EXC name / UNDOC what
#include <cmath>
#include <csignal>
#include <cstdio>
#include <cstdlib>
#include <cstring>
#include <iostream>
#include <sstream>
#include <string>
#include <omp.h>
#include <unistd.h>
#include <vector>

#include <algorithm>
#include <limits>
#include <map>
#include <queue>

#include <tapkee/defines.hpp>
#include <tapkee/utils/logging.hpp>
#include <tapkee/utils/time.hpp>
// everything the three barnes_hut_sne headers include is in by now: only their own text sees the macro
#define private public
#define protected public
#include <tapkee/external/barnes_hut_sne/tsne.hpp>
#undef private
#undef protected
// the public path without the other 19 methods (tapkee.hpp costs 3 minutes of compile time under the
// sanitizers): what embed() does (embed.hpp: check, checkTypes, merge defaults, ImplementationBase,
// validate(), embed()) with the t-SNE implementation class of methods/tsne.hpp
#include <tapkee/callbacks/eigen_callbacks.hpp>
#include <tapkee/exceptions.hpp>
#include <tapkee/methods/tsne.hpp>

using tapkee::ScalarType;

static volatile long g_id = -1;
static void on_alarm(int)
{
    char buf[64];
    int n = snprintf(buf, sizeof buf, "\nT %ld\n", (long)g_id);
    if (write(1, buf, n) < 0)
    {
    }
    _exit(7);
}

struct Toks
{
    std::istringstream ss;
    bool ok = true;
    explicit Toks(const std::string& s) : ss(s)
    {
    }
    double d()
    {
        std::string t;
        if (!(ss >> t))
        {
            ok = false;
            return 0;
        }
        return strtod(t.c_str(), nullptr);
    }
    long l()
    {
        std::string t;
        if (!(ss >> t))
        {
            ok = false;
            return 0;
        }
        return atol(t.c_str());
    }
    std::string s()
    {
        std::string t;
        if (!(ss >> t))
            ok = false;
        return t;
    }
};

static void pd(double x)
{
    printf(" %a", x);
}

// captures "Iteration <i>: error is <C>" (message_info of TSNE::run): the KL divergence the library itself
// reports for its internal P and the current map
struct CaptureLogger : public tapkee::LoggerImplementation
{
    std::string last_error_line;
    virtual void message_info(const std::string& msg)
    {
        if (msg.rfind("Iteration ", 0) == 0)
            last_error_line = msg;
    }
    virtual void message_warning(const std::string&)
    {
    }
    virtual void message_debug(const std::string&)
    {
    }
    virtual void message_error(const std::string&)
    {
    }
    virtual void message_benchmark(const std::string&)
    {
    }
};
static CaptureLogger* g_logger = nullptr;

typedef tsne::VpTree<tsne::DataPoint, tsne::euclidean_distance> Vp;

static void dump_node(Vp& t, Vp::Node* n)
{
    if (!n)
    {
        printf(" -");
        return;
    }
    printf(" ( %d %a", t._items[n->index].index(), n->threshold);
    dump_node(t, n->left);
    dump_node(t, n->right);
    printf(" )");
}

// evaluateError(P, Y, N, D) after F12, evaluateError(P, Y, N) before
template <class T>
static double call_eval(T& t, double* P, double* Y, int N, int D)
{
    if constexpr (requires { t.evaluateError(P, Y, N, D); })
        return t.evaluateError(P, Y, N, D);
    else
        return t.evaluateError(P, Y, N);
}

int main()
{
    signal(SIGALRM, on_alarm);
    setvbuf(stdout, nullptr, _IOFBF, 1 << 16);
    std::string line;
    const int default_threads = omp_get_max_threads();
    omp_set_dynamic(0);
    while (std::getline(std::cin, line))
    {
        if (line.empty())
            continue;
        Toks tk(line);
        std::string cmd = tk.s();
        long id = tk.l();
        {
            int T = 0;
            size_t at = cmd.find('@');
            if (at != std::string::npos)
            {
                T = atoi(cmd.c_str() + at + 1);
                cmd = cmd.substr(0, at);
            }
            omp_set_num_threads(T > 0 && T <= 256 ? T : default_threads);
        }
        {
            // the VP-tree build draws its pivots from rand(): seed it from the case's own arguments, so that the same
            // arguments give the same run wherever the line stands in the input (and under whatever thread count)
            std::streamoff at = tk.ss.tellg();
            unsigned h = 2166136261u;
            for (size_t i = at > 0 ? (size_t)at : 0; i < line.size(); i++)
                h = (h ^ (unsigned char)line[i]) * 16777619u;
            srand(h);
        }
        g_id = id;
        printf("C %ld\n", id);
        fflush(stdout);
        // every non-API call on a small case takes milliseconds; the large thread-count cases (lines of 0.1 .. 1 MB) get
        // a few seconds per 64 kB of input on top (a loaded machine, 16 threads under the sanitizers)
        alarm(cmd == "API" ? 120 : 15 + (unsigned)(line.size() >> 16) * 4);
        tsne::TSNE T;
        if (cmd == "DD" || cmd == "ZM")
        {
            int N = tk.l(), D = tk.l();
            if (!tk.ok || N < 0 || D < 0 || (long)N * D > 1000000)
            {
                printf("R %ld BADCASE\n", id);
                continue;
            }
            std::vector<double> X((size_t)N * D + 1);
            for (long i = 0; i < (long)N * D; i++)
                X[i] = tk.d();
            if (cmd == "DD")
            {
                std::vector<double> DD((size_t)N * N + 1, 0.0);
                T.computeSquaredEuclideanDistance(X.data(), N, D, DD.data());
                printf("R %ld", id);
                for (long i = 0; i < (long)N * N; i++)
                    pd(DD[i]);
                printf("\n");
            }
            else
            {
                T.zeroMean(X.data(), N, D);
                printf("R %ld", id);
                for (long i = 0; i < (long)N * D; i++)
                    pd(X[i]);
                printf("\n");
            }
        }
        else if (cmd == "PD")
        {
            int N = tk.l(), D = tk.l();
            double perp = tk.d();
            std::vector<double> X((size_t)N * D + 1);
            for (long i = 0; i < (long)N * D; i++)
                X[i] = tk.d();
            std::vector<double> P((size_t)N * N + 1, 0.0);
            T.computeGaussianPerplexity(X.data(), N, D, P.data(), perp);
            printf("R %ld", id);
            for (long i = 0; i < (long)N * N; i++)
                pd(P[i]);
            printf("\n");
        }
        else if (cmd == "PK")
        {
            int N = tk.l(), D = tk.l();
            double perp = tk.d();
            int K = tk.l();
            std::vector<double> X((size_t)N * D + 1);
            for (long i = 0; i < (long)N * D; i++)
                X[i] = tk.d();
            int *row_P = nullptr, *col_P = nullptr;
            double* val_P = nullptr;
            T.computeGaussianPerplexity(X.data(), N, D, &row_P, &col_P, &val_P, perp, K);
            printf("R %ld", id);
            for (int i = 0; i <= N; i++)
                printf(" %d", row_P[i]);
            printf(" |");
            for (int i = 0; i < N * K; i++)
                printf(" %d", col_P[i]);
            printf(" |");
            for (int i = 0; i < N * K; i++)
                pd(val_P[i]);
            printf("\n");
            free(row_P);
            free(col_P);
            free(val_P);
        }
        else if (cmd == "SY")
        {
            int N = tk.l(), nnz = tk.l();
            if (!tk.ok || N < 0 || nnz < 0 || nnz > 10000000)
            {
                printf("R %ld BADCASE\n", id);
                continue;
            }
            int* row_P = (int*)malloc((N + 1) * sizeof(int));
            int* col_P = (int*)malloc((nnz + 1) * sizeof(int));
            double* val_P = (double*)malloc((nnz + 1) * sizeof(double));
            for (int i = 0; i <= N; i++)
                row_P[i] = tk.l();
            for (int i = 0; i < nnz; i++)
                col_P[i] = tk.l();
            for (int i = 0; i < nnz; i++)
                val_P[i] = tk.d();
            T.symmetrizeMatrix(&row_P, &col_P, &val_P, N);
            printf("R %ld", id);
            for (int i = 0; i <= N; i++)
                printf(" %d", row_P[i]);
            int ne = row_P[N];
            printf(" |");
            for (int i = 0; i < ne; i++)
                printf(" %d", col_P[i]);
            printf(" |");
            for (int i = 0; i < ne; i++)
                pd(val_P[i]);
            printf("\n");
            free(row_P);
            free(col_P);
            free(val_P);
        }
        else if (cmd == "GE" || cmd == "EE")
        {
            int N = tk.l(), D = tk.l();
            std::vector<double> P((size_t)N * N), Y((size_t)N * D), dC((size_t)N * D + 1, 0.0);
            for (long i = 0; i < (long)N * N; i++)
                P[i] = tk.d();
            for (long i = 0; i < (long)N * D; i++)
                Y[i] = tk.d();
            if (cmd == "GE")
            {
                T.computeExactGradient(P.data(), Y.data(), N, D, dC.data());
                printf("R %ld", id);
                for (long i = 0; i < (long)N * D; i++)
                    pd(dC[i]);
                printf("\n");
            }
            else
            {
                double C = call_eval(T, P.data(), Y.data(), N, D);
                printf("R %ld %a\n", id, C);
            }
        }
        else if (cmd == "GB" || cmd == "GS")
        {
            int N = tk.l();
            double theta = tk.d();
            int nnz = tk.l();
            if (!tk.ok || N < 0 || nnz < 0 || N > 1000000 || nnz > 10000000)
            {
                printf("R %ld BADCASE\n", id);
                continue;
            }
            std::vector<int> row_P(N + 1), col_P(nnz + 1);
            std::vector<double> val_P(nnz + 1), Y((size_t)N * 2), dC((size_t)N * 2 + 1, 0.0);
            for (int i = 0; i <= N; i++)
                row_P[i] = tk.l();
            for (int i = 0; i < nnz; i++)
                col_P[i] = tk.l();
            for (int i = 0; i < nnz; i++)
                val_P[i] = tk.d();
            for (int i = 0; i < N * 2; i++)
                Y[i] = tk.d();
            if (cmd == "GB")
                T.computeGradient(nullptr, row_P.data(), col_P.data(), val_P.data(), Y.data(), N, 2, dC.data(), theta);
            else
            {
                // point by point through the public interface of the quadtree (no OpenMP in this driver)
                std::vector<double> neg((size_t)N * 2 + 1, 0.0);
                double sum_Q = 0.0;
                {
                    tsne::QuadTree tree(Y.data(), N);
                    tree.computeEdgeForces(row_P.data(), col_P.data(), val_P.data(), N, dC.data());
                    for (int n = 0; n < N; n++)
                        tree.computeNonEdgeForces(n, theta, neg.data() + (size_t)n * 2, &sum_Q);
                }
                for (int i = 0; i < N * 2; i++)
                    dC[i] = dC[i] - (neg[i] / sum_Q);
            }
            printf("R %ld", id);
            for (int i = 0; i < N * 2; i++)
                pd(dC[i]);
            printf("\n");
        }
        else if (cmd == "VP")
        {
            int N = tk.l(), D = tk.l(), k = tk.l();
            std::vector<double> X((size_t)N * D + 1);
            for (long i = 0; i < (long)N * D; i++)
                X[i] = tk.d();
            Vp tree;
            std::vector<tsne::DataPoint> obj(N, tsne::DataPoint(D, -1, X.data()));
            for (int n = 0; n < N; n++)
                obj[n] = tsne::DataPoint(D, n, X.data() + (size_t)n * D);
            tree.create(obj);
            printf("R %ld T", id);
            dump_node(tree, tree._root);
            std::vector<tsne::DataPoint> res;
            std::vector<double> dist;
            for (int n = 0; n < N; n++)
            {
                res.clear();
                dist.clear();
                tree.search(obj[n], k, &res, &dist);
                printf(" |");
                for (size_t j = 0; j < res.size(); j++)
                    printf(" %d:%a", res[j].index(), dist[j]);
            }
            printf("\n");
        }
        else if (cmd == "API")
        {
            using namespace tapkee;
            int N = tk.l(), D = tk.l(), d = tk.l();
            double perp = tk.d(), theta = tk.d();
            unsigned seed = (unsigned)tk.l();
            DenseMatrix X(D, N);
            for (int i = 0; i < N; i++)
                for (int j = 0; j < D; j++)
                    X(j, i) = tk.d();
            srand(seed);
            if (!g_logger)
            {
                g_logger = new CaptureLogger();
                Logging::instance().set_logger_impl(g_logger); // Logging owns it from now on
                Logging::instance().enable_info();
            }
            g_logger->last_error_line.clear();
            std::vector<IndexType> idx(N);
            for (int i = 0; i < N; i++)
                idx[i] = i;
            eigen_kernel_callback kcb(X);
            eigen_distance_callback dcb(X);
            eigen_features_callback fcb(X);
            ParametersSet ps;
            ps.add(method = tDistributedStochasticNeighborEmbedding);
            ps.add(target_dimension = (IndexType)d);
            ps.add(sne_perplexity = perp);
            ps.add(sne_theta = theta);
            try
            {
                typedef std::vector<IndexType>::iterator It;
                ps.check();
                ps.checkTypes(tapkee_internal::defaults);
                ps.merge(tapkee_internal::defaults);
                void (*progress_function_ptr)(double) = ps[progress_function];
                bool (*cancel_function_ptr)() = ps[cancel_function];
                tapkee_internal::Context context(progress_function_ptr, cancel_function_ptr);
                tapkee_internal::ImplementationBase<It, eigen_kernel_callback, eigen_distance_callback,
                                                    eigen_features_callback>
                    base(idx.begin(), idx.end(), kcb, dcb, fcb, ps, context);
                tapkee_internal::tDistributedStochasticNeighborEmbeddingImplementation<
                    It, eigen_kernel_callback, eigen_distance_callback, eigen_features_callback>
                    impl(base);
                impl.validate();
                TapkeeOutput out = impl.embed();
                const DenseMatrix& E = out.embedding;
                printf("R %ld OK %ld %ld", id, (long)E.rows(), (long)E.cols());
                for (Eigen::Index i = 0; i < E.rows(); i++)
                    for (Eigen::Index j = 0; j < E.cols(); j++)
                        pd(E(i, j));
                // "Iteration 999: error is C" -> " | 999 C"
                {
                    int it = -1;
                    double C = 0;
                    const std::string& m = g_logger->last_error_line;
                    size_t p1 = m.find(": error is ");
                    if (p1 != std::string::npos)
                    {
                        it = atoi(m.c_str() + 10);
                        C = strtod(m.c_str() + p1 + 11, nullptr);
                    }
                    printf(" | %d %a", it, C);
                }
                printf("\n");
            }
            catch (const tapkee::wrong_parameter_error&)
            {
                printf("R %ld EXC wrong_parameter_error\n", id);
            }
            catch (const stichwort::wrong_parameter_error&)
            {
                printf("R %ld EXC wrong_parameter_error\n", id);
            }
            catch (const stichwort::wrong_parameter_type_error&)
            {
                printf("R %ld EXC wrong_parameter_type_error\n", id);
            }
            catch (const stichwort::missed_parameter_error&)
            {
                printf("R %ld EXC missed_parameter_error\n", id);
            }
            catch (const tapkee::wrong_parameter_type_error&)
            {
                printf("R %ld EXC wrong_parameter_type_error\n", id);
            }
            catch (const tapkee::missed_parameter_error&)
            {
                printf("R %ld EXC missed_parameter_error\n", id);
            }
            catch (const std::exception& e)
            {
                printf("R %ld UNDOC %s\n", id, e.what());
            }
        }
        else
        {
            printf("R %ld BADCASE\n", id);
        }
        alarm(0);
        fflush(stdout);
    }
    return 0;
}
