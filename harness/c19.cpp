// c19.cpp — drives SPE, Random Projection and Factor Analysis of the real library through the
// PUBLIC API (tapkee::embed) on cases read from stdin and logs every random decision:
//   * tapkee::random_shuffle  — hook H1 (fixes/H1_random_shuffle_hook.patch): seeded by the case, the
//     observer records the applied position permutation and the shuffled `indices` array;
//   * tapkee::uniform_random / gaussian_random — CUSTOM_*_RANDOM_FUNCTION point to logging generators
//     owned by this file (default build); with -DC19_PLAIN the shipped std::rand based functions stay
//     in place and only the RPM command (moments of gaussian_projection_matrix) is compiled;
//   * the distance callback logs (i, j) of every call, which exposes the pairs SPE updates in each
//     iteration (the calls between two consecutive shuffles).
// Nothing of the library is copied here.  Exact numbers are printed as C99 hex floats.
//
// stdin (tokens separated by white space; numbers in any strtod syntax):
//   every data block is a POOL of samples plus the RANGE handed to embed():
//       P  r_0 .. r_{N-1}  name_0 .. name_{P-1}  + P*D numbers (pool column major)
//     name_p is the external sample id of pool column p (distinct ints), r_i the external id at position i of
//     the [begin,end) range given to the library (sub-range, permuted, offset / sparse ids, repeated ids);
//     the callbacks receive external ids and look the pool column up (an id that is not in the pool throws).
//     "Designated sample i" = pool column of r_i: Y0, R, NB, PROJ below are all per POSITION in the range,
//     the P lines carry the external ids the distance callback was called with.
//   SPE id N D d global k nupd maxiter tol srand shseed useed umode nbm log flags   + pool block
//       flags: bits 1 2 4 8 16 32 = leave max_iteration / spe_num_updates / spe_tolerance / spe_global_strategy /
//              num_neighbors / neighbors_method UNSET (the library default applies); 64 = call embed() from thread 0 of
//              an application's own `#pragma omp parallel num_threads(3)` region; 128 = with nested parallelism enabled
//       maxiter 0 = SPE's automatic schedule (2000 + floor(0.04 N N) iterations, three times as many for the local strategy)
//       umode 0: u = 20-bit dyadic from mt19937_64(useed); 1: u = 1 - 2^-20; 2: u = 0; 3: u = m/8 from mt19937_64(useed)
//       nbm 0 Brute, 1 VpTree, 2 CoverTree ; log 0 none, 1 shuffled values + pairs, 2 + from, u, Y0, R
//   RP  id N D d gseed gmode flags  + pool block  gmode 0: g = small dyadic from mt19937_64(gseed), 1: N(0,1); flags 64 / 128 as SPE
//   FA  id N D d maxiter eps srand flags + pool block    flags: 1 = max_iteration unset, 2 = fa_epsilon unset, 64 / 128 as SPE
//   RPM id D d srand reps        moments of gaussian_projection_matrix (meaningful with -DC19_PLAIN)
//   RPP id D d srand             (-DC19_PLAIN) the std::rand answers gaussian_projection_matrix(D, d) consumes
//                                (re-drawn after the same srand) and the matrix itself: replay of the polar method
//   RPS id D d srand             the matrix gaussian_projection_matrix(D, d) returns after srand(s), twice in a row (M, M2): the
//                                two calls of a translation pair under one seed (meaningful with -DC19_PLAIN)
//   RPF id D d n r_1 .. r_n      (-DC19_PLAIN) std::rand is FORCED to answer r_1, r_2, ..., r_n, r_1, ... (the harness defines
//                                rand(); glibc's is reached through dlsym): gaussian_projection_matrix(D, d) on an adversarial
//                                stream (radius exactly 0, exactly 1, extreme answers); prints the matrix and the number of answers used
//   URN id n r_1 .. r_n          (-DC19_PLAIN) tapkee::uniform_random() on the forced answers: prints the n results
//   CPULIMIT s                   RLIMIT_CPU for this process (a hang is detected by CPU time, not by wall clock)
// stdout: "C id" (flushed before the case runs), result lines, "END id".
#include <sys/resource.h>
#include <omp.h>

#include <algorithm>
#include <cmath>
#include <cstdio>
#include <cstdlib>
#include <cstring>
#include <iostream>
#include <random>
#include <sstream>
#include <stdexcept>
#include <string>
#include <unordered_map>
#include <vector>

#ifdef C19_PLAIN
// std::rand under control of the harness (plain build only): forced answers when g_force is set, glibc's rand otherwise
#include <dlfcn.h>
static std::vector<int> g_forced;
static size_t g_forced_pos = 0;
static bool g_force = false;
extern "C" int rand(void) noexcept
{
    static int (*real_rand)(void) = reinterpret_cast<int (*)(void)>(dlsym(RTLD_NEXT, "rand"));
    if (g_force && !g_forced.empty())
        return g_forced[g_forced_pos++ % g_forced.size()];
    return real_rand();
}
#endif

static double c19_uniform();
static double c19_gaussian();
#ifndef C19_PLAIN
#define CUSTOM_UNIFORM_RANDOM_FUNCTION c19_uniform()
#define CUSTOM_GAUSSIAN_RANDOM_FUNCTION c19_gaussian()
#endif

// Only the three anchored methods are instantiated (tapkee.hpp instantiates all twenty and takes three
// times as long to compile): embed_with<Impl>() does what tapkee::embed + DynamicImplementation::embedUsing
// do for one method - check/merge the parameters, construct ImplementationBase (its target_dimension range
// check included), then Impl::validate() and Impl::embed() of methods/<method>.hpp.
#include <tapkee/defines.hpp>
#include <tapkee/utils/time.hpp>
#include <tapkee/routines/random_projection.hpp>
#ifndef C19_PLAIN
#include <tapkee/parameters/context.hpp>
#include <tapkee/parameters/defaults.hpp>
#include <tapkee/methods/base.hpp>
#include <tapkee/utils/matrix.hpp>
#include <tapkee/routines/pca.hpp>
#include <tapkee/methods/random_projection.hpp>
#include <tapkee/methods/stochastic_proximity_embedding.hpp>
#include <tapkee/methods/factor_analysis.hpp>
#endif

using namespace tapkee;

#ifndef C19_PLAIN
template <template <class, class, class, class> class Impl, class It, class K, class Dc, class Fc>
static TapkeeOutput embed_with(It b, It e, K k, Dc d, Fc f, stichwort::ParametersSet parameters)
{
    parameters.check();
    parameters.checkTypes(tapkee_internal::defaults);
    parameters.merge(tapkee_internal::defaults);
    tapkee_internal::Context context(nullptr, nullptr);
    tapkee_internal::ImplementationBase<It, K, Dc, Fc> base(b, e, k, d, f, parameters, context);
    Impl<It, K, Dc, Fc> implementation(base);
    implementation.validate();
    return implementation.embed();
}

// run `call` either directly or from thread 0 of the application's own parallel region (flags 64 / 128)
template <class Call> static void run_maybe_in_parallel_region(int flags, Call call)
{
    if (!(flags & 64))
    {
        call();
        return;
    }
    std::exception_ptr ep;
    const int levels = omp_get_max_active_levels();
    omp_set_max_active_levels((flags & 128) ? 3 : 1);
#pragma omp parallel num_threads(3)
    {
        if (omp_get_thread_num() == 0)
        {
            try
            {
                call();
            }
            catch (...)
            {
                ep = std::current_exception();
            }
        }
    }
    omp_set_max_active_levels(levels);
    if (ep)
        std::rethrow_exception(ep);
}

// ------------------------------------------------------------------------------------------ log
struct Iter
{
    std::vector<long long> values; // `indices` right after the shuffle
    std::vector<size_t> from;      // applied position permutation
    std::vector<double> us;        // uniform_random() answers consumed in this iteration
    std::vector<int> pairs;        // distance(i, j) calls in this iteration, flattened
};
static std::vector<Iter> g_iters;
static std::vector<double> g_pre_us;
static long long g_pre_dist = 0;
static std::vector<int> g_pre_pairs; // distance(i, j) calls before the first shuffle (neighbour search, max-distance loop)
static std::vector<double> g_gauss;
static bool g_logging = false;
static int g_umode = 0, g_gmode = 0;
static std::mt19937_64 g_ugen, g_ggen;

static void shuffle_observer(const std::size_t* from, const long long* values, std::size_t n, void*)
{
    g_iters.emplace_back();
    Iter& it = g_iters.back();
    it.from.assign(from, from + n);
    if (values)
        it.values.assign(values, values + n);
}

static double c19_uniform()
{
    double u;
    if (g_umode == 1)
        u = 1.0 - std::ldexp(1.0, -20);
    else if (g_umode == 2)
        u = 0.0;
    else if (g_umode == 3)
        u = (double)((g_ugen() >> 44) & 7) / 8.0; // multiples of 1/8: u*k is an integer for k = 4, 8 (floor boundaries)
    else
        u = std::ldexp((double)(g_ugen() >> 44), -20);
    if (g_logging)
    {
        if (g_iters.empty())
            g_pre_us.push_back(u);
        else
            g_iters.back().us.push_back(u);
    }
    return u;
}

static double c19_gaussian()
{
    double g;
    if (g_gmode == 1)
    {
        std::normal_distribution<double> nd(0.0, 1.0);
        g = nd(g_ggen);
    }
    else
        g = ((double)(long long)(g_ggen() >> 58) - 32.0) / 8.0; // dyadic in [-4, 4)
    if (g_logging)
        g_gauss.push_back(g);
    return g;
}

// the data set: pool columns with external names; the library only ever sees external ids
struct Pool
{
    DenseMatrix X;            // D x P
    std::vector<int> names;   // external id of pool column p
    std::vector<int> range;   // external ids handed to embed(), in order
    std::unordered_map<int, int> col;
    int col_of(int id) const
    {
        auto it = col.find(id);
        if (it == col.end())
            throw std::out_of_range("C19 callback asked for sample id " + std::to_string(id) + " which is not in the data set");
        return it->second;
    }
    DenseMatrix designated() const
    {
        DenseMatrix S(X.rows(), (int)range.size());
        for (size_t i = 0; i < range.size(); ++i)
            S.col(i) = X.col(col_of(range[i]));
        return S;
    }
};

struct log_distance
{
    const Pool* pool;
    ScalarType distance(int a, int b) const
    {
        // a library that evaluates distances from several threads must not corrupt the log (the callback itself is pure)
#pragma omp critical(c19_log)
        if (g_logging)
        {
            if (g_iters.empty())
            {
                ++g_pre_dist;
                g_pre_pairs.push_back(a);
                g_pre_pairs.push_back(b);
            }
            else
            {
                g_iters.back().pairs.push_back(a);
                g_iters.back().pairs.push_back(b);
            }
        }
        return (pool->X.col(pool->col_of(a)) - pool->X.col(pool->col_of(b))).norm();
    }
};
struct plain_kernel
{
    const Pool* pool;
    ScalarType kernel(int a, int b) const
    {
        return pool->X.col(pool->col_of(a)).dot(pool->X.col(pool->col_of(b)));
    }
};
struct plain_features
{
    const Pool* pool;
    IndexType dimension() const
    {
        return static_cast<IndexType>(pool->X.rows());
    }
    void vector(int i, DenseVector& v) const
    {
        v = pool->X.col(pool->col_of(i));
    }
};

// ------------------------------------------------------------------------------------------ io
static bool read_pool(std::istream& in, int N, int D, Pool& pool)
{
    int P;
    if (!(in >> P) || P < 0 || P > 100000)
        return false;
    pool.range.resize(N);
    pool.names.resize(P);
    for (int i = 0; i < N; ++i)
        if (!(in >> pool.range[i]))
            return false;
    pool.col.clear();
    for (int p = 0; p < P; ++p)
    {
        if (!(in >> pool.names[p]))
            return false;
        pool.col[pool.names[p]] = p;
    }
    if ((int)pool.col.size() != P)
        return false;
    pool.X.resize(D, P);
    std::string tok;
    for (int n = 0; n < P; ++n)
        for (int c = 0; c < D; ++c)
        {
            if (!(in >> tok))
                return false;
            pool.X(c, n) = std::strtod(tok.c_str(), nullptr);
        }
    for (int i = 0; i < N; ++i)
        if (!pool.col.count(pool.range[i]))
            return false;
    return true;
}

static void print_hex(const char* tag, const double* p, size_t n)
{
    std::fputs(tag, stdout);
    for (size_t i = 0; i < n; ++i)
        std::printf(" %a", p[i]);
    std::fputc('\n', stdout);
}

static void print_rows(const char* tag, const DenseMatrix& M)
{
    // row-major flat: M(0,0) M(0,1) ... ; preceded by the shape
    std::printf("%s %d %d", tag, (int)M.rows(), (int)M.cols());
    for (int r = 0; r < M.rows(); ++r)
        for (int c = 0; c < M.cols(); ++c)
            std::printf(" %a", M(r, c));
    std::fputc('\n', stdout);
}

static NeighborsMethod nb_method(int nbm)
{
    if (nbm == 1)
        return VpTree;
#ifdef TAPKEE_USE_LGPL_COVERTREE
    if (nbm == 2)
        return CoverTree;
#endif
    return Brute;
}

// ------------------------------------------------------------------------------------------ SPE
static void run_spe(std::istream& in, const std::string& id)
{
    int N, D, d, global, k, nupd, maxiter, nbm, log, umode, flags;
    unsigned srand_seed, shseed;
    unsigned long long useed;
    std::string tol_s;
    in >> N >> D >> d >> global >> k >> nupd >> maxiter >> tol_s >> srand_seed >> shseed >> useed >> umode >> nbm >> log >> flags;
    double tol = std::strtod(tol_s.c_str(), nullptr);
    Pool pool;
    if (!in || N < 0 || D < 0 || N > 100000 || D > 10000 || !read_pool(in, N, D, pool))
    {
        std::printf("BADINPUT\nEND %s\n", id.c_str());
        return;
    }
    std::vector<int> data(pool.range);   // the [begin,end) range handed to the library: external sample ids
    const DenseMatrix X = pool.designated(); // column i = the sample designated by position i of the range
    log_distance dcb{&pool};
    plain_kernel kcb{&pool};
    plain_features fcb{&pool};

    g_iters.clear();
    g_pre_us.clear();
    g_pre_dist = 0;
    g_pre_pairs.clear();
    g_umode = umode;
    g_ugen.seed(useed);

    // what the library will see: the initial configuration drawn with Eigen's std::rand based Random
    // (the same expression as routines/spe.hpp uses; validated through the coordinate replay), and,
    // in the plain build, the std::rand answers uniform_random() is going to get afterwards
    std::srand(srand_seed);
    DenseMatrix Y0;
    if (d >= 1 && N >= 1 && d <= 64)
        Y0 = (DenseMatrix::Random(d, N) + DenseMatrix::Ones(d, N)) / 2;
    // neighbours as the method is going to compute them (same public routine, same arguments)
    tapkee_internal::Neighbors nbs;
    if (!global)
    {
        try
        {
            g_logging = false;
            tapkee_internal::PlainDistance<std::vector<int>::iterator, log_distance> pd(dcb);
            if (k >= 3 && k < N)
                nbs = tapkee_internal::find_neighbors((flags & 32) ? default_neighbors_method : nb_method(nbm), data.begin(),
                                                      data.end(), pd, k, true);
        }
        catch (const std::exception& e)
        {
            std::printf("NBEXC %s\n", e.what());
        }
    }

    std::srand(srand_seed);
    // the VP-tree draws its vantage points with tapkee::uniform_random(): restart the logged uniform stream
    // so that the method's own neighbour search sees the answers the search above saw (same tree, same ties)
    g_ugen.seed(useed);
    verif_shuffle().observer = shuffle_observer;
    verif_shuffle().user = nullptr;
    verif_shuffle_reseed(shseed);
    g_logging = true;
    TapkeeOutput out;
    bool ok = false;
    try
    {
        stichwort::ParametersSet ps;
        ps.add((method = StochasticProximityEmbedding));
        ps.add((target_dimension = d));
        if (!(flags & 1))
            ps.add((max_iteration = maxiter));
        if (!(flags & 2))
            ps.add((spe_num_updates = nupd));
        if (!(flags & 4))
            ps.add((spe_tolerance = tol));
        if (!(flags & 8))
            ps.add((spe_global_strategy = (global != 0)));
        if (!(flags & 16))
            ps.add((num_neighbors = k));
        if (!(flags & 32))
            ps.add((neighbors_method = nb_method(nbm)));
        run_maybe_in_parallel_region(flags, [&]() {
            out = embed_with<tapkee_internal::StochasticProximityEmbeddingImplementation>(data.begin(), data.end(), kcb, dcb,
                                                                                          fcb, ps);
        });
        ok = true;
    }
    catch (const std::exception& e)
    {
        std::string w = e.what();
        std::replace(w.begin(), w.end(), '\n', ' ');
        std::printf("EXC %s\n", w.c_str());
    }
    g_logging = false;
    verif_shuffle().observer = nullptr;
    verif_shuffle_unseed();
    if (ok)
    {
        std::printf("OK %d %d T %d PRE %lld\n", (int)out.embedding.rows(), (int)out.embedding.cols(),
                    (int)g_iters.size(), g_pre_dist);
        if (!global)
        {
            for (size_t i = 0; i < nbs.size(); ++i)
            {
                std::printf("NB %d", (int)i);
                for (size_t j = 0; j < nbs[i].size(); ++j)
                    std::printf(" %d", (int)nbs[i][j]);
                std::fputc('\n', stdout);
            }
        }
        if (log >= 2)
        {
            print_rows("Y0", DenseMatrix(Y0.transpose()));
            DenseMatrix R(N, N);
            for (int i = 0; i < N; ++i)
                for (int j = 0; j < N; ++j)
                    R(i, j) = (X.col(i) - X.col(j)).norm();
            print_rows("R", R);
            // the last N(N-1)/2 calls before the first shuffle: the max-distance loop of spe_embedding
            const size_t want = (size_t)N * (size_t)(N > 0 ? N - 1 : 0);
            const size_t from = g_pre_pairs.size() > want ? g_pre_pairs.size() - want : 0;
            std::printf("MAXL");
            for (size_t i = from; i < g_pre_pairs.size(); ++i)
                std::printf(" %d", g_pre_pairs[i]);
            std::fputc('\n', stdout);
        }
        if (log >= 1)
        {
            for (size_t t = 0; t < g_iters.size(); ++t)
            {
                const Iter& it = g_iters[t];
                std::printf("S %d", (int)t);
                for (long long v : it.values)
                    std::printf(" %lld", v);
                std::fputc('\n', stdout);
                std::printf("P %d", (int)t);
                for (int v : it.pairs)
                    std::printf(" %d", v);
                std::fputc('\n', stdout);
                if (log >= 2)
                {
                    std::printf("F %d", (int)t);
                    for (size_t v : it.from)
                        std::printf(" %zu", v);
                    std::fputc('\n', stdout);
                    std::printf("U %d", (int)t);
                    for (double v : it.us)
                        std::printf(" %a", v);
                    std::fputc('\n', stdout);
                }
            }
        }
        print_rows("Y", out.embedding);
    }
    std::printf("END %s\n", id.c_str());
}

// ------------------------------------------------------------------------------------------ RP
static void run_rp(std::istream& in, const std::string& id)
{
    int N, D, d, gmode, flags;
    unsigned long long gseed;
    in >> N >> D >> d >> gseed >> gmode >> flags;
    Pool pool;
    if (!in || N < 0 || D < 0 || N > 100000 || D > 10000 || !read_pool(in, N, D, pool))
    {
        std::printf("BADINPUT\nEND %s\n", id.c_str());
        return;
    }
    std::vector<int> data(pool.range);   // the [begin,end) range handed to the library: external sample ids
    const DenseMatrix X = pool.designated(); // column i = the sample designated by position i of the range
    log_distance dcb{&pool};
    plain_kernel kcb{&pool};
    plain_features fcb{&pool};
    g_gauss.clear();
    g_gmode = gmode;
    g_ggen.seed(gseed);
    std::srand((unsigned)gseed);
    g_logging = true;
    try
    {
        TapkeeOutput out;
        run_maybe_in_parallel_region(flags, [&]() {
            out = embed_with<tapkee_internal::RandomProjectionImplementation>(
                data.begin(), data.end(), kcb, dcb, fcb, (method = RandomProjection, target_dimension = d));
        });
        g_logging = false;
        std::printf("OK %d %d\n", (int)out.embedding.rows(), (int)out.embedding.cols());
        print_hex("G", g_gauss.data(), g_gauss.size());
        print_rows("Y", out.embedding);
        // the returned projecting function must reproduce the embedding (cheap sanity, C07 owns it)
        DenseVector v(D);
        double worst = 0;
        for (int n = 0; n < N; ++n)
        {
            v = X.col(n);
            DenseVector p = out.projection(v);
            for (int c = 0; c < p.size() && c < out.embedding.cols(); ++c)
                worst = std::max(worst, std::fabs(p[c] - out.embedding(n, c)));
        }
        std::printf("PROJ %a\n", worst);
    }
    catch (const std::exception& e)
    {
        g_logging = false;
        std::string w = e.what();
        std::replace(w.begin(), w.end(), '\n', ' ');
        std::printf("EXC %s\n", w.c_str());
    }
    std::printf("END %s\n", id.c_str());
}

// ------------------------------------------------------------------------------------------ FA
static void run_fa(std::istream& in, const std::string& id)
{
    int N, D, d, maxiter, flags;
    unsigned srand_seed;
    std::string eps_s;
    in >> N >> D >> d >> maxiter >> eps_s >> srand_seed >> flags;
    double eps = std::strtod(eps_s.c_str(), nullptr);
    Pool pool;
    if (!in || N < 0 || D < 0 || N > 100000 || D > 10000 || !read_pool(in, N, D, pool))
    {
        std::printf("BADINPUT\nEND %s\n", id.c_str());
        return;
    }
    std::vector<int> data(pool.range);   // the [begin,end) range handed to the library: external sample ids
    const DenseMatrix X = pool.designated(); // column i = the sample designated by position i of the range
    log_distance dcb{&pool};
    plain_kernel kcb{&pool};
    plain_features fcb{&pool};
    std::srand(srand_seed);
    DenseMatrix A0;
    if (D >= 1 && d >= 1 && D <= 4096 && d <= 4096)
        A0 = DenseMatrix::Random(D, d).cwiseAbs();
    std::srand(srand_seed);
    try
    {
        stichwort::ParametersSet ps;
        ps.add((method = FactorAnalysis));
        ps.add((target_dimension = d));
        if (!(flags & 1))
            ps.add((max_iteration = maxiter));
        if (!(flags & 2))
            ps.add((fa_epsilon = eps));
        TapkeeOutput out;
        run_maybe_in_parallel_region(flags, [&]() {
            out = embed_with<tapkee_internal::FactorAnalysisImplementation>(data.begin(), data.end(), kcb, dcb, fcb, ps);
        });
        std::printf("OK %d %d\n", (int)out.embedding.rows(), (int)out.embedding.cols());
        print_rows("A0", A0);
        print_rows("Y", out.embedding);
    }
    catch (const std::exception& e)
    {
        std::string w = e.what();
        std::replace(w.begin(), w.end(), '\n', ' ');
        std::printf("EXC %s\n", w.c_str());
    }
    std::printf("END %s\n", id.c_str());
}

#endif // C19_PLAIN

// ------------------------------------------------------------------------------------------ RPM
static void run_rpm(std::istream& in, const std::string& id)
{
    int D, d, reps;
    unsigned srand_seed;
    in >> D >> d >> srand_seed >> reps;
    if (!in || D < 1 || d < 1 || D > 4096 || d > 4096 || reps < 1 || reps > 100000)
    {
        std::printf("BADINPUT\nEND %s\n", id.c_str());
        return;
    }
    std::srand(srand_seed);
#ifndef C19_PLAIN
    g_gmode = 1;
    g_ggen.seed(srand_seed);
    g_logging = false;
#endif
    // raw moments of sqrt(D) * entry, and the lag-1 / cross-position products
    long double m1 = 0, m2 = 0, m3 = 0, m4 = 0, lag = 0;
    long long n = 0, nlag = 0;
    const double s = std::sqrt((double)D);
    for (int r = 0; r < reps; ++r)
    {
        DenseMatrix P = tapkee_internal::gaussian_projection_matrix(D, d);
        if (P.rows() != D || P.cols() != d)
        {
            std::printf("SHAPE %d %d\n", (int)P.rows(), (int)P.cols());
            break;
        }
        double prev = 0;
        bool have = false;
        for (int i = 0; i < D; ++i)
            for (int j = 0; j < d; ++j)
            {
                double g = P(i, j) * s;
                m1 += g;
                m2 += g * g;
                m3 += g * g * g;
                m4 += g * g * g * g;
                ++n;
                if (have)
                {
                    lag += g * prev;
                    ++nlag;
                }
                prev = g;
                have = true;
            }
    }
    std::printf("MOM %lld %.17g %.17g %.17g %.17g %.17g\n", n, (double)(m1 / n), (double)(m2 / n), (double)(m3 / n),
                (double)(m4 / n), (double)(nlag ? lag / nlag : 0));
    std::printf("END %s\n", id.c_str());
}

// ------------------------------------------------------------------------------------------ RPP
// Replay material for the shipped polar method: the std::rand answers (re-drawn after the same srand) that
// gaussian_projection_matrix(D, d) consumed, the matrix, and the std::rand answer that follows the call.
static void run_rpp(std::istream& in, const std::string& id)
{
    int D, d;
    unsigned srand_seed;
    in >> D >> d >> srand_seed;
    if (!in || D < 1 || d < 1 || D > 64 || d > 64)
    {
        std::printf("BADINPUT\nEND %s\n", id.c_str());
        return;
    }
    std::srand(srand_seed);
    DenseMatrix P = tapkee_internal::gaussian_projection_matrix(D, d);
    int next = std::rand();
    std::srand(srand_seed);
    const int len = 8 * D * d + 64;
    std::printf("RANDMAX %lld\nRAND", (long long)RAND_MAX);
    for (int i = 0; i < len; ++i)
        std::printf(" %d", std::rand());
    std::printf("\nNEXT %d\n", next);
    std::printf("M %d %d", (int)P.rows(), (int)P.cols());
    for (int r = 0; r < P.rows(); ++r)
        for (int c = 0; c < P.cols(); ++c)
            std::printf(" %a", P(r, c));
    std::printf("\nEND %s\n", id.c_str());
}

// ------------------------------------------------------------------------------------------ RPS
// Two library calls under the same std::rand seed (what a translation pair X, X + t does): the matrix of each.
static void run_rps(std::istream& in, const std::string& id)
{
    int D, d;
    unsigned srand_seed;
    in >> D >> d >> srand_seed;
    if (!in || D < 1 || d < 1 || D > 64 || d > 64)
    {
        std::printf("BADINPUT\nEND %s\n", id.c_str());
        return;
    }
    for (int call = 0; call < 2; ++call)
    {
        std::srand(srand_seed);
        DenseMatrix P = tapkee_internal::gaussian_projection_matrix(D, d);
        std::printf(call == 0 ? "M %d %d" : "M2 %d %d", (int)P.rows(), (int)P.cols());
        for (int r = 0; r < P.rows(); ++r)
            for (int c = 0; c < P.cols(); ++c)
                std::printf(" %a", P(r, c));
        std::printf("\n");
    }
    std::printf("END %s\n", id.c_str());
}

#ifdef C19_PLAIN
static bool read_forced(std::istream& in)
{
    int n;
    if (!(in >> n) || n < 1 || n > 100000)
        return false;
    g_forced.resize(n);
    for (int i = 0; i < n; ++i)
        if (!(in >> g_forced[i]) || g_forced[i] < 0)
            return false;
    g_forced_pos = 0;
    return true;
}

static void run_rpf(std::istream& in, const std::string& id)
{
    int D, d;
    in >> D >> d;
    if (!in || D < 1 || d < 1 || D > 64 || d > 64 || !read_forced(in))
    {
        std::printf("BADINPUT\nEND %s\n", id.c_str());
        return;
    }
    g_force = true;
    DenseMatrix P = tapkee_internal::gaussian_projection_matrix(D, d);
    g_force = false;
    std::printf("RANDMAX %lld\nUSEDRAND %zu\n", (long long)RAND_MAX, g_forced_pos);
    std::printf("M %d %d", (int)P.rows(), (int)P.cols());
    for (int r = 0; r < P.rows(); ++r)
        for (int c = 0; c < P.cols(); ++c)
            std::printf(" %a", P(r, c));
    std::printf("\nEND %s\n", id.c_str());
}

static void run_urn(std::istream& in, const std::string& id)
{
    if (!read_forced(in))
    {
        std::printf("BADINPUT\nEND %s\n", id.c_str());
        return;
    }
    g_force = true;
    std::vector<double> us;
    for (size_t i = 0; i < g_forced.size(); ++i)
        us.push_back(tapkee::uniform_random());
    g_force = false;
    std::printf("RANDMAX %lld\nUSEDRAND %zu\nUS", (long long)RAND_MAX, g_forced_pos);
    for (double u : us)
        std::printf(" %a", u);
    std::printf("\nEND %s\n", id.c_str());
}
#endif

int main()
{
    std::ios::sync_with_stdio(true);
    std::string cmd, id;
    while (std::cin >> cmd)
    {
        if (!(std::cin >> id))
            break;
        if (cmd == "CPULIMIT")
        {
            // hang detection that does not depend on the load of the machine: SIGXCPU ends the process after `id` seconds of CPU
            struct rlimit rl;
            rl.rlim_cur = (rlim_t)std::atol(id.c_str());
            rl.rlim_max = rl.rlim_cur + 5;
            setrlimit(RLIMIT_CPU, &rl);
            continue;
        }
        std::printf("C %s\n", id.c_str());
        std::fflush(stdout);
#ifndef C19_PLAIN
        if (cmd == "SPE")
            run_spe(std::cin, id);
        else if (cmd == "RP")
            run_rp(std::cin, id);
        else if (cmd == "FA")
            run_fa(std::cin, id);
        else
#endif
        if (cmd == "RPM")
            run_rpm(std::cin, id);
        else if (cmd == "RPP")
            run_rpp(std::cin, id);
        else if (cmd == "RPS")
            run_rps(std::cin, id);
#ifdef C19_PLAIN
        else if (cmd == "RPF")
            run_rpf(std::cin, id);
        else if (cmd == "URN")
            run_urn(std::cin, id);
#endif
        else
        {
            std::printf("BADCMD\nEND %s\n", id.c_str());
            break;
        }
        std::fflush(stdout);
    }
    return 0;
}
