// c09.cpp — routine-level harness for property C09 (compute_laplacian / compute_diffusion_matrix).
//
// One case per stdin line, whitespace separated; doubles are C hex floats (strtod reads them).
//   LAP  id mode n width  <n lists: len id id ...>  <n*n distances, row major>  [<m> <m*(arg val)>]
//        -> calls tapkee_internal::compute_laplacian directly with these neighbour lists
//   DM   id mode n width  <n*n distances>  [<m> <m*(arg val)>]
//        -> calls tapkee_internal::compute_diffusion_matrix directly
//   (the two METHOD classes are driven end to end through the public API by harness/c09_api.cpp)
//   mode (the exp VALUE ORACLE seen by the two routines; DESIGN 1.1 / 6-C09 "table of exp values
//   shared by both sides"): 0 = libm exp; 1 = libm exp rounded to a multiple of 2^-12 (>= 2^-12),
//   so that every sum the routines form is exact in binary64; 2 = the table given on the case line
//   (exact argument match; a miss returns NaN and is reported as "@MISS"; the table may hold exact
//   zeros, denormals and values spread over 45 binades: "underflowed" and wide-dynamic-range weights);
//   3 = as 1 but WITHOUT the floor at 2^-12: far pairs get the weight exactly 0.0, near ones do not.
//   The oracle is interposed WITHOUT touching the library: the routines call `exp(...)` unqualified
//   from namespace tapkee::tapkee_internal, so a function of that name declared there before the
//   headers are included is the one they bind to.  Every call is logged ("@X count arg val ...").
//   If the library stops going through the oracle (e.g. calls std::exp) the log is empty and the
//   check falls back to the tolerance comparison for that case.
// stdout: every line the check reads starts with '@'.  "@C id" is flushed before a case is
// run (so that an abort can be attributed), "@END id" after it.  Matrices are printed row major
// as hex floats.  The heat table "@H" is what the PROPERTY names, exp(-(d*d)/width), evaluated
// by the harness through the same oracle: it is the value-oracle table handed to the Coq model.
#include <cmath>
#include <mutex>
#include <vector>
#include <utility>
#include <limits>
namespace c09_oracle
{
static int mode = 0;
static bool logging = false;
static bool missed = false;
static std::mutex mtx;
static std::vector<std::pair<double, double>> calls;
static std::vector<std::pair<double, double>> table;
inline double value(double x)
{
    if (mode == 1 || mode == 3)
    {
        double r = std::ldexp(std::nearbyint(std::ldexp(std::exp(x), 12)), -12);
        if (mode == 3) return r;   // no floor: arguments below about -9 give exactly 0.0 (an UNDERFLOWED weight)
        return r < std::ldexp(1.0, -12) ? std::ldexp(1.0, -12) : r;
    }
    if (mode == 2)
    {
        for (size_t i = 0; i < table.size(); i++)
            if (table[i].first == x) return table[i].second;
        missed = true;
        return std::numeric_limits<double>::quiet_NaN();
    }
    return std::exp(x);
}
inline double oracle_exp(double x)
{
    double v = value(x);
    if (logging)
    {
        std::lock_guard<std::mutex> g(mtx);
        if (calls.size() < 100000) calls.push_back(std::make_pair(x, v));
    }
    return v;
}
} // namespace c09_oracle
namespace tapkee
{
namespace tapkee_internal
{
inline double exp(double x)
{
    return c09_oracle::oracle_exp(x);
}
} // namespace tapkee_internal
} // namespace tapkee
#include <cstdio>
#include <cstdlib>
#include <iostream>
#include <sstream>
#include <string>
#include <vector>
#include <algorithm>
#include <tapkee/defines.hpp>
#include <tapkee/routines/laplacian_eigenmaps.hpp>
#include <tapkee/routines/diffusion_maps.hpp>

using namespace tapkee;

struct matrix_distance_callback
{
    const DenseMatrix* dm;
    ScalarType distance(IndexType a, IndexType b) const
    {
        return (*dm)(a, b);
    }
};

static void print_mat(const char* tag, const DenseMatrix& m)
{
    printf("@%s %d %d", tag, (int)m.rows(), (int)m.cols());
    for (int i = 0; i < m.rows(); i++)
        for (int j = 0; j < m.cols(); j++)
            printf(" %a", (double)m(i, j));
    printf("\n");
}

static bool read_mat(std::istringstream& is, int n, DenseMatrix& m)
{
    m.resize(n, n);
    std::string tok;
    for (int i = 0; i < n; i++)
        for (int j = 0; j < n; j++)
        {
            if (!(is >> tok)) return false;
            m(i, j) = strtod(tok.c_str(), NULL);
        }
    return true;
}

static DenseMatrix heat_table(const DenseMatrix& dist, double width)
{
    const int n = dist.rows();
    DenseMatrix h(n, n);
    for (int i = 0; i < n; i++)
        for (int j = 0; j < n; j++)
            h(i, j) = c09_oracle::value(-(dist(i, j) * dist(i, j)) / width);
    return h;
}


static void print_calls()
{
    printf("@X %d", (int)c09_oracle::calls.size());
    for (size_t i = 0; i < c09_oracle::calls.size(); i++)
        printf(" %a %a", c09_oracle::calls[i].first, c09_oracle::calls[i].second);
    printf("\n");
    if (c09_oracle::missed) printf("@MISS\n");
}

static bool read_table(std::istringstream& is)
{
    c09_oracle::table.clear();
    if (c09_oracle::mode != 2) return true;
    int m;
    if (!(is >> m) || m < 0 || m > 100000) return false;
    std::string a, v;
    for (int i = 0; i < m; i++)
    {
        if (!(is >> a >> v)) return false;
        c09_oracle::table.push_back(std::make_pair(strtod(a.c_str(), NULL), strtod(v.c_str(), NULL)));
    }
    return true;
}

struct oracle_scope
{
    oracle_scope(int m)
    {
        c09_oracle::mode = m;
        c09_oracle::calls.clear();
        c09_oracle::missed = false;
    }
    ~oracle_scope()
    {
        c09_oracle::mode = 0;
        c09_oracle::logging = false;
        c09_oracle::table.clear();
    }
};

static void run_lap(std::istringstream& is)
{
    int n, md; std::string wtok;
    is >> md >> n >> wtok;
    if (!is || n < 0 || n > 4096 || md < 0 || md > 3) { printf("@BADINPUT\n"); return; }
    oracle_scope scope(md);
    double width = strtod(wtok.c_str(), NULL);
    tapkee_internal::Neighbors neighbors;
    for (int i = 0; i < n; i++)
    {
        int len; is >> len;
        tapkee_internal::LocalNeighbors ln;
        for (int t = 0; t < len; t++) { int v; is >> v; ln.push_back(v); }
        neighbors.push_back(ln);
    }
    DenseMatrix dist;
    if (!read_mat(is, n, dist) || !read_table(is)) { printf("@BADINPUT\n"); return; }
    std::vector<IndexType> idx(n);
    for (int i = 0; i < n; i++) idx[i] = i;
    matrix_distance_callback cb{&dist};
    c09_oracle::logging = true;
    tapkee_internal::Laplacian lap =
        tapkee_internal::compute_laplacian(idx.begin(), idx.end(), neighbors, cb, width);
    c09_oracle::logging = false;
    DenseMatrix L = DenseMatrix(lap.first);
    DenseMatrix D = lap.second.diagonal().transpose();
    print_mat("L", L);
    print_mat("D", D);
    print_calls();
    print_mat("H", heat_table(dist, width));
}

static void run_dm(std::istringstream& is)
{
    int n, md; std::string wtok;
    is >> md >> n >> wtok;
    if (!is || n < 0 || n > 4096 || md < 0 || md > 3) { printf("@BADINPUT\n"); return; }
    oracle_scope scope(md);
    double width = strtod(wtok.c_str(), NULL);
    DenseMatrix dist;
    if (!read_mat(is, n, dist) || !read_table(is)) { printf("@BADINPUT\n"); return; }
    std::vector<IndexType> idx(n);
    for (int i = 0; i < n; i++) idx[i] = i;
    matrix_distance_callback cb{&dist};
    c09_oracle::logging = true;
    DenseMatrix M = tapkee_internal::compute_diffusion_matrix(idx.begin(), idx.end(), cb, width);
    c09_oracle::logging = false;
    print_mat("M", M);
    print_calls();
    print_mat("H", heat_table(dist, width));
}

int main()
{
    std::string line;
    while (std::getline(std::cin, line))
    {
        if (line.empty()) continue;
        std::istringstream is(line);
        std::string cmd, id;
        is >> cmd >> id;
        printf("@C %s\n", id.c_str());
        fflush(stdout);
        try
        {
            if (cmd == "LAP") run_lap(is);
            else if (cmd == "DM") run_dm(is);
            else printf("@BADCMD\n");
        }
        catch (const std::exception& e)
        {
            printf("@EXC %s\n", e.what());
        }
        printf("@END %s\n", id.c_str());
        fflush(stdout);
    }
    return 0;
}
