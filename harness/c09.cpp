// c09.cpp — harness for property C09 (Laplacian Eigenmaps / Diffusion Map).
//
// One case per stdin line, whitespace separated; doubles are C hex floats (strtod reads them).
//   LAP  id n width  <n lists: len id id ...>  <n*n distances, row major>
//        -> calls tapkee_internal::compute_laplacian directly with these neighbour lists
//   DM   id n width  <n*n distances>
//        -> calls tapkee_internal::compute_diffusion_matrix directly
//   LE   id n k d width emethod  <n*n distances>
//        -> tapkee::embed(method=LaplacianEigenmaps, Brute neighbours, check_connectivity=false)
//           + an INDEPENDENT dense reference (own k-NN, own L and D, Eigen generalized solver)
//   DMAP id n d t width emethod seed  <n*n distances>
//        -> tapkee::embed(method=DiffusionMap) + an INDEPENDENT dense reference
//           (own K, p, q, M; Eigen self-adjoint solver)
//   emethod: 0 = Dense, 1 = Randomized
// stdout: every line the check reads starts with '@'.  "@C id" is flushed before a case is
// run (so that an abort can be attributed), "@END id" after it.  Matrices are printed row major
// as hex floats.  The heat table "@H" is what the PROPERTY names, exp(-(d*d)/width), evaluated
// by the harness with the same libm: it is the value-oracle table handed to the Coq model.
#include <cmath>
#include <cstdio>
#include <cstdlib>
#include <iostream>
#include <sstream>
#include <string>
#include <vector>
#include <algorithm>
#include <tapkee/tapkee.hpp>
#include <tapkee/routines/laplacian_eigenmaps.hpp>
#include <tapkee/routines/diffusion_maps.hpp>

using namespace tapkee;

struct matrix_distance_callback
{
    const DenseMatrix* dm;
    ScalarType distance(IndexType a, IndexType b) const
    {
        return (*dm)(a, b);
    }
};

static void print_mat(const char* tag, const DenseMatrix& m)
{
    printf("@%s %d %d", tag, (int)m.rows(), (int)m.cols());
    for (int i = 0; i < m.rows(); i++)
        for (int j = 0; j < m.cols(); j++)
            printf(" %a", (double)m(i, j));
    printf("\n");
}

static bool read_mat(std::istringstream& is, int n, DenseMatrix& m)
{
    m.resize(n, n);
    std::string tok;
    for (int i = 0; i < n; i++)
        for (int j = 0; j < n; j++)
        {
            if (!(is >> tok)) return false;
            m(i, j) = strtod(tok.c_str(), NULL);
        }
    return true;
}

static DenseMatrix heat_table(const DenseMatrix& dist, double width)
{
    const int n = dist.rows();
    DenseMatrix h(n, n);
    for (int i = 0; i < n; i++)
        for (int j = 0; j < n; j++)
            h(i, j) = std::exp(-(dist(i, j) * dist(i, j)) / width);
    return h;
}

// ---------------------------------------------------------------- independent references
static std::vector<std::vector<int>> own_knn(const DenseMatrix& dist, int k)
{
    const int n = dist.rows();
    std::vector<std::vector<int>> nb(n);
    for (int i = 0; i < n; i++)
    {
        std::vector<std::pair<double, int>> c;
        for (int j = 0; j < n; j++)
            if (j != i) c.push_back(std::make_pair((double)dist(i, j), j));
        std::sort(c.begin(), c.end());
        for (int t = 0; t < k && t < (int)c.size(); t++) nb[i].push_back(c[t].second);
    }
    return nb;
}

static bool undirected_connected(const std::vector<std::vector<int>>& nb)
{
    const int n = nb.size();
    std::vector<std::vector<int>> adj(n);
    for (int i = 0; i < n; i++)
        for (int j : nb[i]) { adj[i].push_back(j); adj[j].push_back(i); }
    std::vector<int> seen(n, 0), stack(1, 0);
    seen[0] = 1;
    int cnt = 1;
    while (!stack.empty())
    {
        int u = stack.back(); stack.pop_back();
        for (int v : adj[u]) if (!seen[v]) { seen[v] = 1; cnt++; stack.push_back(v); }
    }
    return cnt == n;
}

static void run_lap(std::istringstream& is)
{
    int n; std::string wtok;
    is >> n >> wtok;
    double width = strtod(wtok.c_str(), NULL);
    tapkee_internal::Neighbors neighbors;
    for (int i = 0; i < n; i++)
    {
        int len; is >> len;
        tapkee_internal::LocalNeighbors ln;
        for (int t = 0; t < len; t++) { int v; is >> v; ln.push_back(v); }
        neighbors.push_back(ln);
    }
    DenseMatrix dist;
    if (!read_mat(is, n, dist)) { printf("@BADINPUT\n"); return; }
    std::vector<IndexType> idx(n);
    for (int i = 0; i < n; i++) idx[i] = i;
    matrix_distance_callback cb{&dist};
    tapkee_internal::Laplacian lap =
        tapkee_internal::compute_laplacian(idx.begin(), idx.end(), neighbors, cb, width);
    DenseMatrix L = DenseMatrix(lap.first);
    DenseMatrix D = lap.second.diagonal().transpose();
    print_mat("L", L);
    print_mat("D", D);
    print_mat("H", heat_table(dist, width));
}

static void run_dm(std::istringstream& is)
{
    int n; std::string wtok;
    is >> n >> wtok;
    double width = strtod(wtok.c_str(), NULL);
    DenseMatrix dist;
    if (!read_mat(is, n, dist)) { printf("@BADINPUT\n"); return; }
    std::vector<IndexType> idx(n);
    for (int i = 0; i < n; i++) idx[i] = i;
    matrix_distance_callback cb{&dist};
    DenseMatrix M = tapkee_internal::compute_diffusion_matrix(idx.begin(), idx.end(), cb, width);
    print_mat("M", M);
    print_mat("H", heat_table(dist, width));
}

static void run_le(std::istringstream& is)
{
    int n, k, d, em; std::string wtok;
    is >> n >> k >> d >> wtok >> em;
    double width = strtod(wtok.c_str(), NULL);
    DenseMatrix dist;
    if (!read_mat(is, n, dist)) { printf("@BADINPUT\n"); return; }
    std::vector<IndexType> idx(n);
    for (int i = 0; i < n; i++) idx[i] = i;
    matrix_distance_callback cb{&dist};
    // independent reference first (so that it is available even if the library aborts later)
    std::vector<std::vector<int>> nb = own_knn(dist, k);
    printf("@NB");
    for (int i = 0; i < n; i++)
    {
        printf(" %d", (int)nb[i].size());
        for (int j : nb[i]) printf(" %d", j);
    }
    printf("\n@CONN %d\n", undirected_connected(nb) ? 1 : 0);
    DenseMatrix A = DenseMatrix::Zero(n, n);
    for (int i = 0; i < n; i++)
        for (int j : nb[i]) A(i, j) = std::exp(-(dist(i, j) * dist(i, j)) / width);
    DenseMatrix W = A + A.transpose();
    DenseMatrix deg = W.rowwise().sum();
    DenseMatrix Lref = -W;
    for (int i = 0; i < n; i++) Lref(i, i) += deg(i, 0);
    DenseMatrix Dref = DenseMatrix::Zero(n, n);
    for (int i = 0; i < n; i++) Dref(i, i) = deg(i, 0);
    print_mat("LREF", Lref);
    print_mat("DREF", DenseMatrix(deg.transpose()));
    print_mat("H", heat_table(dist, width));
    bool posdef = true;
    for (int i = 0; i < n; i++) if (!(deg(i, 0) > 0)) posdef = false;
    if (posdef)
    {
        Eigen::GeneralizedSelfAdjointEigenSolver<DenseMatrix> ref(Lref, Dref);
        if (ref.info() == Eigen::Success)
            print_mat("LAMREF", DenseMatrix(ref.eigenvalues().transpose()));
        else
            printf("@REFFAIL\n");
    }
    else
        printf("@REFFAIL\n");
    fflush(stdout);
    try
    {
        TapkeeOutput out = tapkee::initialize()
            .withParameters((method = LaplacianEigenmaps, num_neighbors = k, target_dimension = d,
                             gaussian_kernel_width = width, eigen_method = (em == 0 ? Dense : Randomized),
                             neighbors_method = Brute, check_connectivity = false))
            .withDistance(cb)
            .embedUsing(idx);
        print_mat("Y", out.embedding);
    }
    catch (const std::exception& e)
    {
        printf("@EXC %s\n", e.what());
    }
}

static void run_dmap(std::istringstream& is)
{
    int n, d, t, em; unsigned seed; std::string wtok;
    is >> n >> d >> t >> wtok >> em >> seed;
    double width = strtod(wtok.c_str(), NULL);
    DenseMatrix dist;
    if (!read_mat(is, n, dist)) { printf("@BADINPUT\n"); return; }
    std::vector<IndexType> idx(n);
    for (int i = 0; i < n; i++) idx[i] = i;
    matrix_distance_callback cb{&dist};
    // independent dense reference: K, p = K 1, K' = K / (p p^T), q = K' 1, M = K' / sqrt(q q^T)
    DenseMatrix K(n, n);
    for (int i = 0; i < n; i++)
        for (int j = 0; j < n; j++)
            K(i, j) = std::exp(-(dist(i, j) * dist(i, j)) / width);
    DenseVector p = K.rowwise().sum();
    DenseMatrix K1 = (p.cwiseInverse().asDiagonal() * K * p.cwiseInverse().asDiagonal());
    DenseVector q = K1.rowwise().sum();
    DenseVector s = q.cwiseSqrt().cwiseInverse();
    DenseMatrix M = s.asDiagonal() * K1 * s.asDiagonal();
    M = ((M + M.transpose()) / 2).eval();
    print_mat("MREF", M);
    Eigen::SelfAdjointEigenSolver<DenseMatrix> ref(M);
    if (ref.info() == Eigen::Success)
    {
        print_mat("EVAL", DenseMatrix(ref.eigenvalues().transpose()));
        print_mat("EVEC", DenseMatrix(ref.eigenvectors()));
    }
    else
        printf("@REFFAIL\n");
    fflush(stdout);
    std::srand(seed);
    try
    {
        TapkeeOutput out = tapkee::initialize()
            .withParameters((method = DiffusionMap, target_dimension = d, diffusion_map_timesteps = t,
                             gaussian_kernel_width = width, eigen_method = (em == 0 ? Dense : Randomized)))
            .withDistance(cb)
            .embedUsing(idx);
        print_mat("Y", out.embedding);
    }
    catch (const std::exception& e)
    {
        printf("@EXC %s\n", e.what());
    }
}

int main()
{
    std::string line;
    while (std::getline(std::cin, line))
    {
        if (line.empty()) continue;
        std::istringstream is(line);
        std::string cmd, id;
        is >> cmd >> id;
        printf("@C %s\n", id.c_str());
        fflush(stdout);
        try
        {
            if (cmd == "LAP") run_lap(is);
            else if (cmd == "DM") run_dm(is);
            else if (cmd == "LE") run_le(is);
            else if (cmd == "DMAP") run_dmap(is);
            else printf("@BADCMD\n");
        }
        catch (const std::exception& e)
        {
            printf("@EXC %s\n", e.what());
        }
        printf("@END %s\n", id.c_str());
        fflush(stdout);
    }
    return 0;
}
