// c09.cpp — harness for property C09 (Laplacian Eigenmaps / Diffusion Map).
//
// One case per stdin line, whitespace separated; doubles are C hex floats (strtod reads them).
//   LAP  id mode n width  <n lists: len id id ...>  <n*n distances, row major>  [<m> <m*(arg val)>]
//        -> calls tapkee_internal::compute_laplacian directly with these neighbour lists
//   DM   id mode n width  <n*n distances>  [<m> <m*(arg val)>]
//        -> calls tapkee_internal::compute_diffusion_matrix directly
//   LE   id n k d width emethod cc  <n*n distances>
//        -> tapkee::embed(method=LaplacianEigenmaps, Brute neighbours, check_connectivity=cc)
//           + an INDEPENDENT dense reference (own k-NN, own L and D, Eigen generalized solver)
//   DMAP id n d t width emethod seed  <n*n distances>
//        -> tapkee::embed(method=DiffusionMap) + an INDEPENDENT dense reference
//           (own K, p, q, M; Eigen self-adjoint solver)
//   emethod: 0 = Dense, 1 = Randomized
//   mode (the exp VALUE ORACLE seen by the two routines; DESIGN 1.1 / 6-C09 "table of exp values
//   shared by both sides"): 0 = libm exp; 1 = libm exp rounded to a multiple of 2^-12 (>= 2^-12),
//   so that every sum the routines form is exact in binary64; 2 = the table given on the case line
//   (exact argument match; a miss returns NaN and is reported as "@MISS").
//   The oracle is interposed WITHOUT touching the library: the routines call `exp(...)` unqualified
//   from namespace tapkee::tapkee_internal, so a function of that name declared there before the
//   headers are included is the one they bind to.  Every call is logged ("@X count arg val ...").
//   If the library stops going through the oracle (e.g. calls std::exp) the log is empty and the
//   check falls back to the tolerance comparison for that case.
// stdout: every line the check reads starts with '@'.  "@C id" is flushed before a case is
// run (so that an abort can be attributed), "@END id" after it.  Matrices are printed row major
// as hex floats.  The heat table "@H" is what the PROPERTY names, exp(-(d*d)/width), evaluated
// by the harness through the same oracle: it is the value-oracle table handed to the Coq model.
#include <cmath>
#include <mutex>
#include <vector>
#include <utility>
#include <limits>
namespace c09_oracle
{
static int mode = 0;
static bool logging = false;
static bool missed = false;
static std::mutex mtx;
static std::vector<std::pair<double, double>> calls;
static std::vector<std::pair<double, double>> table;
inline double value(double x)
{
    if (mode == 1)
    {
        double r = std::ldexp(std::nearbyint(std::ldexp(std::exp(x), 12)), -12);
        return r < std::ldexp(1.0, -12) ? std::ldexp(1.0, -12) : r;
    }
    if (mode == 2)
    {
        for (size_t i = 0; i < table.size(); i++)
            if (table[i].first == x) return table[i].second;
        missed = true;
        return std::numeric_limits<double>::quiet_NaN();
    }
    return std::exp(x);
}
inline double oracle_exp(double x)
{
    double v = value(x);
    if (logging)
    {
        std::lock_guard<std::mutex> g(mtx);
        if (calls.size() < 100000) calls.push_back(std::make_pair(x, v));
    }
    return v;
}
} // namespace c09_oracle
namespace tapkee
{
namespace tapkee_internal
{
inline double exp(double x)
{
    return c09_oracle::oracle_exp(x);
}
} // namespace tapkee_internal
} // namespace tapkee
#include <cstdio>
#include <cstdlib>
#include <iostream>
#include <sstream>
#include <string>
#include <vector>
#include <algorithm>
#ifdef C09_FULL_API
// thorough tier: the public entry point, dispatcher included (instantiates all 20 methods: slow build)
#include <tapkee/tapkee.hpp>
#else
// quick tier: only the two method classes are instantiated; the six lines of tapkee::embed() and of
// DynamicImplementation::embedUsing() that lead to them are replicated in embed_one() below
#include <tapkee/defines.hpp>
#include <tapkee/callbacks/dummy_callbacks.hpp>
#include <tapkee/parameters/context.hpp>
#include <tapkee/parameters/defaults.hpp>
#include <tapkee/methods/base.hpp>
#include <tapkee/routines/eigendecomposition.hpp>
#include <tapkee/routines/generalized_eigendecomposition.hpp>
#include <tapkee/methods/laplacian_eigenmaps.hpp>
#include <tapkee/methods/diffusion_map.hpp>
#endif
#include <tapkee/routines/laplacian_eigenmaps.hpp>
#include <tapkee/routines/diffusion_maps.hpp>

using namespace tapkee;

struct matrix_distance_callback
{
    const DenseMatrix* dm;
    ScalarType distance(IndexType a, IndexType b) const
    {
        return (*dm)(a, b);
    }
};

#ifdef C09_FULL_API
template <template <class, class, class, class> class Impl>
static TapkeeOutput embed_one(stichwort::ParametersSet parameters, const std::vector<IndexType>& idx,
                              const matrix_distance_callback& cb)
{
    return tapkee::with(parameters).withDistance(cb).embedUsing(idx);
}
#define C09_IMPL(X) tapkee_internal::X##Implementation
namespace tapkee { namespace tapkee_internal {
template <class A, class B, class C, class D> class LaplacianEigenmapsImplementation;
template <class A, class B, class C, class D> class DiffusionMapImplementation;
} }
#else
// tapkee::embed() + the dispatch macro of methods.hpp for exactly one method class
template <template <class, class, class, class> class Impl>
static TapkeeOutput embed_one(stichwort::ParametersSet parameters, const std::vector<IndexType>& idx,
                              const matrix_distance_callback& cb)
{
    typedef std::vector<IndexType>::const_iterator It;
    typedef dummy_kernel_callback<IndexType> KC;
    typedef dummy_features_callback<IndexType> FC;
    try
    {
        parameters.check();
        [](auto& p) {   // embed.hpp calls checkTypes between check() and merge() since fix F27
            if constexpr (requires { p.checkTypes(tapkee_internal::defaults); })
                p.checkTypes(tapkee_internal::defaults);
        }(parameters);
        parameters.merge(tapkee_internal::defaults);
        tapkee_internal::Context context(nullptr, nullptr);
        tapkee_internal::ImplementationBase<It, KC, matrix_distance_callback, FC> base(
            idx.begin(), idx.end(), KC(), cb, FC(), parameters, context);
        Impl<It, KC, matrix_distance_callback, FC> implementation(base);
        implementation.validate();
        return implementation.embed();
    }
    catch (const stichwort::wrong_parameter_error& ex)
    {
        throw tapkee::wrong_parameter_error(ex.what());
    }
}
#define C09_IMPL(X) tapkee_internal::X##Implementation
#endif

static void print_mat(const char* tag, const DenseMatrix& m)
{
    printf("@%s %d %d", tag, (int)m.rows(), (int)m.cols());
    for (int i = 0; i < m.rows(); i++)
        for (int j = 0; j < m.cols(); j++)
            printf(" %a", (double)m(i, j));
    printf("\n");
}

static bool read_mat(std::istringstream& is, int n, DenseMatrix& m)
{
    m.resize(n, n);
    std::string tok;
    for (int i = 0; i < n; i++)
        for (int j = 0; j < n; j++)
        {
            if (!(is >> tok)) return false;
            m(i, j) = strtod(tok.c_str(), NULL);
        }
    return true;
}

static DenseMatrix heat_table(const DenseMatrix& dist, double width)
{
    const int n = dist.rows();
    DenseMatrix h(n, n);
    for (int i = 0; i < n; i++)
        for (int j = 0; j < n; j++)
            h(i, j) = c09_oracle::value(-(dist(i, j) * dist(i, j)) / width);
    return h;
}


static void print_calls()
{
    printf("@X %d", (int)c09_oracle::calls.size());
    for (size_t i = 0; i < c09_oracle::calls.size(); i++)
        printf(" %a %a", c09_oracle::calls[i].first, c09_oracle::calls[i].second);
    printf("\n");
    if (c09_oracle::missed) printf("@MISS\n");
}

static bool read_table(std::istringstream& is)
{
    c09_oracle::table.clear();
    if (c09_oracle::mode != 2) return true;
    int m;
    if (!(is >> m) || m < 0 || m > 100000) return false;
    std::string a, v;
    for (int i = 0; i < m; i++)
    {
        if (!(is >> a >> v)) return false;
        c09_oracle::table.push_back(std::make_pair(strtod(a.c_str(), NULL), strtod(v.c_str(), NULL)));
    }
    return true;
}

struct oracle_scope
{
    oracle_scope(int m)
    {
        c09_oracle::mode = m;
        c09_oracle::calls.clear();
        c09_oracle::missed = false;
    }
    ~oracle_scope()
    {
        c09_oracle::mode = 0;
        c09_oracle::logging = false;
        c09_oracle::table.clear();
    }
};

// ---------------------------------------------------------------- independent references
static std::vector<std::vector<int>> own_knn(const DenseMatrix& dist, int k)
{
    const int n = dist.rows();
    std::vector<std::vector<int>> nb(n);
    for (int i = 0; i < n; i++)
    {
        std::vector<std::pair<double, int>> c;
        for (int j = 0; j < n; j++)
            if (j != i) c.push_back(std::make_pair((double)dist(i, j), j));
        std::sort(c.begin(), c.end());
        for (int t = 0; t < k && t < (int)c.size(); t++) nb[i].push_back(c[t].second);
    }
    return nb;
}

static bool undirected_connected(const std::vector<std::vector<int>>& nb)
{
    const int n = nb.size();
    std::vector<std::vector<int>> adj(n);
    for (int i = 0; i < n; i++)
        for (int j : nb[i]) { adj[i].push_back(j); adj[j].push_back(i); }
    std::vector<int> seen(n, 0), stack(1, 0);
    seen[0] = 1;
    int cnt = 1;
    while (!stack.empty())
    {
        int u = stack.back(); stack.pop_back();
        for (int v : adj[u]) if (!seen[v]) { seen[v] = 1; cnt++; stack.push_back(v); }
    }
    return cnt == n;
}


// oracle contract of the (generalised) self-adjoint solver measured on one call, with plain loops (no GEMM
// instantiation): A V = B V Lambda, V^T B V = I, V (V^T B) = I, ascending; B = NULL means identity
static void contract_measures(const DenseMatrix& A, const DenseMatrix* B, const DenseMatrix& V, const DenseVector& lam,
                              double& res, double& gram, double& comp, int& asc)
{
    const int n = A.rows();
    DenseMatrix BV(n, n);
    for (int i = 0; i < n; i++)
        for (int c = 0; c < n; c++)
        {
            double s = 0;
            if (B) { for (int t = 0; t < n; t++) s += (*B)(i, t) * V(t, c); } else s = V(i, c);
            BV(i, c) = s;
        }
    double amax = 1.0;
    res = gram = comp = 0;
    for (int i = 0; i < n; i++)
        for (int c = 0; c < n; c++)
        {
            amax = std::max(amax, std::fabs(A(i, c)));
            double av = 0, g = 0, cm = 0;
            for (int t = 0; t < n; t++)
            {
                av += A(i, t) * V(t, c);
                g += V(t, i) * BV(t, c);
                cm += V(i, t) * BV(c, t);      // (V (V^T B))_{ic} = sum_t V_it (B V)_{ct} for symmetric B
            }
            res = std::max(res, std::fabs(av - BV(i, c) * lam(c)));
            gram = std::max(gram, std::fabs(g - (i == c ? 1.0 : 0.0)));
            comp = std::max(comp, std::fabs(cm - (i == c ? 1.0 : 0.0)));
        }
    res /= amax;
    asc = 1;
    for (int i = 0; i + 1 < n; i++) if (lam(i) > lam(i + 1)) asc = 0;
}

static void run_lap(std::istringstream& is)
{
    int n, md; std::string wtok;
    is >> md >> n >> wtok;
    if (!is || n < 0 || n > 4096 || md < 0 || md > 2) { printf("@BADINPUT\n"); return; }
    oracle_scope scope(md);
    double width = strtod(wtok.c_str(), NULL);
    tapkee_internal::Neighbors neighbors;
    for (int i = 0; i < n; i++)
    {
        int len; is >> len;
        tapkee_internal::LocalNeighbors ln;
        for (int t = 0; t < len; t++) { int v; is >> v; ln.push_back(v); }
        neighbors.push_back(ln);
    }
    DenseMatrix dist;
    if (!read_mat(is, n, dist) || !read_table(is)) { printf("@BADINPUT\n"); return; }
    std::vector<IndexType> idx(n);
    for (int i = 0; i < n; i++) idx[i] = i;
    matrix_distance_callback cb{&dist};
    c09_oracle::logging = true;
    tapkee_internal::Laplacian lap =
        tapkee_internal::compute_laplacian(idx.begin(), idx.end(), neighbors, cb, width);
    c09_oracle::logging = false;
    DenseMatrix L = DenseMatrix(lap.first);
    DenseMatrix D = lap.second.diagonal().transpose();
    print_mat("L", L);
    print_mat("D", D);
    print_calls();
    print_mat("H", heat_table(dist, width));
}

static void run_dm(std::istringstream& is)
{
    int n, md; std::string wtok;
    is >> md >> n >> wtok;
    if (!is || n < 0 || n > 4096 || md < 0 || md > 2) { printf("@BADINPUT\n"); return; }
    oracle_scope scope(md);
    double width = strtod(wtok.c_str(), NULL);
    DenseMatrix dist;
    if (!read_mat(is, n, dist) || !read_table(is)) { printf("@BADINPUT\n"); return; }
    std::vector<IndexType> idx(n);
    for (int i = 0; i < n; i++) idx[i] = i;
    matrix_distance_callback cb{&dist};
    c09_oracle::logging = true;
    DenseMatrix M = tapkee_internal::compute_diffusion_matrix(idx.begin(), idx.end(), cb, width);
    c09_oracle::logging = false;
    print_mat("M", M);
    print_calls();
    print_mat("H", heat_table(dist, width));
}

static void run_le(std::istringstream& is)
{
    int n, k, d, em, cc; std::string wtok;
    is >> n >> k >> d >> wtok >> em >> cc;
    if (!is || n < 0 || n > 4096) { printf("@BADINPUT\n"); return; }
    double width = strtod(wtok.c_str(), NULL);
    DenseMatrix dist;
    if (!read_mat(is, n, dist)) { printf("@BADINPUT\n"); return; }
    std::vector<IndexType> idx(n);
    for (int i = 0; i < n; i++) idx[i] = i;
    matrix_distance_callback cb{&dist};
    // independent reference first (so that it is available even if the library aborts later)
    std::vector<std::vector<int>> nb = own_knn(dist, k);
    printf("@NB");
    for (int i = 0; i < n; i++)
    {
        printf(" %d", (int)nb[i].size());
        for (int j : nb[i]) printf(" %d", j);
    }
    printf("\n@CONN %d\n", undirected_connected(nb) ? 1 : 0);
    DenseMatrix A = DenseMatrix::Zero(n, n);
    for (int i = 0; i < n; i++)
        for (int j : nb[i]) A(i, j) = std::exp(-(dist(i, j) * dist(i, j)) / width);
    DenseMatrix W = A + A.transpose();
    DenseMatrix deg = W.rowwise().sum();
    DenseMatrix Lref = -W;
    for (int i = 0; i < n; i++) Lref(i, i) += deg(i, 0);
    DenseMatrix Dref = DenseMatrix::Zero(n, n);
    for (int i = 0; i < n; i++) Dref(i, i) = deg(i, 0);
    print_mat("LREF", Lref);
    print_mat("DREF", DenseMatrix(deg.transpose()));
    print_mat("H", heat_table(dist, width));
    bool posdef = true;
    for (int i = 0; i < n; i++) if (!(deg(i, 0) > 0)) posdef = false;
    if (posdef)
    {
        Eigen::GeneralizedSelfAdjointEigenSolver<DenseMatrix> ref(Lref, Dref);
        if (ref.info() == Eigen::Success)
        {
            print_mat("LAMREF", DenseMatrix(ref.eigenvalues().transpose()));
            print_mat("VREF", DenseMatrix(ref.eigenvectors()));
            // oracle contract of GeneralizedSelfAdjointEigenSolver (the class the library uses), measured on
            // this call: L V = D V Lambda, V^T D V = I, V (V^T D) = I, ascending
            const DenseMatrix V = ref.eigenvectors();
            const DenseVector lam = ref.eigenvalues();
            double res, gram, comp;
            int asc;
            contract_measures(Lref, &Dref, V, lam, res, gram, comp, asc);
            printf("@ORACLE 1 4 %a %a %a %a\n", res, gram, comp, (double)asc);
        }
        else
            printf("@REFFAIL\n");
    }
    else
        printf("@REFFAIL\n");
    fflush(stdout);
    try
    {
        TapkeeOutput out = embed_one<C09_IMPL(LaplacianEigenmaps)>(
            (method = LaplacianEigenmaps, num_neighbors = k, target_dimension = d,
             gaussian_kernel_width = width, eigen_method = (em == 0 ? Dense : Randomized),
             neighbors_method = Brute, check_connectivity = (cc != 0)), idx, cb);
        print_mat("Y", out.embedding);
    }
    catch (const std::exception& e)
    {
        printf("@EXC %s\n", e.what());
    }
}

static void run_dmap(std::istringstream& is)
{
    int n, d, t, em; unsigned seed; std::string wtok;
    is >> n >> d >> t >> wtok >> em >> seed;
    double width = strtod(wtok.c_str(), NULL);
    DenseMatrix dist;
    if (!read_mat(is, n, dist)) { printf("@BADINPUT\n"); return; }
    std::vector<IndexType> idx(n);
    for (int i = 0; i < n; i++) idx[i] = i;
    matrix_distance_callback cb{&dist};
    // independent dense reference: K, p = K 1, K' = K / (p p^T), q = K' 1, M = K' / sqrt(q q^T)
    DenseMatrix K(n, n);
    for (int i = 0; i < n; i++)
        for (int j = 0; j < n; j++)
            K(i, j) = std::exp(-(dist(i, j) * dist(i, j)) / width);
    DenseVector p = K.rowwise().sum();
    DenseMatrix K1 = (p.cwiseInverse().asDiagonal() * K * p.cwiseInverse().asDiagonal());
    DenseVector q = K1.rowwise().sum();
    DenseVector s = q.cwiseSqrt().cwiseInverse();
    DenseMatrix M = s.asDiagonal() * K1 * s.asDiagonal();
    M = ((M + M.transpose()) / 2).eval();
    print_mat("MREF", M);
    Eigen::SelfAdjointEigenSolver<DenseMatrix> ref(M);
    if (ref.info() == Eigen::Success)
    {
        print_mat("EVAL", DenseMatrix(ref.eigenvalues().transpose()));
        print_mat("EVEC", DenseMatrix(ref.eigenvectors()));
        {
            // oracle contract of SelfAdjointEigenSolver measured on this call: M V = V Lambda, V^T V = I, ascending
            const DenseMatrix V = ref.eigenvectors();
            const DenseVector lam = ref.eigenvalues();
            double res, gram, comp;
            int asc;
            contract_measures(M, NULL, V, lam, res, gram, comp, asc);
            printf("@ORACLE 1 4 %a %a %a %a\n", res, gram, comp, (double)asc);
        }
    }
    else
        printf("@REFFAIL\n");
    fflush(stdout);
    std::srand(seed);
    try
    {
        TapkeeOutput out = embed_one<C09_IMPL(DiffusionMap)>(
            (method = DiffusionMap, target_dimension = d, diffusion_map_timesteps = t,
             gaussian_kernel_width = width, eigen_method = (em == 0 ? Dense : Randomized)), idx, cb);
        print_mat("Y", out.embedding);
    }
    catch (const std::exception& e)
    {
        printf("@EXC %s\n", e.what());
    }
}

int main()
{
    std::string line;
    while (std::getline(std::cin, line))
    {
        if (line.empty()) continue;
        std::istringstream is(line);
        std::string cmd, id;
        is >> cmd >> id;
        printf("@C %s\n", id.c_str());
        fflush(stdout);
        try
        {
            if (cmd == "LAP") run_lap(is);
            else if (cmd == "DM") run_dm(is);
            else if (cmd == "LE") run_le(is);
            else if (cmd == "DMAP") run_dmap(is);
            else printf("@BADCMD\n");
        }
        catch (const std::exception& e)
        {
            printf("@EXC %s\n", e.what());
        }
        printf("@END %s\n", id.c_str());
        fflush(stdout);
    }
    return 0;
}
