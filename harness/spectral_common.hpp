// spectral_common.hpp — shared by harness/c05.cpp, c06.cpp, c07.cpp
// Exact number transport (hex floats), matrix I/O, reference symmetric eigen-decomposition.
// Protocol: every case is one stdin line; before running it the driver prints "C <k>" (flushed)
// so that an abort (ASan / assertion) is attributable; results are lines starting with "R ",
// exceptions lines "X <k> <what>".  Anything else on stdout (tapkee logging) is ignored.
#pragma once
#include <cmath>
#include <cstdio>
#include <cstdlib>
#include <iostream>
#include <sstream>
#include <string>
#include <vector>

#include <tapkee/tapkee.hpp>

namespace vh
{
using tapkee::DenseMatrix;
using tapkee::DenseVector;
using tapkee::IndexType;
using tapkee::ScalarType;

inline std::string hex(double x)
{
    char buf[64];
    if (std::isnan(x)) return "nan";
    if (std::isinf(x)) return x > 0 ? "inf" : "-inf";
    std::snprintf(buf, sizeof buf, "%a", x);
    return buf;
}

inline bool read_double(std::istringstream& is, double& x)
{
    std::string tok;
    if (!(is >> tok)) return false;
    char* end = nullptr;
    x = std::strtod(tok.c_str(), &end);   // accepts decimal and hex-float
    return end != tok.c_str();
}

// row-major n x m
inline bool read_matrix(std::istringstream& is, int n, int m, DenseMatrix& M)
{
    M.resize(n, m);
    for (int i = 0; i < n; i++)
        for (int j = 0; j < m; j++)
        {
            double x;
            if (!read_double(is, x)) return false;
            M(i, j) = x;
        }
    return true;
}

inline void print_matrix(const char* tag, const DenseMatrix& M)
{
    std::ostringstream os;
    os << "R " << tag << " " << M.rows() << " " << M.cols();
    for (int i = 0; i < M.rows(); i++)
        for (int j = 0; j < M.cols(); j++)
            os << " " << hex(M(i, j));
    std::cout << os.str() << std::endl;
}

inline void print_vector(const char* tag, const DenseVector& v)
{
    std::ostringstream os;
    os << "R " << tag << " " << v.size() << " 1";
    for (int i = 0; i < v.size(); i++)
        os << " " << hex(v(i));
    std::cout << os.str() << std::endl;
}

inline tapkee::EigenMethod solver_of(const std::string& s)
{
    if (s == "randomized") return tapkee::Randomized;
    return tapkee::Dense;
}

// reference decomposition (Eigen, independent of tapkee's front-ends): the caller passes a
// symmetric matrix; eigenvalues ascending
inline void reference_eig(const DenseMatrix& S)
{
    Eigen::SelfAdjointEigenSolver<DenseMatrix> es(S);
    print_vector("eigvals", es.eigenvalues());
}

template <class F> void guarded(int k, F f)
{
    std::cout << "C " << k << std::endl;
    try
    {
        f();
    }
    catch (const std::exception& e)
    {
        std::string w = e.what();
        for (auto& c : w)
            if (c == '\n') c = ' ';
        std::cout << "X " << k << " " << w << std::endl;
    }
    std::cout << "END " << k << std::endl;
}
} // namespace vh
