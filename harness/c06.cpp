// c06.cpp — harness for C06 (PCA projects onto the leading principal subspace).
// One case per stdin line (protocol of spectral_common.hpp: "C k", result lines "R ...", "X k what",
// "END k").  Samples are given one per row (N rows of D numbers); tapkee gets them as columns.
//   COV D N <X N*D>        compute_mean, then compute_covariance_matrix(mean): the first two statements
//                          of PrincipalComponentAnalysisImplementation::embed().  -> R mean, R cov (the
//                          D x D matrix EXACTLY as returned, both triangles)
//   TRI dense|randomized D d <M D*D>
//                          tapkee_internal::eigendecomposition(method, CPU, LargestEigenvalues, M, d) on a
//                          matrix whose triangles may DIFFER (what does the front-end see?) -> R vecs, R vals
//   RAW D <M D*D>          Eigen::SelfAdjointEigenSolver directly on M (oracle contract: which triangle
//                          does Eigen read, ascending order, orthonormality) -> R vecs, R vals
//   OP D c <M D*D> <R D*c> DenseMatrixOperation(M)(R) (the product the randomized front-end uses) -> R prod
//   EIG D <S D*D>          reference eigenvalues of a symmetric matrix, ascending -> R eigvals
//   EMB pca|kpca|mds dense|randomized N D d <X N*D>
//                          X##Implementation(ImplementationBase(...)).validate(); .embed() -- the body of the
//                          dispatcher macro of methods.hpp -- with linear kernel, Euclidean distance and
//                          features callbacks on X
//                          -> R emb (N x d), R has 0|1, and for a MatrixProjectionImplementation R P, R m
// TRI randomized and EMB pca randomized first print "R omega" (D x d): the Gaussian test matrix the front-end
// will draw (std::srand(seed) before and after), so that the Gram-Schmidt norms can be replayed.
// Numbers are decimal or hex-float on input, hex-float on output.
#include "spectral_common.hpp"

#include <map>
#include <numeric>
#include <tapkee/callbacks/eigen_callbacks.hpp>

using namespace tapkee;
using namespace vh;

static bool bad_dim(int v, int hi)
{
    return v < 0 || v > hi;
}

// The Gaussian test matrix the randomized front-end is about to draw (eigendecomposition_impl_randomized: D x d,
// filled row by row from tapkee::gaussian_random(), which draws from std::rand): the same oracle calls in the
// same order after the same std::srand(seed).  Printed as "R omega"; the generator is re-seeded afterwards so
// that the front-end draws exactly this matrix.  Lets the check replay the Gram-Schmidt norms of the front-end
// (is its absolute cut-off `norm < 1e-4` taken?  known finding F36).
static void announce_omega(unsigned seed, int D, int d)
{
    std::srand(seed);
    DenseMatrix O(D, d);
    for (int i = 0; i < D; i++)
        for (int j = 0; j < d; j++)
            O(i, j) = tapkee::gaussian_random();
    print_matrix("omega", O);
    std::srand(seed);
}

int main()
{
    std::string line;
    int k = 0;
    while (std::getline(std::cin, line))
    {
        if (line.empty()) continue;
        std::istringstream is(line);
        std::string cmd;
        is >> cmd;
        guarded(k, [&]() {
            auto bad = [&]() { std::cout << "X " << k << " bad-input" << std::endl; };
            if (cmd == "COV")
            {
                int D, N;
                is >> D >> N;
                DenseMatrix Xr;
                if (!is || bad_dim(D, 4096) || bad_dim(N, 100000) || N == 0 || !read_matrix(is, N, D, Xr)) return bad();
                DenseMatrix X = Xr.transpose();
                std::vector<IndexType> idx(N);
                std::iota(idx.begin(), idx.end(), 0);
                eigen_features_callback fcb(X);
                DenseVector m = tapkee_internal::compute_mean(idx.begin(), idx.end(), fcb, D);
                DenseSymmetricMatrix C = tapkee_internal::compute_covariance_matrix(idx.begin(), idx.end(), m, fcb, D);
                print_vector("mean", m);
                print_matrix("cov", C);
            }
            else if (cmd == "TRI")
            {
                std::string solver;
                int D, d;
                is >> solver >> D >> d;
                DenseMatrix M;
                if (!is || bad_dim(D, 4096) || bad_dim(d, 4096) || !read_matrix(is, D, D, M)) return bad();
                if (solver == "randomized") announce_omega(20261002u + (unsigned)k, D, d);
                tapkee_internal::EigendecompositionResult r = tapkee_internal::eigendecomposition(
                    solver_of(solver), HomogeneousCPUStrategy, tapkee_internal::LargestEigenvalues, M, d);
                print_matrix("vecs", r.first);
                print_vector("vals", r.second);
            }
            else if (cmd == "RAW" || cmd == "EIG")
            {
                int D;
                is >> D;
                DenseMatrix M;
                if (!is || bad_dim(D, 4096) || !read_matrix(is, D, D, M)) return bad();
                Eigen::SelfAdjointEigenSolver<DenseMatrix> es(M);
                if (cmd == "RAW")
                {
                    print_matrix("vecs", es.eigenvectors());
                    print_vector("vals", es.eigenvalues());
                }
                else
                    print_vector("eigvals", es.eigenvalues());
            }
            else if (cmd == "OP")
            {
                int D, c;
                is >> D >> c;
                DenseMatrix M, R;
                if (!is || bad_dim(D, 4096) || bad_dim(c, 4096) || !read_matrix(is, D, D, M) || !read_matrix(is, D, c, R))
                    return bad();
                tapkee_internal::DenseMatrixOperation op(M);
                DenseMatrix prod = op(R);
                print_matrix("prod", prod);
            }
            else if (cmd == "EMB")
            {
                std::string meth, solver;
                int N, D, d;
                is >> meth >> solver >> N >> D >> d;
                DenseMatrix Xr;
                if (!is || (meth != "pca" && meth != "kpca" && meth != "mds") || bad_dim(D, 4096) || bad_dim(N, 100000) ||
                    !read_matrix(is, N, D, Xr))
                    return bad();
                DenseMatrix X = Xr.transpose();
                std::vector<IndexType> idx(N);
                std::iota(idx.begin(), idx.end(), 0);
                if (solver == "randomized" && meth == "pca" && !bad_dim(d, 4096)) announce_omega(20261002u + (unsigned)k, D, d);
                eigen_features_callback fcb(X);
                eigen_kernel_callback kcb(X);
                eigen_distance_callback dcb(X);
                // The three implementation classes are instantiated directly, exactly as the dispatcher
                // macro tapkee_method_handle(X) of methods.hpp does (ImplementationBase, X##Implementation,
                // validate(), embed()); going through tapkee::embed would instantiate all twenty methods and
                // triple the build time of this driver.  The dispatch itself is exercised by harness/c07.cpp.
                typedef std::vector<IndexType>::iterator It;
                typedef tapkee_internal::ImplementationBase<It, eigen_kernel_callback, eigen_distance_callback,
                                                            eigen_features_callback>
                    Base;
                stichwort::ParametersSet parameters =
                    (method = PrincipalComponentAnalysis, target_dimension = d, eigen_method = solver_of(solver));
                parameters.check();
                parameters.checkTypes(tapkee_internal::defaults);
                parameters.merge(tapkee_internal::defaults);
                tapkee_internal::Context context(nullptr, nullptr);
                Base base(idx.begin(), idx.end(), kcb, dcb, fcb, parameters, context);
                TapkeeOutput out;
                if (meth == "pca")
                {
                    tapkee_internal::PrincipalComponentAnalysisImplementation<It, eigen_kernel_callback,
                                                                              eigen_distance_callback,
                                                                              eigen_features_callback>
                        impl(base);
                    impl.validate();
                    out = impl.embed();
                }
                else if (meth == "kpca")
                {
                    tapkee_internal::KernelPrincipalComponentAnalysisImplementation<
                        It, eigen_kernel_callback, eigen_distance_callback, eigen_features_callback>
                        impl(base);
                    impl.validate();
                    out = impl.embed();
                }
                else
                {
                    tapkee_internal::MultidimensionalScalingImplementation<It, eigen_kernel_callback,
                                                                           eigen_distance_callback,
                                                                           eigen_features_callback>
                        impl(base);
                    impl.validate();
                    out = impl.embed();
                }
                print_matrix("emb", out.embedding);
                bool has = (bool)out.projection.implementation;
                std::cout << "R has " << (has ? 1 : 0) << std::endl;
                if (has)
                {
                    MatrixProjectionImplementation* mpi =
                        dynamic_cast<MatrixProjectionImplementation*>(out.projection.implementation.get());
                    if (mpi)
                    {
                        print_matrix("P", mpi->proj_mat);
                        print_vector("m", mpi->mean_vec);
                    }
                }
            }
            else
            {
                std::cout << "X " << k << " unknown-command" << std::endl;
            }
        });
        k++;
    }
    return 0;
}
