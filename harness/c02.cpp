// c02.cpp — drives the three neighbour searches of tapkee on exact (integer valued) metrics.
//
// The samples are integer ids (0..N-1 unless an IDS line says otherwise); the distance / kernel callback looks
// the value up in a matrix supplied on stdin, so every distance is an exactly representable
// integer and model and implementation must agree exactly, ties included.
//
// stdin (one token stream, line oriented):
//   CASE <N> D            followed by N lines of N numbers (decimal integers or hex floats): the distance matrix
//   CASE <N> K <dim>      followed by N lines of dim integers: feature vectors, kernel = dot product
//   CASE <N> KM           followed by N lines of N numbers (decimal integers or hex floats): the kernel matrix itself
//   IDS <pf> <pb> id_0 .. id_{N-1}   (optional, directly after the matrix) the sample ids: the vector the iterators run
//                         over holds pf poison entries, then the N distinct ids, then pb poison entries; begin/end
//                         delimit the N ids.  Row/column i of the matrix belongs to POSITION i (the sample *(begin+i));
//                         the callbacks receive ids and look the position up; a callback on an id that is not one of
//                         the N ids (a read outside [begin,end)) throws.  Every index printed below is a position.
//   F <method> <k>        tapkee_internal::find_neighbors(method, begin, end, cb, k, false)
//                         method: B (Brute) V (VpTree) C (CoverTree)
//   E <method> <k>        the same as F over a NON-CONTIGUOUS random-access range: the N ids are copied into a std::deque<int>
//                         (blocks of 128 ints; the copy is preceded by pf pushed-and-popped entries so that the range
//                         starts inside a block) and find_neighbors runs over deque iterators; output as for F with tag E
//   G <method> <k>        the same with check_connectivity = true (the search is repeated with 2k, clamped to N-1, until
//                         the neighbourhood graph is connected); output "G <method> <k> <nrows>" + rows as for F
//   W <method> <k>        the dispatcher with its exhaustive-search fallback observed: first the raw tree search
//                         find_neighbors_<method>_impl(begin, end, cb, k) (nothing for B), then find_neighbors(method, ..,
//                         k, false) with warnings enabled and a counting LoggerImplementation installed (the VP-tree's
//                         pivot stream is restarted from the same seed before both calls, so both build the same tree).
//                         The callback may be ANY table here (no metric assumed).
//   P                     the distance table exactly as the library sees it: cb.distance(begin+i, begin+j) for all i, j
//   O <k> <row>           the brute-force nth_element ORACLE observed: rebuilds the `distances`
//                         vector of that row exactly as find_neighbors_bruteforce_impl does (both the
//                         shipped layout "all samples, position k+1" and the repaired layout "other
//                         samples, position k") and prints what std::nth_element leaves
//   T <k> <seed>          builds a VantagePointTree (pivot draws from a seeded stream, logged; seed % 16 == 0: every draw is
//                         0.0, seed % 16 == 1: every draw is 1 - 2^-53, the extreme values of uniform_random()), dumps
//                         it in preorder and prints the raw tree.search(i, k) result of every sample
//   Q <k>                 builds the cover tree as find_neighbors_covertree_impl does and prints the raw
//                         candidate lists res[i] of k_nearest_neighbor(.., k) (k as passed, no ++)
//   D                     builds the cover tree the same way and dumps it in preorder
//   END                   ends the case
// stdout: "C <n>" (flushed) before each case so that an abort can be attributed, then per command
//   F: "F <method> <k> <nrows>" then nrows lines "r <i> : j j j ..."
//   W: "W <method> <k> <warnings logged> <nrows> <nraw>", nrows lines "r <i> : j j .." (the table returned), nraw lines
//      "w <i> : j j .." (the raw tree table)
//   P: "P <N>" then N lines "p v v v .." (hex floats)
//   O: "O <k> <row> S : j j ..." (shipped layout)  and  "O <k> <row> R : j j ..." (repaired layout)
//   T: "T <k> <nnodes>", "P p p p ..." (pivot offsets drawn, in call order),
//      nnodes lines "n <item> <thr hexfloat> <hasleft> <hasright>" (preorder), then N lines "s <i> : j j ..."
//   Q: "Q <k> <nrows>" then "c <query> : j j j ..." per row
//   D: "D <nnodes>" then nnodes lines "t <sample> <max_dist hexfloat> <parent_dist hexfloat> <scale> <num_children> <children.size()>"
//   "END" closes the case.
#include <algorithm>
#include <cmath>
#include <cstdio>
#include <cstdlib>
#include <iostream>
#include <sstream>
#include <string>
#include <vector>
#include <queue>
#include <limits>
#include <assert.h>
#include <ctime>
#include <functional>
#include <iterator>
#include <list>
#include <deque>
#include <map>
#include <memory>
#include <random>
#include <stack>
#include <stdexcept>
#include <utility>
#include <fmt/core.h>
#include <fmt/format.h>
#include <Eigen/Eigen>
#include <Eigen/Dense>
#include <Eigen/Sparse>
#include <unsupported/Eigen/SparseExtra>

static unsigned long long g_rng_state = 1;
static std::vector<double> g_draws;
static int g_rng_extreme = 0; // 1: every draw 0.0   2: every draw the largest double below 1
static double harness_uniform()
{
    if (g_rng_extreme)
    {
        double u = g_rng_extreme == 1 ? 0.0 : 0x1.fffffffffffffp-1;
        g_draws.push_back(u);
        return u;
    }
    g_rng_state = g_rng_state * 6364136223846793005ULL + 1442695040888963407ULL;
    double u = (double)(g_rng_state >> 11) / 9007199254740992.0; // [0,1)
    g_draws.push_back(u);
    return u;
}
#define CUSTOM_UNIFORM_RANDOM_FUNCTION harness_uniform()

#define private public
#define protected public
#include <tapkee/defines.hpp>
#include <tapkee/neighbors/neighbors.hpp>
#undef private
#undef protected

using namespace tapkee;
using namespace tapkee::tapkee_internal;

typedef std::vector<int> Store;
typedef Store::iterator It;

// the range [begin, end) the library is given; a window of `store`
struct Samples
{
    Store store;
    size_t first = 0, count = 0;
    It begin() { return store.begin() + first; }
    It end() { return store.begin() + first + count; }
    size_t size() const { return count; }
};

// id -> position (row of the matrix)
struct IdMap
{
    bool identity = true;
    int n = 0;
    long long base = 0;
    std::vector<int> table; // id - base -> position or -1
    inline int pos(int id) const
    {
        if (identity)
        {
            if (id < 0 || id >= n) throw std::runtime_error("callback on a sample outside [begin,end)");
            return id;
        }
        long long o = (long long)id - base;
        if (o < 0 || o >= (long long)table.size() || table[o] < 0)
            throw std::runtime_error("callback on a sample outside [begin,end)");
        return table[o];
    }
};
static IdMap g_ids;

struct matrix_distance_callback
{
    const std::vector<std::vector<double>>* m;
    ScalarType distance(int a, int b) const { return (*m)[g_ids.pos(a)][g_ids.pos(b)]; }
};
struct matrix_kernel_callback
{
    const std::vector<std::vector<double>>* m;
    ScalarType kernel(int a, int b) const { return (*m)[g_ids.pos(a)][g_ids.pos(b)]; }
};

typedef PlainDistance<It, matrix_distance_callback> PD;
typedef KernelDistance<It, matrix_kernel_callback> KD;

template <class CB> static void print_rows(const char* tag, const Neighbors& nb)
{
    (void)tag;
    for (size_t i = 0; i < nb.size(); i++)
    {
        printf("r %zu :", i);
        for (size_t j = 0; j < nb[i].size(); j++) printf(" %d", (int)nb[i][j]);
        printf("\n");
    }
}

template <class CB> static void cmd_find(char method, int k, Samples& s, CB cb, bool conn = false)
{
    NeighborsMethod m = Brute;
    if (method == 'V') m = VpTree;
    if (method == 'C') m = CoverTree;
    Neighbors nb = find_neighbors(m, s.begin(), s.end(), cb, (IndexType)k, conn);
    printf("%c %c %d %zu\n", conn ? 'G' : 'F', method, k, nb.size());
    print_rows<CB>("r", nb);
}

// counts what the library logs (the dispatcher reports a fired fallback at level warning)
struct CountingLogger : public tapkee::LoggerImplementation
{
    long warnings = 0;
    virtual void message_info(const std::string&) {}
    virtual void message_warning(const std::string&) { ++warnings; }
    virtual void message_debug(const std::string&) {}
    virtual void message_error(const std::string&) {}
    virtual void message_benchmark(const std::string&) {}
};
static CountingLogger* g_logger = NULL;

template <class CB> static void cmd_wrap(char method, int k, Samples& s, CB cb)
{
    NeighborsMethod m = Brute;
    if (method == 'V') m = VpTree;
    if (method == 'C') m = CoverTree;
    const unsigned long long seed = 0x9E3779B97F4A7C15ULL + (unsigned long long)k;
    Neighbors raw;
    g_rng_state = seed;
    if (method == 'V') raw = find_neighbors_vptree_impl(s.begin(), s.end(), cb, (IndexType)k);
    if (method == 'C') raw = find_neighbors_covertree_impl(s.begin(), s.end(), cb, (IndexType)k);
    g_rng_state = seed;
    const long before = g_logger ? g_logger->warnings : 0;
    tapkee::Logging::instance().enable_warning();
    Neighbors nb;
    try
    {
        nb = find_neighbors(m, s.begin(), s.end(), cb, (IndexType)k, false);
    }
    catch (...)
    {
        tapkee::Logging::instance().disable_warning();
        throw;
    }
    tapkee::Logging::instance().disable_warning();
    const long logged = (g_logger ? g_logger->warnings : 0) - before;
    printf("W %c %d %ld %zu %zu\n", method, k, logged, nb.size(), raw.size());
    print_rows<CB>("r", nb);
    for (size_t i = 0; i < raw.size(); i++)
    {
        printf("w %zu :", i);
        for (size_t j = 0; j < raw[i].size(); j++) printf(" %d", (int)raw[i][j]);
        printf("\n");
    }
}

template <class CB> static void cmd_table(Samples& s, CB cb)
{
    printf("P %zu\n", s.size());
    for (It i = s.begin(); i != s.end(); ++i)
    {
        printf("p");
        for (It j = s.begin(); j != s.end(); ++j) printf(" %a", (double)cb.distance(i, j));
        printf("\n");
    }
}

// E: the same search over a non-contiguous random-access range (std::deque iterators)
typedef std::deque<int>::iterator DIt;
template <class DCB> static void run_find_deque(char method, int k, Samples& s, size_t lead, DCB cb_of_deque)
{
    NeighborsMethod m = Brute;
    if (method == 'V') m = VpTree;
    if (method == 'C') m = CoverTree;
    std::deque<int> dq;
    for (size_t i = 0; i < lead; i++) dq.push_back(-1);
    for (It i = s.begin(); i != s.end(); ++i) dq.push_back(*i);
    for (size_t i = 0; i < lead; i++) dq.pop_front();
    Neighbors nb = find_neighbors(m, dq.begin(), dq.end(), cb_of_deque, (IndexType)k, false);
    printf("E %c %d %zu\n", method, k, nb.size());
    print_rows<DCB>("r", nb);
}
template <class RawCB> static void cmd_find_deque(char method, int k, Samples& s, const RawCB& raw, DistanceType)
{
    run_find_deque(method, k, s, 100 + (size_t)k % 60, PlainDistance<DIt, RawCB>(raw));
}
template <class RawCB> static void cmd_find_deque(char method, int k, Samples& s, const RawCB& raw, KernelType)
{
    run_find_deque(method, k, s, 100 + (size_t)k % 60, KernelDistance<DIt, RawCB>(raw));
}

template <class CB> static void cmd_oracle(int k, int row, Samples& s, CB cb)
{
    typedef std::pair<It, ScalarType> DistanceRecord;
    typedef std::vector<DistanceRecord> Distances;
    It iter = s.begin() + row;
    {
        Distances distances;
        for (It a = s.begin(); a != s.end(); ++a) distances.push_back(std::make_pair(a, cb.distance(iter, a)));
        printf("O %d %d S :", k, row);
        if ((size_t)k + 1 <= distances.size())
        {
            std::nth_element(distances.begin(), distances.begin() + k + 1, distances.end(),
                             distances_comparator<DistanceRecord>());
            for (size_t j = 0; j < distances.size(); j++) printf(" %d", (int)(distances[j].first - s.begin()));
        }
        printf("\n");
    }
    {
        Distances distances;
        for (It a = s.begin(); a != s.end(); ++a)
            if (a != iter) distances.push_back(std::make_pair(a, cb.distance(iter, a)));
        printf("O %d %d R :", k, row);
        if ((size_t)k <= distances.size())
        {
            std::nth_element(distances.begin(), distances.begin() + k, distances.end(),
                             distances_comparator<DistanceRecord>());
            for (size_t j = 0; j < distances.size(); j++) printf(" %d", (int)(distances[j].first - s.begin()));
        }
        printf("\n");
    }
}

template <class Tree> static void dump_node(Tree& t, typename Tree::Node* n, It begin, std::vector<std::string>& out)
{
    if (n == NULL) return;
    char buf[128];
    snprintf(buf, sizeof buf, "n %d %a %d %d", (int)(t.items[n->index] - begin), n->threshold, n->left != NULL ? 1 : 0,
             n->right != NULL ? 1 : 0);
    out.push_back(buf);
    dump_node(t, n->left, begin, out);
    dump_node(t, n->right, begin, out);
}

template <class CB> static void cmd_tree(int k, unsigned long long seed, Samples& s, CB cb)
{
    g_rng_state = seed * 2654435761ULL + 12345;
    g_draws.clear();
    g_rng_extreme = seed % 16 == 0 ? 1 : seed % 16 == 1 ? 2 : 0;
    struct Reset { ~Reset() { g_rng_extreme = 0; } } reset_on_exit;
    VantagePointTree<It, CB> tree(s.begin(), s.end(), cb);
    g_rng_extreme = 0;
    std::vector<std::string> nodes;
    dump_node(tree, tree.root, s.begin(), nodes);
    printf("T %d %zu\n", k, nodes.size());
    printf("P");
    for (size_t i = 0; i < g_draws.size(); i++) printf(" %a", g_draws[i]);
    printf("\n");
    for (size_t i = 0; i < nodes.size(); i++) printf("%s\n", nodes[i].c_str());
    for (It i = s.begin(); i != s.end(); ++i)
    {
        std::vector<IndexType> r = tree.search(i, k);
        printf("s %d :", (int)(i - s.begin()));
        for (size_t j = 0; j < r.size(); j++) printf(" %d", (int)r[j]);
        printf("\n");
    }
}

template <class CB> static void cmd_cover(int k, Samples& s, CB cb)
{
    typedef CoverTreePoint<It> TreePoint;
    v_array<TreePoint> points;
    for (It iter = s.begin(); iter != s.end(); ++iter) push(points, TreePoint(iter, cb(iter, iter)));
    CoverTreeWrapper<TreePoint, CB> cover_tree;
    node<TreePoint> ct = cover_tree.batch_create(cb, points);
    v_array<v_array<TreePoint>> res;
    cover_tree.k_nearest_neighbor(cb, ct, ct, res, k);
    printf("Q %d %d\n", k, res.index);
    for (int i = 0; i < res.index; ++i)
    {
        printf("c %d :", (int)(res[i][0].iter_ - s.begin()));
        for (int j = 1; j < res[i].index; ++j) printf(" %d", (int)(res[i][j].iter_ - s.begin()));
        printf("\n");
    }
}

template <class TreePoint> static void dump_ct(const node<TreePoint>& n, It begin, std::vector<std::string>& out)
{
    char buf[160];
    snprintf(buf, sizeof buf, "t %d %a %a %d %d %zu", (int)(n.p.iter_ - begin), n.max_dist, n.parent_dist, (int)n.scale,
             (int)n.num_children, n.children.size());
    out.push_back(buf);
    for (int i = 0; i < (int)n.num_children && i < (int)n.children.size(); i++) dump_ct(n.children[i], begin, out);
}

// D: the cover tree exactly as find_neighbors_covertree_impl builds it, in preorder
template <class CB> static void cmd_dump_cover(Samples& s, CB cb)
{
    typedef CoverTreePoint<It> TreePoint;
    v_array<TreePoint> points;
    for (It iter = s.begin(); iter != s.end(); ++iter) push(points, TreePoint(iter, cb(iter, iter)));
    CoverTreeWrapper<TreePoint, CB> cover_tree;
    node<TreePoint> ct = cover_tree.batch_create(cb, points);
    std::vector<std::string> nodes;
    dump_ct(ct, s.begin(), nodes);
    printf("D %zu\n", nodes.size());
    for (size_t i = 0; i < nodes.size(); i++) printf("%s\n", nodes[i].c_str());
}

template <class CB> static void dispatch(const std::string& cmd, std::istringstream& is, Samples& s, CB cb)
{
    if (cmd == "F" || cmd == "G")
    {
        std::string m;
        int k;
        is >> m >> k;
        cmd_find(m.empty() ? 'B' : m[0], k, s, cb, cmd == "G");
    }
    else if (cmd == "E")
    {
        std::string m;
        int k;
        is >> m >> k;
        cmd_find_deque(m.empty() ? 'B' : m[0], k, s, cb.callback, typename CB::type());
    }
    else if (cmd == "W")
    {
        std::string m;
        int k;
        is >> m >> k;
        cmd_wrap(m.empty() ? 'B' : m[0], k, s, cb);
    }
    else if (cmd == "P")
    {
        cmd_table(s, cb);
    }
    else if (cmd == "O")
    {
        int k, row;
        is >> k >> row;
        if (row >= 0 && row < (int)s.size() && k >= 0) cmd_oracle(k, row, s, cb);
    }
    else if (cmd == "T")
    {
        int k;
        unsigned long long seed;
        is >> k >> seed;
        cmd_tree(k, seed, s, cb);
    }
    else if (cmd == "Q")
    {
        int k;
        is >> k;
        cmd_cover(k, s, cb);
    }
    else if (cmd == "D")
    {
        cmd_dump_cover(s, cb);
    }
}

int main()
{
    tapkee::Logging::instance().disable_info();
    tapkee::Logging::instance().disable_warning();
    g_logger = new CountingLogger;
    tapkee::Logging::instance().set_logger_impl(g_logger); // owned (and deleted) by the singleton
    std::string line;
    long ncase = 0;
    int N = 0;
    bool kernel = false;
    std::vector<std::vector<double>> M;
    Samples samples;
    while (std::getline(std::cin, line))
    {
        if (line.empty()) continue;
        std::istringstream is(line);
        std::string cmd;
        is >> cmd;
        if (cmd == "CASE")
        {
            std::string kind;
            is >> N >> kind;
            kernel = kind == "K" || kind == "KM";
            M.assign(N, std::vector<double>(N, 0.0));
            if (kind != "K")
            {
                for (int i = 0; i < N; i++)
                {
                    std::getline(std::cin, line);
                    std::istringstream rs(line);
                    for (int j = 0; j < N; j++)
                    {
                        std::string tok;
                        rs >> tok;
                        M[i][j] = strtod(tok.c_str(), NULL); // decimal integers or hex floats
                    }
                }
            }
            else
            {
                int dim = 0;
                is >> dim;
                std::vector<std::vector<long long>> X(N, std::vector<long long>(dim, 0));
                for (int i = 0; i < N; i++)
                {
                    std::getline(std::cin, line);
                    std::istringstream rs(line);
                    for (int j = 0; j < dim; j++) rs >> X[i][j];
                }
                for (int i = 0; i < N; i++)
                    for (int j = 0; j < N; j++)
                    {
                        long long acc = 0;
                        for (int t = 0; t < dim; t++) acc += X[i][t] * X[j][t];
                        M[i][j] = (double)acc;
                    }
            }
            samples.store.resize(N);
            samples.first = 0;
            samples.count = N;
            for (int i = 0; i < N; i++) samples.store[i] = i;
            g_ids = IdMap();
            g_ids.n = N;
            printf("C %ld\n", ncase++);
            fflush(stdout);
            continue;
        }
        if (cmd == "IDS")
        {
            long long pf = 0, pb = 0;
            is >> pf >> pb;
            std::vector<long long> ids;
            long long v;
            while (is >> v) ids.push_back(v);
            if (N > 0 && (int)ids.size() == N && pf >= 0 && pb >= 0 && pf + pb <= 64)
            {
                long long lo = ids[0], hi = ids[0];
                for (long long x : ids) { lo = std::min(lo, x); hi = std::max(hi, x); }
                if (hi - lo <= 64LL * N + 4096 && lo > -2000000000LL && hi < 2000000000LL)
                {
                    g_ids.identity = false;
                    g_ids.base = lo;
                    g_ids.table.assign((size_t)(hi - lo + 1), -1);
                    for (int i = 0; i < N; i++) g_ids.table[(size_t)(ids[i] - lo)] = i;
                    samples.store.assign((size_t)(pf + N + pb), (int)(lo - 7)); // poison: not an id of the range
                    for (int i = 0; i < N; i++) samples.store[(size_t)pf + i] = (int)ids[i];
                    samples.first = (size_t)pf;
                    samples.count = (size_t)N;
                }
            }
            continue;
        }
        if (cmd == "END")
        {
            printf("END\n");
            fflush(stdout);
            continue;
        }
        if (N <= 0) continue;
        try
        {
            if (kernel)
            {
                matrix_kernel_callback cb = {&M};
                dispatch(cmd, is, samples, KD(cb));
            }
            else
            {
                matrix_distance_callback cb = {&M};
                dispatch(cmd, is, samples, PD(cb));
            }
        }
        catch (const std::exception& e)
        {
            printf("X %s exception %s\n", cmd.c_str(), e.what());
        }
        fflush(stdout);
    }
    return 0;
}
