// C12 harness (2/2): tapkee::embed through the public API on explicit data (metamorphic pairs
// and call histories of checks/c12.py).  The stage driver is harness/c12.cpp.
//
// Input: two lines per command
//   EMB <id> m=<method> d=<int> k=<int> nm=<brute|vptree|covertree> em=<dense|randomized> N=<int> D=<int>
//        [width=<double>] [ts=<int>] [cc=<0|1>] [nshift=<double>] [kshift=<double>] [lr=] [maxit=]
//        [perp=] [theta=] [seed=<int>: srand + shuffle hook reseed before the call] [wd=<sec>]
//        [log=<mask>: enable (bit set) / disable the levels info=1 warning=2 debug=4 error=8 benchmark=16 of the
//         Logging singleton before the call; the setting persists; messages go to a counting sink]
//        (em / nm may be omitted: the library's default_eigen_method / default_neighbors_method objects decide)
//   X <N*D doubles, sample-major>
//        tapkee::embed with the eigen callbacks (linear kernel, euclidean distance, features)
//        -> R <id> OK E <rows> <cols> ... | R <id> EXC <name> | R <id> BADCASE <why>
//   NBR <id> nm=<brute|vptree|covertree> k=<int> cc=<0|1> kd=<0|1: kernel-induced distance> N=<int> D=<int>
//        [seed=<int>: srand before the call (VP-tree pivots)]
//   X <N*D doubles>
//        tapkee_internal::find_neighbors(method, begin, end, PlainDistance / KernelDistance, k, cc)
//        -> R <id> OK NB <N> <len_0> <entries..> <len_1> ... | R <id> EXC <name>
// Output (every line flushed):
//   C <id>       marker printed BEFORE the call (a crash / hang belongs to it)
//   R <id> ...   result
//   P <id> rand=<n> shuf=<n> msgs=<n> defs=<a>/<b>/<c>   after every EMB: draws of std::rand during the call (the
//                executable defines rand/srand itself and counts), hooked random_shuffle calls, log messages
//                delivered to the sink, names of the three default_* method objects
//   T <id>       the in-process watchdog fired; the process exits with code 7
// Doubles are printed with %a (exact, so that histories can be compared bitwise).
#include <cmath>
#include <csignal>
#include <cstdio>
#include <cstdlib>
#include <cstring>
#include <iostream>
#include <map>
#include <sstream>
#include <string>
#include <unistd.h>
#include <vector>

#include <tapkee/callbacks/eigen_callbacks.hpp>
#include <tapkee/exceptions.hpp>
#include <tapkee/tapkee.hpp>

using namespace tapkee;

static volatile long g_current_id = -1;

// ---- observation of the process-wide state that outlives a call (allow-list of Equiv_Spec.v) -------------
// (1) std::rand: the executable defines rand/srand itself (glibc's rand() IS random(); the sequence is the
//     stock one), so every draw of the library - all its consumers go through std::rand - is counted.
static unsigned long g_rand_calls = 0;
extern "C" int rand(void) noexcept
{
    ++g_rand_calls;
    return (int)random();
}
extern "C" void srand(unsigned int seed) noexcept
{
    srandom(seed);
}
// (2) the Logging singleton: a sink that counts what it is given (nothing is printed)
static unsigned long g_log_msgs = 0;
class CountingLogger : public LoggerImplementation
{
  public:
    CountingLogger()
    {
    }
    virtual ~CountingLogger()
    {
    }
    virtual void message_info(const std::string& m)
    {
        g_log_msgs += 1 + (m.size() & 0);
    }
    virtual void message_warning(const std::string& m)
    {
        g_log_msgs += 1 + (m.size() & 0);
    }
    virtual void message_debug(const std::string& m)
    {
        g_log_msgs += 1 + (m.size() & 0);
    }
    virtual void message_error(const std::string& m)
    {
        g_log_msgs += 1 + (m.size() & 0);
    }
    virtual void message_benchmark(const std::string& m)
    {
        g_log_msgs += 1 + (m.size() & 0);
    }
};
static void set_log_mask(int mask)
{
    Logging& l = Logging::instance();
    (mask & 1) ? l.enable_info() : l.disable_info();
    (mask & 2) ? l.enable_warning() : l.disable_warning();
    (mask & 4) ? l.enable_debug() : l.disable_debug();
    (mask & 8) ? l.enable_error() : l.disable_error();
    (mask & 16) ? l.enable_benchmark() : l.disable_benchmark();
}
static unsigned shuffle_calls()
{
#ifdef TAPKEE_VERIF_SHUFFLE_HOOK
    return tapkee::verif_shuffle().calls;
#else
    return 0;
#endif
}
// (3) the default_* method objects: their names, read after every call
static std::string default_names()
{
    std::string r = std::string(default_eigen_method.name()) + "/" + default_neighbors_method.name() + "/" +
                    default_computation_strategy.name();
    for (auto& c : r)
        if (c == ' ' || c == '\n' || c == '\t')
            c = '_';
    return r;
}

static void on_alarm(int)
{
    char buf[64];
    int n = snprintf(buf, sizeof buf, "T %ld\n", (long)g_current_id);
    if (write(1, buf, n) < 0)
    {
    }
    _exit(7);
}

static std::string hex(double x)
{
    char buf[64];
    if (std::isnan(x))
        return "nan";
    if (std::isinf(x))
        return x > 0 ? "inf" : "-inf";
    snprintf(buf, sizeof buf, "%a", x);
    return buf;
}

static void put_matrix(std::ostringstream& os, const char* tag, const DenseMatrix& M)
{
    os << tag << " " << M.rows() << " " << M.cols();
    for (Eigen::Index i = 0; i < M.rows(); i++)
        for (Eigen::Index j = 0; j < M.cols(); j++)
            os << " " << hex(M(i, j));
}

static bool get_doubles(std::istringstream& ss, long count, std::vector<double>& out)
{
    out.clear();
    std::string tok;
    for (long i = 0; i < count; i++)
    {
        if (!(ss >> tok))
            return false;
        char* end = nullptr;
        double v = strtod(tok.c_str(), &end);
        if (end == tok.c_str())
            return false;
        out.push_back(v);
    }
    return true;
}

static const DimensionReductionMethod* method_by_name(const std::string& s)
{
    static const std::map<std::string, const DimensionReductionMethod*> tbl = {
        {"klle", &KernelLocallyLinearEmbedding},
        {"npe", &NeighborhoodPreservingEmbedding},
        {"kltsa", &KernelLocalTangentSpaceAlignment},
        {"lltsa", &LinearLocalTangentSpaceAlignment},
        {"hlle", &HessianLocallyLinearEmbedding},
        {"la", &LaplacianEigenmaps},
        {"lpp", &LocalityPreservingProjections},
        {"dm", &DiffusionMap},
        {"isomap", &Isomap},
        {"lisomap", &LandmarkIsomap},
        {"mds", &MultidimensionalScaling},
        {"lmds", &LandmarkMultidimensionalScaling},
        {"spe", &StochasticProximityEmbedding},
        {"kpca", &KernelPrincipalComponentAnalysis},
        {"pca", &PrincipalComponentAnalysis},
        {"ra", &RandomProjection},
        {"fa", &FactorAnalysis},
        {"tsne", &tDistributedStochasticNeighborEmbedding},
        {"ms", &ManifoldSculpting},
        {"passthru", &PassThru},
    };
    auto it = tbl.find(s);
    return it == tbl.end() ? nullptr : it->second;
}

static void run_emb(long id, std::map<std::string, std::string>& kv, const std::string& xline)
{
    int N = atoi(kv["N"].c_str()), D = atoi(kv["D"].c_str());
    if (N <= 0 || D <= 0 || N > 100000 || D > 10000)
    {
        printf("R %ld BADCASE size\n", id);
        return;
    }
    DenseMatrix X(D, N);
    {
        std::istringstream ss(xline.size() > 1 ? xline.substr(1) : std::string());
        std::vector<double> v;
        if (!get_doubles(ss, (long)N * D, v))
        {
            printf("R %ld BADCASE data\n", id);
            return;
        }
        for (int i = 0; i < N; i++)
            for (int j = 0; j < D; j++)
                X(j, i) = v[(size_t)i * D + j];
    }
    const DimensionReductionMethod* m = method_by_name(kv["m"]);
    if (!m)
    {
        printf("R %ld BADCASE unknown-method\n", id);
        return;
    }
    ParametersSet ps;
    ps.add(method = *m);
    ps.add(target_dimension = (IndexType)atoi(kv["d"].c_str()));
    if (kv.count("k"))
        ps.add(num_neighbors = (IndexType)atoi(kv["k"].c_str()));
    const std::string nm = kv["nm"], em = kv["em"];
    if (nm == "brute")
        ps.add(neighbors_method = Brute);
    else if (nm == "vptree")
        ps.add(neighbors_method = VpTree);
    else if (nm == "covertree")
        ps.add(neighbors_method = CoverTree);
    if (em == "dense")
        ps.add(eigen_method = Dense);
    else if (em == "randomized")
        ps.add(eigen_method = Randomized);
    if (kv.count("width"))
        ps.add(gaussian_kernel_width = strtod(kv["width"].c_str(), nullptr));
    if (kv.count("ts"))
        ps.add(diffusion_map_timesteps = (IndexType)atoi(kv["ts"].c_str()));
    if (kv.count("cc"))
        ps.add(check_connectivity = (kv["cc"] == "1"));
    if (kv.count("nshift"))
        ps.add(nullspace_shift = strtod(kv["nshift"].c_str(), nullptr));
    if (kv.count("kshift"))
        ps.add(klle_shift = strtod(kv["kshift"].c_str(), nullptr));
    if (kv.count("lr"))
        ps.add(landmark_ratio = strtod(kv["lr"].c_str(), nullptr));
    if (kv.count("maxit"))
        ps.add(max_iteration = (IndexType)atoi(kv["maxit"].c_str()));
    if (kv.count("perp"))
        ps.add(sne_perplexity = strtod(kv["perp"].c_str(), nullptr));
    if (kv.count("theta"))
        ps.add(sne_theta = strtod(kv["theta"].c_str(), nullptr));
    if (kv.count("seed"))
    {
        unsigned seed = (unsigned)atol(kv["seed"].c_str());
        srand(seed);
#ifdef TAPKEE_VERIF_SHUFFLE_HOOK
        tapkee::verif_shuffle_reseed(seed);
#endif
    }
    int wd = kv.count("wd") ? atoi(kv["wd"].c_str()) : 20;
    if (kv.count("log"))
        set_log_mask(atoi(kv["log"].c_str()));
    const unsigned long rand0 = g_rand_calls, msgs0 = g_log_msgs;
    const unsigned shuf0 = shuffle_calls();
    struct probe_printer
    {
        long id;
        unsigned long rand0, msgs0;
        unsigned shuf0;
        ~probe_printer()
        {
            // P <id> rand=<draws of std::rand during the call> shuf=<hooked random_shuffle calls> msgs=<log messages>
            //        defs=<default eigen method>/<default neighbors method>/<default computation strategy>
            printf("P %ld rand=%lu shuf=%u msgs=%lu defs=%s\n", id, g_rand_calls - rand0, shuffle_calls() - shuf0,
                   g_log_msgs - msgs0, default_names().c_str());
        }
    } probe{id, rand0, msgs0, shuf0};

    std::vector<IndexType> idx(N);
    for (int i = 0; i < N; i++)
        idx[i] = i;
    eigen_kernel_callback kcb(X);
    eigen_distance_callback dcb(X);
    eigen_features_callback fcb(X);

    alarm(wd);
    try
    {
        TapkeeOutput out = embed(idx.begin(), idx.end(), kcb, dcb, fcb, ps);
        alarm(0);
        std::ostringstream os;
        os << "R " << id << " OK ";
        put_matrix(os, "E", out.embedding);
        puts(os.str().c_str());
    }
    catch (const tapkee::wrong_parameter_error&)
    {
        alarm(0);
        printf("R %ld EXC wrong_parameter_error\n", id);
    }
    catch (const tapkee::wrong_parameter_type_error&)
    {
        alarm(0);
        printf("R %ld EXC wrong_parameter_type_error\n", id);
    }
    catch (const tapkee::missed_parameter_error&)
    {
        alarm(0);
        printf("R %ld EXC missed_parameter_error\n", id);
    }
    catch (const tapkee::multiple_parameter_error&)
    {
        alarm(0);
        printf("R %ld EXC multiple_parameter_error\n", id);
    }
    catch (const tapkee::unsupported_method_error&)
    {
        alarm(0);
        printf("R %ld EXC unsupported_method_error\n", id);
    }
    catch (const tapkee::not_enough_memory_error&)
    {
        alarm(0);
        printf("R %ld EXC not_enough_memory_error\n", id);
    }
    catch (const tapkee::cancelled_exception&)
    {
        alarm(0);
        printf("R %ld EXC cancelled_exception\n", id);
    }
    catch (const tapkee::eigendecomposition_error&)
    {
        alarm(0);
        printf("R %ld EXC eigendecomposition_error\n", id);
    }
    catch (const tapkee::no_data_error&)
    {
        alarm(0);
        printf("R %ld EXC no_data_error\n", id);
    }
    catch (const std::exception& ex)
    {
        alarm(0);
        std::string w = ex.what();
        for (auto& c : w)
            if (c == '\n' || c == '\r')
                c = ' ';
        printf("R %ld EXC std::exception:%s\n", id, w.substr(0, 120).c_str());
    }
    catch (...)
    {
        alarm(0);
        printf("R %ld EXC unknown\n", id);
    }
}

static void run_nbr(long id, std::map<std::string, std::string>& kv, const std::string& xline)
{
    int N = atoi(kv["N"].c_str()), D = atoi(kv["D"].c_str()), k = atoi(kv["k"].c_str());
    if (N <= 0 || D <= 0 || N > 100000 || D > 10000 || k <= 0)
    {
        printf("R %ld BADCASE size\n", id);
        return;
    }
    DenseMatrix X(D, N);
    {
        std::istringstream ss(xline.size() > 1 ? xline.substr(1) : std::string());
        std::vector<double> v;
        if (!get_doubles(ss, (long)N * D, v))
        {
            printf("R %ld BADCASE data\n", id);
            return;
        }
        for (int i = 0; i < N; i++)
            for (int j = 0; j < D; j++)
                X(j, i) = v[(size_t)i * D + j];
    }
    const std::string nm = kv["nm"];
    NeighborsMethod method = nm == "vptree" ? VpTree : (nm == "covertree" ? CoverTree : Brute);
    bool cc = kv.count("cc") && kv["cc"] == "1";
    bool kd = kv.count("kd") && kv["kd"] == "1";
    typedef std::vector<IndexType>::iterator It;
    std::vector<IndexType> idx(N);
    for (int i = 0; i < N; i++)
        idx[i] = i;
    eigen_kernel_callback kcb(X);
    eigen_distance_callback dcb(X);
    if (kv.count("seed"))
    {
        // the VP-tree draws its pivots from std::rand: a seed fixes them (tied-data stream)
        srand((unsigned)atol(kv["seed"].c_str()));
    }
    alarm(kv.count("wd") ? atoi(kv["wd"].c_str()) : 20);
    try
    {
        tapkee_internal::Neighbors nb;
        if (kd)
            nb = tapkee_internal::find_neighbors(method, idx.begin(), idx.end(),
                                                 tapkee_internal::KernelDistance<It, eigen_kernel_callback>(kcb), k, cc);
        else
            nb = tapkee_internal::find_neighbors(method, idx.begin(), idx.end(),
                                                 tapkee_internal::PlainDistance<It, eigen_distance_callback>(dcb), k, cc);
        alarm(0);
        std::ostringstream os;
        os << "R " << id << " OK NB " << nb.size();
        for (size_t i = 0; i < nb.size(); i++)
        {
            os << " " << nb[i].size();
            for (size_t a = 0; a < nb[i].size(); a++)
                os << " " << nb[i][a];
        }
        puts(os.str().c_str());
    }
    catch (const std::exception& ex)
    {
        alarm(0);
        std::string w = ex.what();
        for (auto& c : w)
            if (c == '\n' || c == '\r')
                c = ' ';
        printf("R %ld EXC std::exception:%s\n", id, w.substr(0, 120).c_str());
    }
    catch (...)
    {
        alarm(0);
        printf("R %ld EXC unknown\n", id);
    }
}

int main()
{
    std::ios::sync_with_stdio(true);
    setvbuf(stdout, nullptr, _IOLBF, 0);
    signal(SIGALRM, on_alarm);
    Logging::instance().set_logger_impl(new CountingLogger);
    set_log_mask(0);

    std::string line;
    while (std::getline(std::cin, line))
    {
        std::istringstream ss(line);
        std::string cmd;
        long id = -1;
        if (!(ss >> cmd >> id))
            continue;
        g_current_id = id;
        if (cmd == "NBR")
        {
            std::map<std::string, std::string> kv;
            std::string tok;
            while (ss >> tok)
            {
                size_t e = tok.find('=');
                if (e != std::string::npos)
                    kv[tok.substr(0, e)] = tok.substr(e + 1);
            }
            std::string xline;
            if (!std::getline(std::cin, xline))
                break;
            printf("C %ld\n", id);
            fflush(stdout);
            run_nbr(id, kv, xline);
        }
        else if (cmd == "EMB")
        {
            std::map<std::string, std::string> kv;
            std::string tok;
            while (ss >> tok)
            {
                size_t e = tok.find('=');
                if (e != std::string::npos)
                    kv[tok.substr(0, e)] = tok.substr(e + 1);
            }
            std::string xline;
            if (!std::getline(std::cin, xline))
                break;
            printf("C %ld\n", id);
            fflush(stdout);
            run_emb(id, kv, xline);
        }
        else
        {
            printf("C %ld\nR %ld BADCASE unknown-command\n", id, id);
        }
        fflush(stdout);
    }
    return 0;
}
