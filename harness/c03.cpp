// c03.cpp — drives the real tapkee connectivity test, neighbour search recursion, geodesic
// matrix and Isomap on cases read from stdin (one case per line).  The source is untouched.
//
//   G <N> <k> <N*k ints>                     is_connected(begin, end, neighbors) on an explicit graph
//                                            (N lists of k entries each)
//        -> "R G <0|1>"
//   H <N> (<len> <len ints>)*               is_connected on an explicit graph whose lists have their own
//                                            lengths (arbitrary Neighbors; empty lists allowed)
//        -> "R G <0|1>"
//   X <method> <k> <dim> <N> <N*dim ints>    find_neighbors(..., k, true) AND the lists find_neighbors(..., k_j,
//                                            false) for every k_j = min(k*2^j, N-1) the recursion can ask for
//        -> "R X <N> <lists> T <n> (<k_j> <N> <lists>)*"   (lists as in F)
//   F <method> <cc> <k> <dim> <N> <N*dim ints>
//                                            find_neighbors(method, ..., k, cc) on integer points under
//                                            the L1 metric (dim 1 or 2); method 0 brute, 1 vptree, 2 covertree
//        -> "R F <N> <len_0> <entries of list 0> <len_1> <entries of list 1> ..."
//   D <method> <k> <dim> <N> <N*dim ints>    find_neighbors(..., check_connectivity = true), then
//                                            compute_shortest_distances_matrix on the result
//        -> "R D <len_0> <number of entries equal to DBL_MAX> <number of non-finite entries> <number of
//            DBL_MAX / non-finite entries of the landmark overload with landmarks 0,2,4,...>"
//   I <method> <k> <dim> <N> <N*dim ints>    tapkee Isomap (target dimension 1, check_connectivity default)
//        -> "R I ok <number of non-finite outputs>"  |  "R I exc <what>"
//        (only when built with -DC03_WITH_EMBED: tapkee.hpp takes minutes to compile, the other
//         commands need three light headers; without the define the answer is "R I not-built")
//
//   WF / WD / WX  <as F / D / X up to N> <e> <T> <id_0 .. id_{N-1}> <T*dim ints>
//                                            the same three commands over a NON-IDENTITY index range and a scaled
//                                            metric: the table holds T points, begin..end runs over the vector
//                                            (id_0, .., id_{N-1}) of ids into the table (any order, any offset,
//                                            ids need not be contiguous), the callback returns ldexp(L1, e).
//                                            Neighbour lists hold POSITIONS in begin..end, as with F.
//   P <N> <k> <shape> <rev>                  is_connected on a graph generated here from the four integers
//                                            (shape 0 path i -> i+1.., 1 cycle i -> i+1.. mod N, 2 two-way chain;
//                                            rev 1: the same graph with the samples numbered backwards), meant for
//                                            N ~ 10^6; run the driver with the argument --stack-kib 8192 to give the
//                                            process an explicit 8 MiB stack limit (setrlimit + re-exec)
//        -> "R P <0|1> <checksum of the lists>"
//
// A line "C <n>" is printed and flushed before each case so that an abort can be attributed.
#include <sys/resource.h>
#include <unistd.h>

#include <cmath>
#include <cstdio>
#include <cstdlib>
#include <iostream>
#include <limits>
#include <sstream>
#include <string>
#include <vector>

#ifdef C03_WITH_EMBED
#include <tapkee/tapkee.hpp>
#endif
#include <tapkee/defines.hpp>
#include <tapkee/neighbors/neighbors.hpp>
#include <tapkee/routines/isomap.hpp>

using namespace tapkee;
using namespace tapkee::tapkee_internal;

struct Points
{
    int dim;
    std::vector<long long> xs;
    int scale_exp = 0; // the metric is ldexp(L1, scale_exp): exact in binary64 for the ranges used
};

struct l1_distance_callback
{
    const Points* pts;
    l1_distance_callback(const Points* p) : pts(p) {}
    inline ScalarType distance(int a, int b) const
    {
        long long s = 0;
        for (int c = 0; c < pts->dim; c++)
            s += std::llabs(pts->xs[a * pts->dim + c] - pts->xs[b * pts->dim + c]);
        return pts->scale_exp == 0 ? (ScalarType)s : (ScalarType)std::ldexp((double)s, pts->scale_exp);
    }
};

typedef std::vector<int> Indices;
typedef PlainDistance<Indices::iterator, l1_distance_callback> Plain;

static NeighborsMethod method_of(int m)
{
    if (m == 1) return VpTree;
#ifdef TAPKEE_USE_LGPL_COVERTREE
    if (m == 2) return CoverTree;
#endif
    return Brute;
}

static bool read_points(std::istringstream& is, int dim, int N, Points& p)
{
    p.dim = dim;
    p.xs.resize((size_t)N * dim);
    for (size_t i = 0; i < p.xs.size(); i++)
        if (!(is >> p.xs[i])) return false;
    return true;
}

static void print_lists(const Neighbors& nb)
{
    printf(" %d", (int)nb.size());
    for (size_t i = 0; i < nb.size(); i++)
    {
        printf(" %d", (int)nb[i].size());
        for (size_t j = 0; j < nb[i].size(); j++) printf(" %d", (int)nb[i][j]);
    }
}

// the graphs of command P; checks/c03.py has the same generator (deep_rows) and compares the checksum
static int deep_entry(long long N, int k, int shape, long long i, int j)
{
    long long t;
    if (shape == 1)
        t = (i + j + 1) % N;
    else if (shape == 2)
    {
        long long lo = i == 0 ? 1 : i - 1, hi = i + 1 < N ? i + 1 : i - 1;
        t = j == 0 ? lo : hi;
    }
    else
    {
        t = i + j + 1;
        if (t >= N) t = i - (t - N + 1);
    }
    if (t < 0) t = 0;
    if (t >= N) t = N - 1;
    return (int)t;
}

static void handle_deep(std::istringstream& is)
{
    long long N;
    int k, shape, rev;
    is >> N >> k >> shape >> rev;
    if (is.fail() || N < 2 || N > 20000000 || k < 1 || k > 8) { printf("R P bad-input\n"); return; }
    Neighbors nb((size_t)N);
    unsigned long long sum = 0;
    const unsigned long long MOD = 2305843009213693951ULL;
    for (long long v = 0; v < N; v++)
    {
        // position v holds sample i = v (rev 0) or i = N-1-v (rev 1); entries are renamed the same way
        long long i = rev ? N - 1 - v : v;
        nb[v].reserve(k);
        for (int j = 0; j < k; j++)
        {
            long long t = deep_entry(N, k, shape, i, j);
            int e = (int)(rev ? N - 1 - t : t);
            nb[v].push_back(e);
            sum = (sum + ((unsigned long long)(v % 1000003) * 31 + j * 17 + 7) * ((unsigned long long)e + 1)) % MOD;
        }
    }
    Indices idx((size_t)N);
    for (long long i = 0; i < N; i++) idx[i] = (int)i;
    bool r = is_connected(idx.begin(), idx.end(), nb);
    printf("R P %d %llu\n", r ? 1 : 0, sum);
}

static void run_points(const std::string& cmd, int m, int cc, int k, int N, Points& pts, Indices& idx);

int main(int argc, char** argv)
{
    if (argc == 3 && std::string(argv[1]) == "--stack-kib")
    {
        // explicit stack limit for this process image: set it, then start again so that it is in force from exec
        struct rlimit rl;
        getrlimit(RLIMIT_STACK, &rl);
        rlim_t want = (rlim_t)atol(argv[2]) * 1024;
        if (rl.rlim_max != RLIM_INFINITY && want > rl.rlim_max) want = rl.rlim_max;
        rl.rlim_cur = want;
        if (setrlimit(RLIMIT_STACK, &rl) != 0) { perror("setrlimit"); return 97; }
        char* args[] = {argv[0], nullptr};
        execv("/proc/self/exe", args);
        perror("execv");
        return 98;
    }
    {
        struct rlimit rl;
        getrlimit(RLIMIT_STACK, &rl);
        if (rl.rlim_cur == RLIM_INFINITY) printf("L unlimited\n");
        else printf("L %llu\n", (unsigned long long)rl.rlim_cur);
    }
    Logging::instance().disable_info();
    Logging::instance().disable_warning();
    Logging::instance().disable_debug();
    Logging::instance().disable_error();
    Logging::instance().disable_benchmark();
    std::string line;
    long ncase = 0;
    while (std::getline(std::cin, line))
    {
        if (line.empty()) continue;
        std::istringstream is(line);
        std::string cmd;
        is >> cmd;
        printf("C %ld\n", ncase++);
        fflush(stdout);
        if (cmd == "G")
        {
            int N, k;
            is >> N >> k;
            Neighbors nb(N);
            bool ok = true;
            for (int i = 0; i < N && ok; i++)
                for (int j = 0; j < k; j++)
                {
                    int v;
                    if (!(is >> v)) { ok = false; break; }
                    nb[i].push_back(v);
                }
            if (!ok) { printf("R G bad-input\n"); continue; }
            Indices idx(N);
            for (int i = 0; i < N; i++) idx[i] = i;
            bool r = is_connected(idx.begin(), idx.end(), nb);
            printf("R G %d\n", r ? 1 : 0);
        }
        else if (cmd == "H")
        {
            int N;
            is >> N;
            bool ok = !is.fail() && N >= 0 && N < 100000;
            Neighbors nb(ok ? N : 0);
            for (int i = 0; i < N && ok; i++)
            {
                int len;
                if (!(is >> len) || len < 0 || len > 1000000) { ok = false; break; }
                for (int j = 0; j < len; j++)
                {
                    int v;
                    if (!(is >> v)) { ok = false; break; }
                    nb[i].push_back(v);
                }
            }
            if (!ok) { printf("R G bad-input\n"); continue; }
            Indices idx(N);
            for (int i = 0; i < N; i++) idx[i] = i;
            bool r = is_connected(idx.begin(), idx.end(), nb);
            printf("R G %d\n", r ? 1 : 0);
        }
        else if (cmd == "P")
            handle_deep(is);
        else if (cmd == "X" || cmd == "F" || cmd == "D" || cmd == "I" || cmd == "WX" || cmd == "WF" || cmd == "WD")
        {
            bool wide = cmd[0] == 'W';
            std::string base = wide ? cmd.substr(1) : cmd;
            int m, cc = 1, k, dim, N;
            is >> m;
            if (base == "F") is >> cc;
            is >> k >> dim >> N;
            if (is.fail() || N < 0 || N > 1000000 || dim < 1 || dim > 8)
            {
                printf("R %s bad-input\n", base.c_str());
                continue;
            }
            Points pts;
            Indices idx(N);
            bool ok = true;
            if (wide)
            {
                int e, T;
                is >> e >> T;
                ok = !is.fail() && T >= 0 && T <= 1000000 && e >= -300 && e <= 300;
                for (int i = 0; i < N && ok; i++)
                    if (!(is >> idx[i]) || idx[i] < 0 || idx[i] >= T) ok = false;
                ok = ok && read_points(is, dim, T, pts);
                pts.scale_exp = e;
            }
            else
            {
                for (int i = 0; i < N; i++) idx[i] = i;
                ok = read_points(is, dim, N, pts);
            }
            if (!ok) { printf("R %s bad-input\n", base.c_str()); continue; }
            run_points(base, m, cc, k, N, pts, idx);
        }
        else
            printf("R ? unknown-command\n");
        fflush(stdout);
    }
    return 0;
}

// find_neighbors / geodesic matrix / Isomap over the index range idx (values = ids into pts)
static void run_points(const std::string& cmd, int m, int cc, int k, int N, Points& pts, Indices& idx)
{
    l1_distance_callback dcb(&pts);
    if (cmd == "X")
    {
        Neighbors nb = find_neighbors(method_of(m), idx.begin(), idx.end(), Plain(dcb), k, true);
        printf("R X");
        print_lists(nb);
        std::vector<int> ks;
        int kj = k > N - 1 ? N - 1 : k;
        while (true)
        {
            ks.push_back(kj);
            if (kj >= N - 1 || kj <= 0 || ks.size() > 40) break;
            kj = 2 * kj > N - 1 ? N - 1 : 2 * kj;
        }
        printf(" T %d", (int)ks.size());
        for (size_t t = 0; t < ks.size(); t++)
        {
            Neighbors nt = find_neighbors(method_of(m), idx.begin(), idx.end(), Plain(dcb), ks[t], false);
            printf(" %d", ks[t]);
            print_lists(nt);
        }
        printf("\n");
        return;
    }
    if (cmd == "I")
    {
#ifndef C03_WITH_EMBED
        printf("R I not-built\n");
#else
        try
        {
            TapkeeOutput out = tapkee::with((method = Isomap, num_neighbors = k, target_dimension = 1,
                                             neighbors_method = method_of(m)))
                                   .withDistance(dcb)
                                   .embedUsing(idx);
            long bad = 0;
            for (int i = 0; i < out.embedding.rows(); i++)
                for (int j = 0; j < out.embedding.cols(); j++)
                    if (!std::isfinite(out.embedding(i, j))) bad++;
            printf("R I ok %ld\n", bad);
        }
        catch (const std::exception& ex)
        {
            std::string w = ex.what();
            for (size_t i = 0; i < w.size(); i++)
                if (w[i] == ' ' || w[i] == '\n') w[i] = '_';
            printf("R I exc %s\n", w.c_str());
        }
#endif
        return;
    }
    Neighbors nb = find_neighbors(method_of(m), idx.begin(), idx.end(), Plain(dcb), k, cc != 0);
    if (cmd == "F")
    {
        printf("R F");
        print_lists(nb);
        printf("\n");
        return;
    }
    DenseSymmetricMatrix sd = compute_shortest_distances_matrix(idx.begin(), idx.end(), nb, dcb);
    long inf = 0, nonfinite = 0;
    for (int i = 0; i < sd.rows(); i++)
        for (int j = 0; j < sd.cols(); j++)
        {
            if (sd(i, j) == std::numeric_limits<DenseMatrix::Scalar>::max()) inf++;
            if (!std::isfinite(sd(i, j))) nonfinite++;
        }
    Landmarks lm;
    for (int i = 0; i < N; i += 2) lm.push_back(i);
    DenseMatrix ld = compute_shortest_distances_matrix(idx.begin(), idx.end(), lm, nb, dcb);
    long linf = 0;
    for (int i = 0; i < ld.rows(); i++)
        for (int j = 0; j < ld.cols(); j++)
            if (ld(i, j) == std::numeric_limits<DenseMatrix::Scalar>::max() || !std::isfinite(ld(i, j))) linf++;
    printf("R D %d %ld %ld %ld\n", nb.empty() ? -1 : (int)nb[0].size(), inf, nonfinite, linf);
}
