// c03.cpp — drives the real tapkee connectivity test, neighbour search recursion, geodesic
// matrix and Isomap on cases read from stdin (one case per line).  The source is untouched.
//
//   G <N> <k> <N*k ints>                     is_connected(begin, end, neighbors) on an explicit graph
//                                            (N lists of k entries each)
//        -> "R G <0|1>"
//   H <N> (<len> <len ints>)*               is_connected on an explicit graph whose lists have their own
//                                            lengths (arbitrary Neighbors; empty lists allowed)
//        -> "R G <0|1>"
//   X <method> <k> <dim> <N> <N*dim ints>    find_neighbors(..., k, true) AND the lists find_neighbors(..., k_j,
//                                            false) for every k_j = min(k*2^j, N-1) the recursion can ask for
//        -> "R X <N> <lists> T <n> (<k_j> <N> <lists>)*"   (lists as in F)
//   F <method> <cc> <k> <dim> <N> <N*dim ints>
//                                            find_neighbors(method, ..., k, cc) on integer points under
//                                            the L1 metric (dim 1 or 2); method 0 brute, 1 vptree, 2 covertree
//        -> "R F <N> <len_0> <entries of list 0> <len_1> <entries of list 1> ..."
//   D <method> <k> <dim> <N> <N*dim ints>    find_neighbors(..., check_connectivity = true), then
//                                            compute_shortest_distances_matrix on the result
//        -> "R D <len_0> <number of entries equal to DBL_MAX> <number of non-finite entries> <number of
//            DBL_MAX / non-finite entries of the landmark overload with landmarks 0,2,4,...>"
//   I <method> <k> <dim> <N> <N*dim ints>    tapkee Isomap (target dimension 1, check_connectivity default)
//        -> "R I ok <number of non-finite outputs>"  |  "R I exc <what>"
//        (only when built with -DC03_WITH_EMBED: tapkee.hpp takes minutes to compile, the other
//         commands need three light headers; without the define the answer is "R I not-built")
//
// A line "C <n>" is printed and flushed before each case so that an abort can be attributed.
#include <cmath>
#include <cstdio>
#include <cstdlib>
#include <iostream>
#include <limits>
#include <sstream>
#include <string>
#include <vector>

#ifdef C03_WITH_EMBED
#include <tapkee/tapkee.hpp>
#endif
#include <tapkee/defines.hpp>
#include <tapkee/neighbors/neighbors.hpp>
#include <tapkee/routines/isomap.hpp>

using namespace tapkee;
using namespace tapkee::tapkee_internal;

struct Points
{
    int dim;
    std::vector<long long> xs;
};

struct l1_distance_callback
{
    const Points* pts;
    l1_distance_callback(const Points* p) : pts(p) {}
    inline ScalarType distance(int a, int b) const
    {
        long long s = 0;
        for (int c = 0; c < pts->dim; c++)
            s += std::llabs(pts->xs[a * pts->dim + c] - pts->xs[b * pts->dim + c]);
        return (ScalarType)s;
    }
};

typedef std::vector<int> Indices;
typedef PlainDistance<Indices::iterator, l1_distance_callback> Plain;

static NeighborsMethod method_of(int m)
{
    if (m == 1) return VpTree;
#ifdef TAPKEE_USE_LGPL_COVERTREE
    if (m == 2) return CoverTree;
#endif
    return Brute;
}

static bool read_points(std::istringstream& is, int dim, int N, Points& p)
{
    p.dim = dim;
    p.xs.resize((size_t)N * dim);
    for (size_t i = 0; i < p.xs.size(); i++)
        if (!(is >> p.xs[i])) return false;
    return true;
}

static void print_lists(const Neighbors& nb)
{
    printf(" %d", (int)nb.size());
    for (size_t i = 0; i < nb.size(); i++)
    {
        printf(" %d", (int)nb[i].size());
        for (size_t j = 0; j < nb[i].size(); j++) printf(" %d", (int)nb[i][j]);
    }
}

int main()
{
    Logging::instance().disable_info();
    Logging::instance().disable_warning();
    Logging::instance().disable_debug();
    Logging::instance().disable_error();
    Logging::instance().disable_benchmark();
    std::string line;
    long ncase = 0;
    while (std::getline(std::cin, line))
    {
        if (line.empty()) continue;
        std::istringstream is(line);
        std::string cmd;
        is >> cmd;
        printf("C %ld\n", ncase++);
        fflush(stdout);
        if (cmd == "G")
        {
            int N, k;
            is >> N >> k;
            Neighbors nb(N);
            bool ok = true;
            for (int i = 0; i < N && ok; i++)
                for (int j = 0; j < k; j++)
                {
                    int v;
                    if (!(is >> v)) { ok = false; break; }
                    nb[i].push_back(v);
                }
            if (!ok) { printf("R G bad-input\n"); continue; }
            Indices idx(N);
            for (int i = 0; i < N; i++) idx[i] = i;
            bool r = is_connected(idx.begin(), idx.end(), nb);
            printf("R G %d\n", r ? 1 : 0);
        }
        else if (cmd == "H")
        {
            int N;
            is >> N;
            bool ok = !is.fail() && N >= 0 && N < 100000;
            Neighbors nb(ok ? N : 0);
            for (int i = 0; i < N && ok; i++)
            {
                int len;
                if (!(is >> len) || len < 0 || len > 1000000) { ok = false; break; }
                for (int j = 0; j < len; j++)
                {
                    int v;
                    if (!(is >> v)) { ok = false; break; }
                    nb[i].push_back(v);
                }
            }
            if (!ok) { printf("R G bad-input\n"); continue; }
            Indices idx(N);
            for (int i = 0; i < N; i++) idx[i] = i;
            bool r = is_connected(idx.begin(), idx.end(), nb);
            printf("R G %d\n", r ? 1 : 0);
        }
        else if (cmd == "X")
        {
            int m, k, dim, N;
            is >> m >> k >> dim >> N;
            Points pts;
            if (is.fail() || !read_points(is, dim, N, pts)) { printf("R X bad-input\n"); continue; }
            Indices idx(N);
            for (int i = 0; i < N; i++) idx[i] = i;
            l1_distance_callback dcb(&pts);
            Neighbors nb = find_neighbors(method_of(m), idx.begin(), idx.end(), Plain(dcb), k, true);
            printf("R X");
            print_lists(nb);
            std::vector<int> ks;
            int kj = k > N - 1 ? N - 1 : k;
            while (true)
            {
                ks.push_back(kj);
                if (kj >= N - 1 || kj <= 0 || ks.size() > 40) break;
                kj = 2 * kj > N - 1 ? N - 1 : 2 * kj;
            }
            printf(" T %d", (int)ks.size());
            for (size_t t = 0; t < ks.size(); t++)
            {
                Neighbors nt = find_neighbors(method_of(m), idx.begin(), idx.end(), Plain(dcb), ks[t], false);
                printf(" %d", ks[t]);
                print_lists(nt);
            }
            printf("\n");
        }
        else if (cmd == "F" || cmd == "D" || cmd == "I")
        {
            int m, cc = 1, k, dim, N;
            is >> m;
            if (cmd == "F") is >> cc;
            is >> k >> dim >> N;
            Points pts;
            if (!read_points(is, dim, N, pts)) { printf("R %s bad-input\n", cmd.c_str()); continue; }
            Indices idx(N);
            for (int i = 0; i < N; i++) idx[i] = i;
            l1_distance_callback dcb(&pts);
            if (cmd == "I")
            {
#ifndef C03_WITH_EMBED
                printf("R I not-built\n");
#else
                try
                {
                    TapkeeOutput out = tapkee::with((method = Isomap, num_neighbors = k, target_dimension = 1,
                                                     neighbors_method = method_of(m)))
                                           .withDistance(dcb)
                                           .embedUsing(idx);
                    long bad = 0;
                    for (int i = 0; i < out.embedding.rows(); i++)
                        for (int j = 0; j < out.embedding.cols(); j++)
                            if (!std::isfinite(out.embedding(i, j))) bad++;
                    printf("R I ok %ld\n", bad);
                }
                catch (const std::exception& ex)
                {
                    std::string w = ex.what();
                    for (size_t i = 0; i < w.size(); i++)
                        if (w[i] == ' ' || w[i] == '\n') w[i] = '_';
                    printf("R I exc %s\n", w.c_str());
                }
#endif
                fflush(stdout);
                continue;
            }
            Neighbors nb = find_neighbors(method_of(m), idx.begin(), idx.end(), Plain(dcb), k, cc != 0);
            if (cmd == "F")
            {
                printf("R F");
                print_lists(nb);
                printf("\n");
            }
            else
            {
                DenseSymmetricMatrix sd = compute_shortest_distances_matrix(idx.begin(), idx.end(), nb, dcb);
                long inf = 0, nonfinite = 0;
                for (int i = 0; i < sd.rows(); i++)
                    for (int j = 0; j < sd.cols(); j++)
                    {
                        if (sd(i, j) == std::numeric_limits<DenseMatrix::Scalar>::max()) inf++;
                        if (!std::isfinite(sd(i, j))) nonfinite++;
                    }
                Landmarks lm;
                for (int i = 0; i < N; i += 2) lm.push_back(i);
                DenseMatrix ld = compute_shortest_distances_matrix(idx.begin(), idx.end(), lm, nb, dcb);
                long linf = 0;
                for (int i = 0; i < ld.rows(); i++)
                    for (int j = 0; j < ld.cols(); j++)
                        if (ld(i, j) == std::numeric_limits<DenseMatrix::Scalar>::max() || !std::isfinite(ld(i, j)))
                            linf++;
                printf("R D %d %ld %ld %ld\n", nb.empty() ? -1 : (int)nb[0].size(), inf, nonfinite, linf);
            }
        }
        else
            printf("R ? unknown-command\n");
        fflush(stdout);
    }
    return 0;
}
