// C01 harness: runs tapkee::embed through the public API on configurations read from stdin.
//
// Input, one case = two lines:
//   CASE id=<int> m=<method> nm=<brute|vptree|covertree> em=<dense|randomized|default> d=<int> k=<int>
//        N=<int> D=<int> seed=<int> wd=<seconds> [lr=<double>] [perp=<double>] [theta=<double>] [sq=<double>]
//        [maxit=<int>] [width=<double>] [ts=<int>] [speg=<0|1>] [spen=<int>] [spetol=<double>]
//        [fae=<double>] [cc=<0|1>] [nshift=<double>] [kshift=<double>]
//        [unset=<comma list of d,k,nm,em>]   keywords NOT passed (the library default is used)
//        [dump=1]    print the returned matrix (E line) and the projection deviation (P line)
//        [ix=<0|1|2>] the form of the index range handed to embed(): 0 = 0 .. N-1 over an N-column matrix;
//                    1 = N-1 .. 0 (sample i is column N-1-i); 2 = 1, 3, 5, .. over a matrix of 2N+3 columns whose
//                    other columns are far-away decoys (sample i is column 2i+1).  Row i of the result must
//                    describe the i-th element of the range in every form.
//        [stack=<KiB>]  the call is made on a thread whose stack has this size (serial mode only): recursion whose
//                    depth grows with N overflows it
//        [par=<T>]   the call is made from INSIDE an `omp parallel num_threads(T)` region of the
//                    application, once per thread (same request, private output)
//   X <N*D doubles, sample-major (sample 0 first)>
// Output (every line flushed):
//   C <id>                                 marker printed BEFORE the call (a crash/hang belongs to it)
//   NB <id> <l0> <l1> ... | NB <id> BAD <i> <j> <value>
//                                          lengths of the neighbour lists find_neighbors returns for this
//                                          request (only for methods that use neighbours, 3 <= k < N);
//                                          BAD = an entry that is not a sample index
//   R <id> OK <rows> <cols> <nonfinite> <rowtie>      returned matrix: shape, #non-finite entries,
//                                          rowtie = 1 if PassThru output equals the features / n.a. (1)
//   R <id> EXC <name>                      a documented tapkee exception type
//   R <id> UNDOC <what>                    any other exception (not documented -> violation)
//   Q <id> <t> <same payload as R>         par mode: the outcome seen by thread t >= 1 (R = thread 0)
//   E <id> <rows> <cols> <rows*cols hex doubles, row-major>   (only with dump=1, serial mode, before the R line)
//                                          the returned matrix itself: the Python side judges the clause
//                                          "row i describes input sample i" on it
//   P <id> <dev> <scale>                   (dump=1, methods that return a projecting function) dev = max_i
//                                          |embedding.row(i) - projection(sample i)|_inf, scale = max |entry|
//   T <id>                                 the in-process watchdog (alarm) fired: the call hangs
// The process exits after a T line (exit code 7); sanitizer / assertion aborts end it as well: the
// Python side attributes the failure to the last marker and restarts after that case.
#include <cmath>
#include <csignal>
#include <cstdio>
#include <cstdlib>
#include <cstring>
#include <iostream>
#include <map>
#include <omp.h>
#include <pthread.h>
#include <sstream>
#include <string>
#include <unistd.h>
#include <vector>

#include <tapkee/callbacks/eigen_callbacks.hpp>
#include <tapkee/exceptions.hpp>
#include <tapkee/tapkee.hpp>

using namespace tapkee;

// the container of the index range handed to embed(): a vector, or (build with -DC01_RANGE_DEQUE) a std::deque filled
// from both ends so that its elements lie in two separately allocated blocks: a random-access range that is NOT
// contiguous in memory (pointer arithmetic on &*begin leaves the block)
#ifdef C01_RANGE_DEQUE
#include <deque>
typedef std::deque<IndexType> Range;
#else
typedef std::vector<IndexType> Range;
#endif

static volatile long g_current_id = -1;

static void on_alarm(int)
{
    char buf[64];
    int n = snprintf(buf, sizeof buf, "T %ld\n", (long)g_current_id);
    if (write(1, buf, n) < 0)
    {
    }
    _exit(7);
}

static const DimensionReductionMethod* method_by_name(const std::string& s)
{
    static const std::map<std::string, const DimensionReductionMethod*> tbl = {
        {"klle", &KernelLocallyLinearEmbedding},
        {"npe", &NeighborhoodPreservingEmbedding},
        {"kltsa", &KernelLocalTangentSpaceAlignment},
        {"lltsa", &LinearLocalTangentSpaceAlignment},
        {"hlle", &HessianLocallyLinearEmbedding},
        {"la", &LaplacianEigenmaps},
        {"lpp", &LocalityPreservingProjections},
        {"dm", &DiffusionMap},
        {"isomap", &Isomap},
        {"lisomap", &LandmarkIsomap},
        {"mds", &MultidimensionalScaling},
        {"lmds", &LandmarkMultidimensionalScaling},
        {"spe", &StochasticProximityEmbedding},
        {"kpca", &KernelPrincipalComponentAnalysis},
        {"pca", &PrincipalComponentAnalysis},
        {"ra", &RandomProjection},
        {"fa", &FactorAnalysis},
        {"tsne", &tDistributedStochasticNeighborEmbedding},
        {"ms", &ManifoldSculpting},
        {"passthru", &PassThru},
    };
    auto it = tbl.find(s);
    return it == tbl.end() ? nullptr : it->second;
}

// one call of tapkee::embed; the outcome as the payload of an R line
static std::string call_embed(Range& idx, eigen_kernel_callback& kcb, eigen_distance_callback& dcb,
                              eigen_features_callback& fcb, const ParametersSet& ps,
                              const DimensionReductionMethod& m, const DenseMatrix& X, int N, int D,
                              std::string* extra = nullptr, long id = 0)
{
    char buf[256];
    try
    {
        TapkeeOutput out = embed(idx.begin(), idx.end(), kcb, dcb, fcb, ps);
        long nonfinite = 0;
        const DenseMatrix& E = out.embedding;
        for (Eigen::Index i = 0; i < E.rows(); i++)
            for (Eigen::Index j = 0; j < E.cols(); j++)
                if (!std::isfinite(E(i, j)))
                    nonfinite++;
        int rowtie = 1;
        if (m == PassThru)
        {
            if (E.rows() != N || E.cols() != D)
                rowtie = 0;
            else
                for (int i = 0; i < N && rowtie; i++)
                    for (int j = 0; j < D; j++)
                        if (!(E(i, j) == X(j, idx[i])))
                        {
                            rowtie = 0;
                            break;
                        }
        }
        if (extra && E.rows() * E.cols() <= 40000)
        {
            std::string& x = *extra;
            snprintf(buf, sizeof buf, "E %ld %ld %ld", id, (long)E.rows(), (long)E.cols());
            x += buf;
            for (Eigen::Index i = 0; i < E.rows(); i++)
                for (Eigen::Index j = 0; j < E.cols(); j++)
                {
                    snprintf(buf, sizeof buf, " %a", (double)E(i, j));
                    x += buf;
                }
            x += "\n";
            if (out.projection.implementation && E.rows() == N)
            {
                double dev = 0.0, scale = 0.0;
                bool bad = false;
                for (int i = 0; i < N && !bad; i++)
                {
                    DenseVector v = out.projection(DenseVector(X.col(idx[i])));
                    if (v.size() != E.cols())
                    {
                        bad = true;
                        break;
                    }
                    for (Eigen::Index j = 0; j < E.cols(); j++)
                    {
                        const double a = std::fabs((double)v(j) - (double)E(i, j));
                        if (!(a <= dev))
                            dev = a;       // NaN sticks
                        if (std::fabs((double)E(i, j)) > scale)
                            scale = std::fabs((double)E(i, j));
                    }
                }
                if (bad)
                    snprintf(buf, sizeof buf, "P %ld BADLEN 0\n", id);
                else
                    snprintf(buf, sizeof buf, "P %ld %a %a\n", id, dev, scale);
                x += buf;
            }
        }
        snprintf(buf, sizeof buf, "OK %ld %ld %ld %d", (long)E.rows(), (long)E.cols(), nonfinite, rowtie);
        return buf;
    }
    catch (const tapkee::wrong_parameter_error&)
    {
        return "EXC wrong_parameter_error";
    }
    catch (const tapkee::wrong_parameter_type_error&)
    {
        return "EXC wrong_parameter_type_error";
    }
    catch (const tapkee::missed_parameter_error&)
    {
        return "EXC missed_parameter_error";
    }
    catch (const tapkee::multiple_parameter_error&)
    {
        return "EXC multiple_parameter_error";
    }
    catch (const tapkee::unsupported_method_error&)
    {
        return "EXC unsupported_method_error";
    }
    catch (const tapkee::not_enough_memory_error&)
    {
        return "EXC not_enough_memory_error";
    }
    catch (const tapkee::cancelled_exception&)
    {
        return "EXC cancelled_exception";
    }
    catch (const tapkee::eigendecomposition_error&)
    {
        return "EXC eigendecomposition_error";
    }
    catch (const tapkee::no_data_error&)
    {
        return "EXC no_data_error";
    }
    catch (const std::exception& ex)
    {
        std::string w = ex.what();
        for (auto& c : w)
            if (c == '\n' || c == '\r')
                c = ' ';
        return "UNDOC std::exception:" + w.substr(0, 200);
    }
    catch (...)
    {
        return "UNDOC unknown";
    }
}

struct small_stack_args
{
    Range* idx;
    eigen_kernel_callback* kcb;
    eigen_distance_callback* dcb;
    eigen_features_callback* fcb;
    const ParametersSet* ps;
    const DimensionReductionMethod* m;
    const DenseMatrix* X;
    int N, D;
    std::string result;
};

static void* small_stack_main(void* p)
{
    small_stack_args* a = static_cast<small_stack_args*>(p);
    a->result = call_embed(*a->idx, *a->kcb, *a->dcb, *a->fcb, *a->ps, *a->m, *a->X, a->N, a->D);
    return nullptr;
}

int main()
{
    std::ios::sync_with_stdio(true);
    setvbuf(stdout, nullptr, _IOLBF, 0);
    signal(SIGALRM, on_alarm);
    Logging::instance().disable_info();
    Logging::instance().disable_warning();
    Logging::instance().disable_error();
    Logging::instance().disable_benchmark();
    Logging::instance().disable_debug();

    std::string line;
    while (std::getline(std::cin, line))
    {
        if (line.rfind("CASE", 0) != 0)
            continue;
        std::map<std::string, std::string> kv;
        {
            std::istringstream ss(line.substr(4));
            std::string tok;
            while (ss >> tok)
            {
                size_t e = tok.find('=');
                if (e != std::string::npos)
                    kv[tok.substr(0, e)] = tok.substr(e + 1);
            }
        }
        std::string xline;
        if (!std::getline(std::cin, xline))
            break;
        long id = atol(kv["id"].c_str());
        int N = atoi(kv["N"].c_str()), D = atoi(kv["D"].c_str());
        const int ix = kv.count("ix") ? atoi(kv["ix"].c_str()) : 0;
        const int ncols = ix == 2 ? 2 * N + 3 : N;
        Range idx;
        {
            std::vector<IndexType> vals(N > 0 ? N : 0);
            for (int i = 0; i < N; i++)
                vals[i] = ix == 1 ? N - 1 - i : (ix == 2 ? 2 * i + 1 : i);
            for (int i = N / 2; i < N; i++)
                idx.push_back(vals[i]);
            for (int i = N / 2 - 1; i >= 0; i--)
                idx.insert(idx.begin(), vals[i]);       // a deque grows a new block at the front
        }
        DenseMatrix X(D, ncols);
        for (int c = 0; c < ncols; c++)
            for (int j = 0; j < D; j++)
                X(j, c) = 1.0e3 * (c + 1) + 7.0 * j;       // decoy columns (ix=2): finite, far from every sample
        {
            std::istringstream ss(xline.size() > 1 ? xline.substr(1) : std::string());
            for (int i = 0; i < N; i++)
                for (int j = 0; j < D; j++)
                {
                    std::string tok;
                    ss >> tok;
                    X(j, idx[i]) = strtod(tok.c_str(), nullptr);
                }
        }
        const DimensionReductionMethod* m = method_by_name(kv["m"]);
        if (!m)
        {
            printf("C %ld\nR %ld BADCASE unknown-method\n", id, id);
            continue;
        }
        const std::string unset = "," + (kv.count("unset") ? kv["unset"] : std::string()) + ",";
        const bool unset_d = unset.find(",d,") != std::string::npos, unset_k = unset.find(",k,") != std::string::npos;
        const bool unset_nm = unset.find(",nm,") != std::string::npos;
        ParametersSet ps;
        ps.add(method = *m);
        if (!unset_d)
            ps.add(target_dimension = (IndexType)atoi(kv["d"].c_str()));
        if (!unset_k)
            ps.add(num_neighbors = (IndexType)atoi(kv["k"].c_str()));
        const std::string nm = kv["nm"], em = unset.find(",em,") != std::string::npos ? std::string("default") : kv["em"];
        if (unset_nm)
        {
        }
        else if (nm == "brute")
            ps.add(neighbors_method = Brute);
        else if (nm == "vptree")
            ps.add(neighbors_method = VpTree);
        else if (nm == "covertree")
            ps.add(neighbors_method = CoverTree);
        if (em == "dense")
            ps.add(eigen_method = Dense);
        else if (em == "randomized")
            ps.add(eigen_method = Randomized);
        if (kv.count("lr"))
            ps.add(landmark_ratio = strtod(kv["lr"].c_str(), nullptr));
        if (kv.count("perp"))
            ps.add(sne_perplexity = strtod(kv["perp"].c_str(), nullptr));
        if (kv.count("theta"))
            ps.add(sne_theta = strtod(kv["theta"].c_str(), nullptr));
        if (kv.count("sq"))
            ps.add(squishing_rate = strtod(kv["sq"].c_str(), nullptr));
        if (kv.count("maxit"))
            ps.add(max_iteration = (IndexType)atoi(kv["maxit"].c_str()));
        if (kv.count("width"))
            ps.add(gaussian_kernel_width = strtod(kv["width"].c_str(), nullptr));
        if (kv.count("ts"))
            ps.add(diffusion_map_timesteps = (IndexType)atoi(kv["ts"].c_str()));
        if (kv.count("speg"))
            ps.add(spe_global_strategy = (kv["speg"] == "1"));
        if (kv.count("spen"))
            ps.add(spe_num_updates = (IndexType)atoi(kv["spen"].c_str()));
        if (kv.count("spetol"))
            ps.add(spe_tolerance = strtod(kv["spetol"].c_str(), nullptr));
        if (kv.count("fae"))
            ps.add(fa_epsilon = strtod(kv["fae"].c_str(), nullptr));
        if (kv.count("cc"))
            ps.add(check_connectivity = (kv["cc"] == "1"));
        if (kv.count("nshift"))
            ps.add(nullspace_shift = strtod(kv["nshift"].c_str(), nullptr));
        if (kv.count("kshift"))
            ps.add(klle_shift = strtod(kv["kshift"].c_str(), nullptr));

        unsigned seed = (unsigned)atol(kv["seed"].c_str());
        srand(seed);
#ifdef TAPKEE_VERIF_SHUFFLE_HOOK
        tapkee::verif_shuffle_reseed(seed);
#endif
        int wd = kv.count("wd") ? atoi(kv["wd"].c_str()) : 15;

        eigen_kernel_callback kcb(X);
        eigen_distance_callback dcb(X);
        eigen_features_callback fcb(X);

        g_current_id = id;
        printf("C %ld\n", id);
        fflush(stdout);
        alarm(wd);
        try
        {
            // the neighbour lists the method is going to use (input of the Coq index-obligation model)
            const int kk = atoi(kv["k"].c_str());
            const bool kernel_nb = (kv["m"] == "klle" || kv["m"] == "npe" || kv["m"] == "kltsa" ||
                                    kv["m"] == "lltsa" || kv["m"] == "hlle");
            const bool plain_nb = (kv["m"] == "la" || kv["m"] == "lpp" || kv["m"] == "isomap" ||
                                   kv["m"] == "lisomap" || kv["m"] == "ms" ||
                                   (kv["m"] == "spe" && kv.count("speg") && kv["speg"] == "0"));
            if ((kernel_nb || plain_nb) && kk >= 3 && kk < N && kv.count("nbdump"))
            try
            {
                typedef Range::iterator It;
                const bool cc = kv.count("cc") ? (kv["cc"] == "1") : true;
                const NeighborsMethod nmeth = nm == "brute" ? Brute : (nm == "vptree" ? VpTree : CoverTree);
                tapkee_internal::Neighbors nbs;
                if (kernel_nb)
                    nbs = tapkee_internal::find_neighbors(
                        nmeth, idx.begin(), idx.end(),
                        tapkee_internal::KernelDistance<It, eigen_kernel_callback>(kcb), (IndexType)kk, cc);
                else
                    nbs = tapkee_internal::find_neighbors(
                        nmeth, idx.begin(), idx.end(),
                        tapkee_internal::PlainDistance<It, eigen_distance_callback>(dcb), (IndexType)kk, cc);
                bool bad = false;
                for (size_t i = 0; i < nbs.size() && !bad; i++)
                    for (size_t j = 0; j < nbs[i].size(); j++)
                        if (nbs[i][j] < 0 || nbs[i][j] >= N)
                        {
                            printf("NB %ld BAD %zu %zu %d\n", id, i, j, (int)nbs[i][j]);
                            bad = true;
                            break;
                        }
                if (!bad)
                {
                    printf("NB %ld", id);
                    for (size_t i = 0; i < nbs.size(); i++)
                        printf(" %zu", nbs[i].size());
                    printf("\n");
                }
                fflush(stdout);
            }
            catch (...)
            {
                // find_neighbors itself threw: no NB line, embed() below reports the same exception
            }
            const int par = kv.count("par") ? atoi(kv["par"].c_str()) : 0;
            const long stack_kib = kv.count("stack") ? atol(kv["stack"].c_str()) : 0;
            if (par <= 0 && stack_kib > 0)
            {
                small_stack_args a = {&idx, &kcb, &dcb, &fcb, &ps, m, &X, N, D, std::string()};
                pthread_attr_t attr;
                pthread_attr_init(&attr);
                pthread_attr_setstacksize(&attr, (size_t)stack_kib * 1024);
                pthread_t th;
                if (pthread_create(&th, &attr, small_stack_main, &a) != 0)
                    a.result = "BADCASE pthread_create";
                else
                    pthread_join(th, nullptr);
                pthread_attr_destroy(&attr);
                alarm(0);
                printf("R %ld %s\n", id, a.result.c_str());
            }
            else if (par <= 0)
            {
                std::string extra;
                std::string r = call_embed(idx, kcb, dcb, fcb, ps, *m, X, N, D, kv.count("dump") ? &extra : nullptr, id);
                alarm(0);
                fputs(extra.c_str(), stdout);
                printf("R %ld %s\n", id, r.c_str());
            }
            else
            {
                // the application embeds the same data set once per thread of its own parallel region
                std::vector<std::string> rs(par);
                omp_set_dynamic(0);
#pragma omp parallel num_threads(par)
                {
                    const int t = omp_get_thread_num();
                    Range my_idx(idx);
                    std::string r = call_embed(my_idx, kcb, dcb, fcb, ps, *m, X, N, D);
                    if (t < par)
                        rs[t] = r;
                }
                alarm(0);
                printf("R %ld %s\n", id, rs[0].empty() ? "BADCASE no-thread-0" : rs[0].c_str());
                for (int t = 1; t < par; t++)
                    if (!rs[t].empty())
                        printf("Q %ld %d %s\n", id, t, rs[t].c_str());
            }
        }
        catch (const std::exception& ex)
        {
            alarm(0);
            std::string w = ex.what();
            for (auto& c : w)
                if (c == '\n' || c == '\r')
                    c = ' ';
            printf("R %ld UNDOC find_neighbors-dump:%s\n", id, w.substr(0, 200).c_str());
        }
        catch (...)
        {
            alarm(0);
            printf("R %ld UNDOC unknown\n", id);
        }
        fflush(stdout);
    }
    return 0;
}
