// c03_api.cpp — property C03 through the PUBLIC API only (tapkee::with(...).withDistance(...).embedUsing(...)):
// Isomap and Landmark Isomap with check_connectivity on must return finite coordinates and must not throw,
// whatever the consumers of the neighbour lists look like inside.  No internal routine is named here, so this
// driver keeps compiling when internal signatures change.
//
//   A <method> <nm> <k> <dim> <N> <N*dim ints>
//        method 0 Isomap, 1 Landmark Isomap (landmark_ratio 1); nm 0 brute, 1 vptree, 2 covertree;
//        integer points under the L1 metric (dim 1 or 2); target dimension 1; dense eigensolver
//        -> "R A ok <number of non-finite coordinates>"  |  "R A exc <what>"
//   AW <method> <nm> <k> <dim> <N> <e> <T> <id_0 .. id_{N-1}> <T*dim ints>
//        the same call over a NON-IDENTITY index range: the table holds T points, embedUsing gets the vector
//        (id_0, .., id_{N-1}) of ids into the table (any order, any offset); the callback returns ldexp(L1, e)
//        -> as A
//
// A line "C <n>" is printed and flushed before each case so that an abort can be attributed.
#include <tapkee/tapkee.hpp>

#include <cmath>
#include <cstdio>
#include <cstdlib>
#include <iostream>
#include <sstream>
#include <string>
#include <vector>

using namespace tapkee;

struct Points
{
    int dim;
    std::vector<long long> xs;
    int scale_exp = 0;
};

struct l1_distance_callback
{
    const Points* pts;
    ScalarType distance(IndexType a, IndexType b) const
    {
        long long s = 0;
        for (int c = 0; c < pts->dim; c++)
            s += std::llabs(pts->xs[a * pts->dim + c] - pts->xs[b * pts->dim + c]);
        return pts->scale_exp == 0 ? (ScalarType)s : (ScalarType)std::ldexp((double)s, pts->scale_exp);
    }
};

static NeighborsMethod nm_of(int m)
{
    if (m == 1) return VpTree;
#ifdef TAPKEE_USE_LGPL_COVERTREE
    if (m == 2) return CoverTree;
#endif
    return Brute;
}

int main()
{
    Logging::instance().disable_info();
    Logging::instance().disable_warning();
    Logging::instance().disable_debug();
    Logging::instance().disable_error();
    Logging::instance().disable_benchmark();
    std::string line;
    long ncase = 0;
    while (std::getline(std::cin, line))
    {
        if (line.empty()) continue;
        std::istringstream is(line);
        std::string cmd;
        is >> cmd;
        printf("C %ld\n", ncase++);
        fflush(stdout);
        if (cmd != "A" && cmd != "AW") { printf("R ? unknown-command\n"); fflush(stdout); continue; }
        int m, nm, k, dim, N, e = 0, T = 0;
        is >> m >> nm >> k >> dim >> N;
        Points pts;
        pts.dim = dim;
        bool ok = !is.fail() && dim >= 1 && dim <= 8 && N >= 0 && N < 100000;
        std::vector<IndexType> idx(ok ? N : 0);
        if (ok && cmd == "AW")
        {
            is >> e >> T;
            ok = !is.fail() && T >= 0 && T < 200000 && e >= -300 && e <= 300;
            for (int i = 0; i < N && ok; i++)
                if (!(is >> idx[i]) || idx[i] < 0 || idx[i] >= T) ok = false;
        }
        else if (ok)
        {
            T = N;
            for (int i = 0; i < N; i++) idx[i] = i;
        }
        if (ok)
        {
            pts.scale_exp = e;
            pts.xs.resize((size_t)T * dim);
            for (size_t i = 0; i < pts.xs.size() && ok; i++)
                if (!(is >> pts.xs[i])) ok = false;
        }
        if (!ok) { printf("R A bad-input\n"); fflush(stdout); continue; }
        l1_distance_callback dcb{&pts};
        try
        {
            TapkeeOutput out =
                m == 1 ? tapkee::with((method = LandmarkIsomap, num_neighbors = static_cast<IndexType>(k),
                                       target_dimension = static_cast<IndexType>(1), check_connectivity = true,
                                       landmark_ratio = 1.0, neighbors_method = nm_of(nm), eigen_method = Dense))
                             .withDistance(dcb)
                             .embedUsing(idx)
                       : tapkee::with((method = Isomap, num_neighbors = static_cast<IndexType>(k),
                                       target_dimension = static_cast<IndexType>(1), check_connectivity = true,
                                       neighbors_method = nm_of(nm), eigen_method = Dense))
                             .withDistance(dcb)
                             .embedUsing(idx);
            long bad = 0;
            for (int i = 0; i < out.embedding.rows(); i++)
                for (int j = 0; j < out.embedding.cols(); j++)
                    if (!std::isfinite(out.embedding(i, j))) bad++;
            if (out.embedding.rows() != N) bad += 1000000;
            printf("R A ok %ld\n", bad);
        }
        catch (const std::exception& ex)
        {
            std::string w = ex.what();
            for (size_t i = 0; i < w.size(); i++)
                if (w[i] == ' ' || w[i] == '\n') w[i] = '_';
            printf("R A exc %s\n", w.c_str());
        }
        fflush(stdout);
    }
    return 0;
}
