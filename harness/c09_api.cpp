// c09_api.cpp — PUBLIC-API driver for property C09 (Laplacian Eigenmaps / Diffusion Map).
//
// Everything the library does for the two methods is reached through tapkee::with(...).withDistance(...)
// .embedUsing(...) ONLY (dispatcher, parameter checks, neighbour search with its connectivity fallback, the
// routines, the solver front-ends, the post-processing of embed()).  No internal routine of the two methods
// is called, so this driver keeps compiling when their internal signatures change; it is the end-to-end
// stream of the quick and thorough tiers and the search phase when harness/c09.cpp (internal routines) no
// longer builds.
//
// One case per stdin line, whitespace separated; doubles are C hex floats.
//   LE   id n k d width emethod cc nmethod  <n*n distances>
//        reference: the neighbour lists that tapkee_internal::find_neighbors(nmethod, ..., k, cc) REALLY
//        returns for this input (called here, twice, to detect a non-deterministic search); with
//        check_connectivity they may be LONGER than the requested k.  W = A + A^T over the FULL lists,
//        D = W 1, L = D - W, independent dense generalised solver (Eigen).
//        -> @NB (lists) @KEFF (length of the first list) @NBDET (both calls agree) @CONN @LREF @DREF @LAMREF
//           @VREF @ORACLE, then @Y or @EXC from the public API
//   DMAP id n d t width emethod seed  <n*n distances>
//        reference: own K, p, q, M; Eigen self-adjoint solver -> @MREF @EVAL @EVEC @ORACLE, then @Y (timesteps t)
//        and @Y2 (timesteps t + 1, same seed): Y2_c = lambda_c * Y_c fixes the SIGN of lambda_c^t, which a
//        single run cannot show because the sign of psi_c is free.
//   emethod: 0 = Dense, 1 = Randomized, 2 = DEFAULTS MODE: eigen_method, neighbors_method and check_connectivity are
//            left UNSET, and so is every keyword whose requested value equals the documented library default
//            (num_neighbors 5, target_dimension 2, gaussian_kernel_width 1.0, diffusion_map_timesteps 3); the
//            reference then uses the documented defaults (CoverTree search under TAPKEE_USE_LGPL_COVERTREE, else
//            Brute; check_connectivity = true; dense solver): leaving a default unset must behave as setting it.
//   nmethod: 0 = Brute, 1 = VpTree, 2 = CoverTree
//   Both methods are run once more from INSIDE an application-style `#pragma omp parallel num_threads(2)` region (the
//   call is made by thread 0 while the other thread of the team waits): -> @Y3 (or @EXC3).  Whatever OpenMP
//   constructs the library uses (own parallel regions, nested or not, limited by OMP_THREAD_LIMIT), the result must
//   be the embedding of the plain call (bitwise for the deterministic dense path).
// stdout: every line the check reads starts with '@'; "@C id" is flushed before a case, "@END id" after it.
#include <cmath>
#include <cstdio>
#include <cstdlib>
#include <iostream>
#include <sstream>
#include <string>
#include <vector>
#include <algorithm>
#include <omp.h>
#include <tapkee/tapkee.hpp>

using namespace tapkee;

struct matrix_distance_callback
{
    const DenseMatrix* dm;
    ScalarType distance(IndexType a, IndexType b) const
    {
        return (*dm)(a, b);
    }
};

static void print_mat(const char* tag, const DenseMatrix& m)
{
    printf("@%s %d %d", tag, (int)m.rows(), (int)m.cols());
    for (int i = 0; i < m.rows(); i++)
        for (int j = 0; j < m.cols(); j++)
            printf(" %a", (double)m(i, j));
    printf("\n");
}

static bool read_mat(std::istringstream& is, int n, DenseMatrix& m)
{
    m.resize(n, n);
    std::string tok;
    for (int i = 0; i < n; i++)
        for (int j = 0; j < n; j++)
        {
            if (!(is >> tok)) return false;
            m(i, j) = strtod(tok.c_str(), NULL);
        }
    return true;
}

static bool undirected_connected(const std::vector<std::vector<int>>& nb)
{
    const int n = nb.size();
    if (n == 0) return true;
    std::vector<std::vector<int>> adj(n);
    for (int i = 0; i < n; i++)
        for (int j : nb[i])
            if (j >= 0 && j < n) { adj[i].push_back(j); adj[j].push_back(i); }
    std::vector<int> seen(n, 0), stack(1, 0);
    seen[0] = 1;
    int cnt = 1;
    while (!stack.empty())
    {
        int u = stack.back(); stack.pop_back();
        for (int v : adj[u]) if (!seen[v]) { seen[v] = 1; cnt++; stack.push_back(v); }
    }
    return cnt == n;
}

// oracle contract of the (generalised) self-adjoint solver measured on one call, with plain loops:
// A V = B V Lambda, V^T B V = I, V (V^T B) = I, ascending; B = NULL means identity
static void contract_measures(const DenseMatrix& A, const DenseMatrix* B, const DenseMatrix& V, const DenseVector& lam,
                              double& res, double& gram, double& comp, int& asc)
{
    const int n = A.rows();
    DenseMatrix BV(n, n);
    for (int i = 0; i < n; i++)
        for (int c = 0; c < n; c++)
        {
            double s = 0;
            if (B) { for (int t = 0; t < n; t++) s += (*B)(i, t) * V(t, c); } else s = V(i, c);
            BV(i, c) = s;
        }
    double amax = 1.0;
    res = gram = comp = 0;
    for (int i = 0; i < n; i++)
        for (int c = 0; c < n; c++)
        {
            amax = std::max(amax, std::fabs(A(i, c)));
            double av = 0, g = 0, cm = 0;
            for (int t = 0; t < n; t++)
            {
                av += A(i, t) * V(t, c);
                g += V(t, i) * BV(t, c);
                cm += V(i, t) * BV(c, t);
            }
            res = std::max(res, std::fabs(av - BV(i, c) * lam(c)));
            gram = std::max(gram, std::fabs(g - (i == c ? 1.0 : 0.0)));
            comp = std::max(comp, std::fabs(cm - (i == c ? 1.0 : 0.0)));
        }
    res /= amax;
    asc = 1;
    for (int i = 0; i + 1 < n; i++) if (lam(i) > lam(i + 1)) asc = 0;
}

static NeighborsMethod neighbors_method_of(int nm)
{
    if (nm == 1) return VpTree;
#ifdef TAPKEE_USE_LGPL_COVERTREE
    if (nm == 2) return CoverTree;
#endif
    return Brute;
}

typedef std::vector<IndexType>::const_iterator IdxIt;

static bool neighbour_lists(int nm, const std::vector<IndexType>& idx, const matrix_distance_callback& cb, int k,
                            bool cc, std::vector<std::vector<int>>& out)
{
    out.clear();
    try
    {
        tapkee_internal::PlainDistance<IdxIt, matrix_distance_callback> pd(cb);
        tapkee_internal::Neighbors nbl =
            tapkee_internal::find_neighbors(neighbors_method_of(nm), idx.begin(), idx.end(), pd, (IndexType)k, cc);
        for (size_t i = 0; i < nbl.size(); i++)
        {
            std::vector<int> l;
            for (size_t t = 0; t < nbl[i].size(); t++) l.push_back((int)nbl[i][t]);
            out.push_back(l);
        }
        return true;
    }
    catch (const std::exception& e)
    {
        printf("@NBEXC %s\n", e.what());
        return false;
    }
}

static void run_le(std::istringstream& is)
{
    int n, k, d, em, cc, nm; std::string wtok;
    is >> n >> k >> d >> wtok >> em >> cc >> nm;
    if (!is || n < 0 || n > 4096) { printf("@BADINPUT\n"); return; }
    double width = strtod(wtok.c_str(), NULL);
    DenseMatrix dist;
    if (!read_mat(is, n, dist)) { printf("@BADINPUT\n"); return; }
    std::vector<IndexType> idx_store(n);
    for (int i = 0; i < n; i++) idx_store[i] = i;
    const std::vector<IndexType>& idx = idx_store;
    matrix_distance_callback cb{&dist};
    // the neighbour lists the library's search returns for this request (independent of compute_laplacian)
    std::vector<std::vector<int>> nb, nb2;
    if (em == 2)
    {
        cc = 1;
#ifdef TAPKEE_USE_LGPL_COVERTREE
        nm = 2;
#else
        nm = 0;
#endif
    }
    bool have = (k >= 1 && n >= 2) && neighbour_lists(nm, idx, cb, k, cc != 0, nb) &&
                neighbour_lists(nm, idx, cb, k, cc != 0, nb2);
    bool usable = have && (int)nb.size() == n;
    if (usable)
        for (int i = 0; i < n; i++)
        {
            if (nb[i].size() != nb[0].size()) usable = false;
            for (int j : nb[i]) if (j < 0 || j >= n) usable = false;
        }
    if (usable)
    {
        printf("@NB");
        for (int i = 0; i < n; i++)
        {
            printf(" %d", (int)nb[i].size());
            for (int j : nb[i]) printf(" %d", j);
        }
        printf("\n@KEFF %d\n@NBDET %d\n@CONN %d\n", (int)nb[0].size(), nb == nb2 ? 1 : 0,
               undirected_connected(nb) ? 1 : 0);
        DenseMatrix A = DenseMatrix::Zero(n, n);
        for (int i = 0; i < n; i++)
            for (int j : nb[i]) A(i, j) += std::exp(-(dist(i, j) * dist(i, j)) / width);   // FULL list of i
        DenseMatrix W = A + A.transpose();
        DenseMatrix deg = W.rowwise().sum();
        DenseMatrix Lref = -W;
        for (int i = 0; i < n; i++) Lref(i, i) += deg(i, 0);
        DenseMatrix Dref = DenseMatrix::Zero(n, n);
        for (int i = 0; i < n; i++) Dref(i, i) = deg(i, 0);
        print_mat("LREF", Lref);
        print_mat("DREF", DenseMatrix(deg.transpose()));
        bool posdef = true;
        for (int i = 0; i < n; i++) if (!(deg(i, 0) > 0) || !std::isfinite(deg(i, 0))) posdef = false;
        if (posdef)
        {
            Eigen::GeneralizedSelfAdjointEigenSolver<DenseMatrix> ref(Lref, Dref);
            if (ref.info() == Eigen::Success)
            {
                print_mat("LAMREF", DenseMatrix(ref.eigenvalues().transpose()));
                print_mat("VREF", DenseMatrix(ref.eigenvectors()));
                const DenseMatrix V = ref.eigenvectors();
                const DenseVector lam = ref.eigenvalues();
                double res, gram, comp;
                int asc;
                contract_measures(Lref, &Dref, V, lam, res, gram, comp, asc);
                printf("@ORACLE 1 4 %a %a %a %a\n", res, gram, comp, (double)asc);
            }
            else
                printf("@REFFAIL\n");
        }
        else
            printf("@REFFAIL\n");
    }
    else
        printf("@NONB\n");
    fflush(stdout);
    try
    {
        ParametersSet ps;
        ps.add(method = LaplacianEigenmaps);
        if (em != 2 || k != 5) ps.add(num_neighbors = k);
        if (em != 2 || d != 2) ps.add(target_dimension = d);
        if (em != 2 || width != 1.0) ps.add(gaussian_kernel_width = width);
        if (em != 2)
        {
            ps.add(eigen_method = (em == 0 ? Dense : Randomized));
            ps.add(neighbors_method = neighbors_method_of(nm));
            ps.add(check_connectivity = (cc != 0));
        }
        TapkeeOutput out = tapkee::with(ps).withDistance(cb).embedUsing(idx);
        print_mat("Y", out.embedding);
        fflush(stdout);
        // the same call from inside an application's own parallel region
        DenseMatrix y3;
        std::string exc3;
        bool ok3 = false;
#pragma omp parallel num_threads(2)
        {
            if (omp_get_thread_num() == 0)
            {
                try
                {
                    TapkeeOutput o3 = tapkee::with(ps).withDistance(cb).embedUsing(idx);
                    y3 = o3.embedding;
                    ok3 = true;
                }
                catch (const std::exception& e)
                {
                    exc3 = e.what();
                }
                catch (...)
                {
                    exc3 = "unknown exception";
                }
            }
        }
        if (ok3) print_mat("Y3", y3); else printf("@EXC3 %s\n", exc3.c_str());
    }
    catch (const std::exception& e)
    {
        printf("@EXC %s\n", e.what());
    }
}

static void run_dmap(std::istringstream& is)
{
    int n, d, t, em; unsigned seed; std::string wtok;
    is >> n >> d >> t >> wtok >> em >> seed;
    if (!is || n < 0 || n > 4096) { printf("@BADINPUT\n"); return; }
    double width = strtod(wtok.c_str(), NULL);
    DenseMatrix dist;
    if (!read_mat(is, n, dist)) { printf("@BADINPUT\n"); return; }
    std::vector<IndexType> idx_store(n);
    for (int i = 0; i < n; i++) idx_store[i] = i;
    const std::vector<IndexType>& idx = idx_store;
    matrix_distance_callback cb{&dist};
    // independent dense reference: K, p = K 1, K' = K / (p p^T), q = K' 1, M = K' / sqrt(q q^T)
    DenseMatrix K(n, n);
    for (int i = 0; i < n; i++)
        for (int j = 0; j < n; j++)
            K(i, j) = std::exp(-(dist(i, j) * dist(i, j)) / width);
    DenseVector p = K.rowwise().sum();
    DenseMatrix K1 = (p.cwiseInverse().asDiagonal() * K * p.cwiseInverse().asDiagonal());
    DenseVector q = K1.rowwise().sum();
    DenseVector s = q.cwiseSqrt().cwiseInverse();
    DenseMatrix M = s.asDiagonal() * K1 * s.asDiagonal();
    M = ((M + M.transpose()) / 2).eval();
    print_mat("MREF", M);
    Eigen::SelfAdjointEigenSolver<DenseMatrix> ref(M);
    if (ref.info() == Eigen::Success)
    {
        print_mat("EVAL", DenseMatrix(ref.eigenvalues().transpose()));
        print_mat("EVEC", DenseMatrix(ref.eigenvectors()));
        const DenseMatrix V = ref.eigenvectors();
        const DenseVector lam = ref.eigenvalues();
        double res, gram, comp;
        int asc;
        contract_measures(M, NULL, V, lam, res, gram, comp, asc);
        printf("@ORACLE 1 4 %a %a %a %a\n", res, gram, comp, (double)asc);
    }
    else
        printf("@REFFAIL\n");
    fflush(stdout);
    for (int pass = 0; pass < 3; pass++)
    {
        std::srand(seed);
        if (pass == 2)
        {
            // timesteps t again, from inside an application's own parallel region
            DenseMatrix y3;
            std::string exc3;
            bool ok3 = false;
#pragma omp parallel num_threads(2)
            {
                if (omp_get_thread_num() == 0)
                {
                    try
                    {
                        ParametersSet ps;
                        ps.add(method = DiffusionMap);
                        if (em != 2 || d != 2) ps.add(target_dimension = d);
                        if (em != 2 || t != 3) ps.add(diffusion_map_timesteps = t);
                        if (em != 2 || width != 1.0) ps.add(gaussian_kernel_width = width);
                        if (em != 2) ps.add(eigen_method = (em == 0 ? Dense : Randomized));
                        TapkeeOutput o3 = tapkee::with(ps).withDistance(cb).embedUsing(idx);
                        y3 = o3.embedding;
                        ok3 = true;
                    }
                    catch (const std::exception& e)
                    {
                        exc3 = e.what();
                    }
                    catch (...)
                    {
                        exc3 = "unknown exception";
                    }
                }
            }
            if (ok3) print_mat("Y3", y3); else printf("@EXC3 %s\n", exc3.c_str());
            fflush(stdout);
            break;
        }
        try
        {
            ParametersSet ps;
            ps.add(method = DiffusionMap);
            if (em != 2 || d != 2) ps.add(target_dimension = d);
            if (em != 2 || t + pass != 3) ps.add(diffusion_map_timesteps = t + pass);
            if (em != 2 || width != 1.0) ps.add(gaussian_kernel_width = width);
            if (em != 2) ps.add(eigen_method = (em == 0 ? Dense : Randomized));
            TapkeeOutput out = tapkee::with(ps).withDistance(cb).embedUsing(idx);
            print_mat(pass == 0 ? "Y" : "Y2", out.embedding);
        }
        catch (const std::exception& e)
        {
            printf(pass == 0 ? "@EXC %s\n" : "@EXC2 %s\n", e.what());
            break;
        }
        fflush(stdout);
    }
}

int main()
{
    std::string line;
    while (std::getline(std::cin, line))
    {
        if (line.empty()) continue;
        std::istringstream is(line);
        std::string cmd, id;
        is >> cmd >> id;
        printf("@C %s\n", id.c_str());
        fflush(stdout);
        try
        {
            if (cmd == "LE") run_le(is);
            else if (cmd == "DMAP") run_dmap(is);
            else printf("@BADCMD\n");
        }
        catch (const std::exception& e)
        {
            printf("@EXC %s\n", e.what());
        }
        printf("@END %s\n", id.c_str());
        fflush(stdout);
    }
    return 0;
}
