// c16.cpp — drives the real tapkee_internal::fibonacci_heap on histories read from stdin and
// dumps its complete pointer structure after every operation (protected members are reached by
// subclassing; the source is untouched).
//   stdin : "H cap dump" starts a history, ops "i idx key" | "d idx key" | "x" | "c", "E" ends it
//   stdout: "H cap Dn" then per op "O <ext> <n> <e>[ | <state>]" (same syntax as the model driver)
//           where <ext> is "-" (not an extract), "N" (-1) or "idx:key"; "END" closes the history.
// A line "C <k>" is echoed and flushed before each history so that an abort (ASan) can be attributed.
#include <cstdio>
#include <cstdlib>
#include <cstring>
#include <iostream>
#include <sstream>
#include <string>
#include <vector>
#include <limits>
#include <map>
#include <thread>
#include <atomic>
#include <tapkee/utils/fibonacci_heap.hpp>

using namespace tapkee;
using namespace tapkee::tapkee_internal;

// Keys cross the boundary as integers.  Two reserved integers stand for the extreme doubles so that
// histories can use them (order is preserved: every other key is far below 4e18):
//   KEY_DBLMAX <-> std::numeric_limits<double>::max(),  KEY_INF <-> +infinity
static const long long KEY_DBLMAX = 4000000000000000000LL;
static const long long KEY_INF = 4000000000000000001LL;
static inline ScalarType tokey(long long k)
{
    if (k == KEY_DBLMAX) return std::numeric_limits<ScalarType>::max();
    if (k == KEY_INF) return std::numeric_limits<ScalarType>::infinity();
    return (ScalarType)k;
}
static inline long long fromkey(ScalarType key)
{
    if (key == std::numeric_limits<ScalarType>::infinity()) return KEY_INF;
    if (key == std::numeric_limits<ScalarType>::max()) return KEY_DBLMAX;
    return (long long)key;
}

struct probe_heap : public fibonacci_heap
{
    probe_heap(int cap) : fibonacci_heap(cap) {}
    int dn() const { return Dn; }
    int id(fibonacci_heap_node* p) const
    {
        for (int i = 0; i < max_num_nodes; i++)
            if (nodes[i] == p) return i;
        return -777;
    }
    // canonical text of the forest in pointer order; also checks pointer consistency
    bool show_tree(fibonacci_heap_node* t, fibonacci_heap_node* parent, std::ostringstream& os, int depth, int& count)
    {
        if (depth > max_num_nodes + 2 || count > max_num_nodes + 2) return false;
        count++;
        if (t->parent != parent) { os << "<badparent>"; return false; }
        if (t->index != id(t)) { os << "<badindex>"; return false; }
        os << "(" << t->index << " " << fromkey(t->key) << " " << (t->marked ? 1 : 0);
        int nchild = 0;
        if (t->child != NULL)
        {
            fibonacci_heap_node* c = t->child;
            do {
                if (c == NULL) { os << "<nullsibling>"; return false; }
                if (c->right == NULL || c->right->left != c) { os << "<badlink>"; return false; }
                os << " ";
                if (!show_tree(c, t, os, depth + 1, count)) return false;
                nchild++;
                c = c->right;
            } while (c != t->child && nchild <= max_num_nodes);
        }
        if (nchild != t->rank) { os << "<rank" << t->rank << "!=" << nchild << ">"; return false; }
        os << ")";
        return true;
    }
    // ---- adaptive "thin tree" adversary (search phase only): looks at the structure to choose the
    // next public operation; every operation it performs is printed so the history can be replayed.
    int depth_of(fibonacci_heap_node* t) const { int d = 0; while (t->parent != NULL) { t = t->parent; d++; } return d; }
    int max_root_rank() const
    {
        int best = 0;
        if (min_root == NULL) return 0;
        fibonacci_heap_node* r = min_root; int n = 0;
        do { if (r->rank > best) best = r->rank; r = r->right; n++; } while (r != NULL && r != min_root && n <= max_num_nodes);
        return best;
    }
    // policy 0: child of a marked non-root parent first, then deepest; 1: deepest; 2: random node of depth >= 2
    int pick_victim(int policy, unsigned& rng) const
    {
        int best = -1; long best_score = -1;
        for (int i = 0; i < max_num_nodes; i++)
        {
            fibonacci_heap_node* t = nodes[i];
            if (t->index == -1 || t->parent == NULL || t->parent->parent == NULL) continue;
            int d = depth_of(t);
            rng = rng * 1103515245u + 12345u;
            long score;
            if (policy == 0) score = (t->parent->marked ? 1000000L : 0L) + d * 1000L + (long)((rng >> 16) % 1000u);
            else if (policy == 1) score = d * 1000L + (long)((rng >> 16) % 1000u);
            else score = (long)((rng >> 8) % 1000000u);
            if (score > best_score) { best_score = score; best = i; }
        }
        return best;
    }
    std::string show()
    {
        std::ostringstream os;
        os << "T" << num_trees << " N" << num_nodes;
        int count = 0;
        if (min_root != NULL)
        {
            fibonacci_heap_node* r = min_root;
            int n = 0;
            do {
                if (r == NULL || r->right == NULL || r->right->left != r) { os << " <badrootlink>"; break; }
                os << " ";
                if (!show_tree(r, NULL, os, 0, count)) break;
                r = r->right;
                n++;
            } while (r != min_root && n <= max_num_nodes);
        }
        // every node not reached must be cleared
        int stored = 0;
        for (int i = 0; i < max_num_nodes; i++) if (nodes[i]->index != -1) stored++;
        if (stored != count) os << " <stored" << stored << "!=reached" << count << ">";
        return os.str();
    }
};

int main()
{
    std::string line;
    probe_heap* h = NULL;
    bool dump = false;
    long hist = 0;
    while (std::getline(std::cin, line))
    {
        if (line.empty()) continue;
        std::istringstream is(line);
        std::string cmd;
        is >> cmd;
        std::string ext = "-";
        if (cmd == "H")
        {
            int cap, d;
            is >> cap >> d;
            delete h;
            h = new probe_heap(cap);
            dump = d != 0;
            printf("C %ld\n", hist++);
            printf("H %d %d\n", cap, h->dn());
            fflush(stdout);
            continue;
        }
        if (cmd == "E") { printf("END\n"); fflush(stdout); continue; }
        if (cmd == "A")
        {
            // A cap rounds seed policy: adaptive adversary on a fresh heap; prints "a <op>" per operation (flushed),
            // "V <what>" when the public outputs disagree with a std::map reference, then "AEND maxrank dn".
            int cap, rounds, policy; unsigned seed;
            is >> cap >> rounds >> seed >> policy;
            delete h;
            h = new probe_heap(cap);
            printf("C %ld\n", hist++);
            printf("H %d %d\n", cap, h->dn());
            std::map<int, double> ref;
            double lo = 0;
            bool bad = false;
            int maxrank = 0;
            for (int i = 0; i + 1 < cap; i++) { printf("a i %d %d\n", i, 1000 + i); h->insert(i, 1000 + i); ref[i] = 1000 + i; }
            auto extract = [&]() {
                printf("a x\n"); fflush(stdout);
                ScalarType key = -12345; int r = h->extract_min(key);
                double m = 1e300; for (auto& kv : ref) if (kv.second < m) m = kv.second;
                if (ref.empty()) { if (r != -1) { printf("V extract on empty returned %d\n", r); bad = true; } }
                else if (r == -1 || !ref.count(r) || ref[r] != key || key != m) { printf("V extract returned %d:%g, minimum is %g\n", r, (double)key, m); bad = true; }
                if (r != -1) ref.erase(r);
                if (h->get_num_nodes() != (int)ref.size()) { printf("V size %d vs %d\n", h->get_num_nodes(), (int)ref.size()); bad = true; }
            };
            extract();
            for (int round = 0; round < rounds && !bad; round++)
            {
                int cuts = 0;
                for (int c = 0; c < cap && !bad; c++)
                {
                    int v = h->pick_victim(policy, seed);
                    if (v < 0) break;
                    lo -= 1;
                    printf("a d %d %lld\n", v, (long long)lo); fflush(stdout);
                    h->decrease_key(v, lo); ref[v] = lo; cuts++;
                    if ((seed >> 20) % 4u == 0) break;   // vary how many cuts happen between consolidations
                }
                // dummy minimum in and out: forces a consolidation
                lo -= 1;
                int dummy = cap - 1;
                if (!ref.count(dummy)) { printf("a i %d %lld\n", dummy, (long long)lo); h->insert(dummy, lo); ref[dummy] = lo; }
                extract();
                int mr = h->max_root_rank(); if (mr > maxrank) maxrank = mr;
                if (cuts == 0 && round > 4) break;
            }
            // drain: every stored index must come back in key order
            for (int i = 0; i < cap + 2 && !bad && !ref.empty(); i++) extract();
            printf("AEND %d %d %d\n", maxrank, h->dn(), bad ? 1 : 0);
            fflush(stdout);
            delete h; h = NULL;
            continue;
        }
        if (cmd == "P")
        {
            // P threads cap len seed reps: `threads` heaps, each owned by ONE thread (the way
            // compute_shortest_distances_matrix uses the heap inside its parallel region), all running at the same
            // time.  Every thread drives its own heap through a deterministic pseudo-random history (LCG seeded with
            // seed + thread id) and compares each public output with its own std::map reference.  A heap that keeps
            // state outside its own arrays (static / shared scratch) is disturbed by the other heaps.
            int threads, cap, len, reps; unsigned seed;
            is >> threads >> cap >> len >> seed >> reps;
            printf("C %ld\n", hist++);
            std::vector<std::string> verdict(threads);
            std::atomic<int> ready(0);
            auto body = [&](int t) {
                ready++;
                while (ready.load() < threads) { }
                for (int rep = 0; rep < reps && verdict[t].empty(); rep++)
                {
                    probe_heap hp(cap);
                    std::map<int, long long> ref;
                    unsigned rng = seed + 7919u * (unsigned)t + 104729u * (unsigned)rep;
                    auto next = [&]() { rng = rng * 1103515245u + 12345u; return (rng >> 8) & 0xffffffu; };
                    for (int n = 0; n < len && verdict[t].empty(); n++)
                    {
                        unsigned what = next() % 16u;
                        std::ostringstream os;
                        if (what < 7u)
                        {
                            int i = (int)(next() % (unsigned)cap); long long k = (long long)(next() % 1000u);
                            hp.insert(i, tokey(k));
                            if (!ref.count(i)) ref[i] = k;
                        }
                        else if (what < 12u)
                        {
                            int i = (int)(next() % (unsigned)cap); long long k = (long long)(next() % 1000u);
                            ScalarType dk = tokey(k); hp.decrease_key(i, dk);
                            if (ref.count(i) && k <= ref[i]) ref[i] = k;
                        }
                        else
                        {
                            ScalarType key = -12345; int r = hp.extract_min(key);
                            if (ref.empty()) { if (r != -1) os << "extract on empty heap returned " << r; }
                            else
                            {
                                long long m = ref.begin()->second;
                                for (auto& kv : ref) if (kv.second < m) m = kv.second;
                                if (r == -1 || !ref.count(r) || ref[r] != fromkey(key) || fromkey(key) != m)
                                    os << "extract returned " << r << ":" << fromkey(key) << ", minimum is " << m;
                                if (r != -1) ref.erase(r);
                            }
                        }
                        if (os.str().empty() && hp.get_num_nodes() != (int)ref.size())
                            os << "size " << hp.get_num_nodes() << " vs " << ref.size();
                        if (!os.str().empty())
                        {
                            std::ostringstream v; v << "thread " << t << " rep " << rep << " op " << n << ": " << os.str();
                            verdict[t] = v.str();
                        }
                    }
                    if (!verdict[t].empty())
                    {
                        // the heap may be corrupted (foreign nodes linked in): report and leave without destructors
                        printf("V %s\n", verdict[t].c_str());
                        fflush(stdout);
                        _Exit(3);
                    }
                }
            };
            std::vector<std::thread> pool;
            for (int t = 0; t < threads; t++) pool.emplace_back(body, t);
            for (auto& th : pool) th.join();
            printf("PEND %d\n", threads);
            fflush(stdout);
            continue;
        }
        if (h == NULL) continue;
        if (cmd == "i") { long long i, k; is >> i >> k; h->insert((int)i, tokey(k)); }
        else if (cmd == "d") { long long i, k; is >> i >> k; ScalarType key = tokey(k); h->decrease_key((int)i, key); }
        else if (cmd == "c") { h->clear(); }
        else if (cmd == "x")
        {
            ScalarType key = -12345;
            int r = h->extract_min(key);
            if (r == -1) ext = "N";
            else { std::ostringstream os; os << r << ":" << fromkey(key); ext = os.str(); }
        }
        else continue;
        printf("O %s %d %d", ext.c_str(), h->get_num_nodes(), h->empty() ? 1 : 0);
        if (dump) printf(" | %s", h->show().c_str());
        printf("\n");
    }
    delete h;
    return 0;
}
