// c16.cpp — drives the real tapkee_internal::fibonacci_heap on histories read from stdin and
// dumps its complete pointer structure after every operation (protected members are reached by
// subclassing; the source is untouched).
//   stdin : "H cap dump" starts a history, ops "i idx key" | "d idx key" | "x" | "c", "E" ends it
//   stdout: "H cap Dn" then per op "O <ext> <n> <e>[ | <state>]" (same syntax as the model driver)
//           where <ext> is "-" (not an extract), "N" (-1) or "idx:key"; "END" closes the history.
// A line "C <k>" is echoed and flushed before each history so that an abort (ASan) can be attributed.
#include <cstdio>
#include <cstdlib>
#include <cstring>
#include <iostream>
#include <sstream>
#include <string>
#include <vector>
#include <tapkee/utils/fibonacci_heap.hpp>

using namespace tapkee;
using namespace tapkee::tapkee_internal;

struct probe_heap : public fibonacci_heap
{
    probe_heap(int cap) : fibonacci_heap(cap) {}
    int dn() const { return Dn; }
    int id(fibonacci_heap_node* p) const
    {
        for (int i = 0; i < max_num_nodes; i++)
            if (nodes[i] == p) return i;
        return -777;
    }
    // canonical text of the forest in pointer order; also checks pointer consistency
    bool show_tree(fibonacci_heap_node* t, fibonacci_heap_node* parent, std::ostringstream& os, int depth, int& count)
    {
        if (depth > max_num_nodes + 2 || count > max_num_nodes + 2) return false;
        count++;
        if (t->parent != parent) { os << "<badparent>"; return false; }
        if (t->index != id(t)) { os << "<badindex>"; return false; }
        os << "(" << t->index << " " << (long long)t->key << " " << (t->marked ? 1 : 0);
        int nchild = 0;
        if (t->child != NULL)
        {
            fibonacci_heap_node* c = t->child;
            do {
                if (c == NULL) { os << "<nullsibling>"; return false; }
                if (c->right == NULL || c->right->left != c) { os << "<badlink>"; return false; }
                os << " ";
                if (!show_tree(c, t, os, depth + 1, count)) return false;
                nchild++;
                c = c->right;
            } while (c != t->child && nchild <= max_num_nodes);
        }
        if (nchild != t->rank) { os << "<rank" << t->rank << "!=" << nchild << ">"; return false; }
        os << ")";
        return true;
    }
    std::string show()
    {
        std::ostringstream os;
        os << "T" << num_trees << " N" << num_nodes;
        int count = 0;
        if (min_root != NULL)
        {
            fibonacci_heap_node* r = min_root;
            int n = 0;
            do {
                if (r == NULL || r->right == NULL || r->right->left != r) { os << " <badrootlink>"; break; }
                os << " ";
                if (!show_tree(r, NULL, os, 0, count)) break;
                r = r->right;
                n++;
            } while (r != min_root && n <= max_num_nodes);
        }
        // every node not reached must be cleared
        int stored = 0;
        for (int i = 0; i < max_num_nodes; i++) if (nodes[i]->index != -1) stored++;
        if (stored != count) os << " <stored" << stored << "!=reached" << count << ">";
        return os.str();
    }
};

int main()
{
    std::string line;
    probe_heap* h = NULL;
    bool dump = false;
    long hist = 0;
    while (std::getline(std::cin, line))
    {
        if (line.empty()) continue;
        std::istringstream is(line);
        std::string cmd;
        is >> cmd;
        std::string ext = "-";
        if (cmd == "H")
        {
            int cap, d;
            is >> cap >> d;
            delete h;
            h = new probe_heap(cap);
            dump = d != 0;
            printf("C %ld\n", hist++);
            printf("H %d %d\n", cap, h->dn());
            fflush(stdout);
            continue;
        }
        if (cmd == "E") { printf("END\n"); fflush(stdout); continue; }
        if (h == NULL) continue;
        if (cmd == "i") { long long i, k; is >> i >> k; h->insert((int)i, (ScalarType)k); }
        else if (cmd == "d") { long long i, k; is >> i >> k; ScalarType key = (ScalarType)k; h->decrease_key((int)i, key); }
        else if (cmd == "c") { h->clear(); }
        else if (cmd == "x")
        {
            ScalarType key = -12345;
            int r = h->extract_min(key);
            if (r == -1) ext = "N";
            else { std::ostringstream os; os << r << ":" << (long long)key; ext = os.str(); }
        }
        else continue;
        printf("O %s %d %d", ext.c_str(), h->get_num_nodes(), h->empty() ? 1 : 0);
        if (dump) printf(" | %s", h->show().c_str());
        printf("\n");
    }
    delete h;
    return 0;
}
