// c18.cpp — drives the real tsne::QuadTree (include/tapkee/external/barnes_hut_sne/quadtree.hpp) on
// point sets read from stdin and dumps every cell of the tree it builds (private members are reached
// with `#define private public` / `#define class struct` around the one header; the source is untouched).
//
//   stdin : one case per line
//     K id mode  x y hw hh  n x0 y0 ...  k i0 ...  m th0 ...  r q0 ...
//       numbers are "m:e" = m * 2^e (exact; "-0:0" = the double -0.0, sign bit set);  mode E: QuadTree(data,x,y,hw,hh) then insert(i) for the k
//       indices in order;  mode F: QuadTree(data,n,x,y,hw,hh) (fill);  mode A: QuadTree(data,n)
//       (mean-centred root, what tsne.hpp uses; x y hw hh ignored)
//   stdout: "C id" (flushed first, so that an abort can be attributed), then
//     Z k                        number of data / root-centre coordinates that are the double -0.0
//     R b..                      insert() results (mode E)
//     T ncells
//     c L|N x y hw hh size index[0] count[0] cum_size com0 com1     one line per cell, preorder NW NE SW SE
//                                (doubles as %a; index/count printed as -1/0 when size == 0)
//     OK b                       isCorrect()
//     AI k i..                   getAllIndices()
//     DEPTH d                    getDepth()
//     F ti qi f0 f1 sumQ         computeNonEdgeForces(qi, theta[ti], {0,0}, 0)
//     P ci k i..                 (only when the case line ends with the token P) for the cell with preorder number ci:
//                                the k data indices i whose point the REAL Cell::containsPoint of that cell's
//                                boundary accepts (all n data points are asked, inserted or not)
//     END
//     G id n x0 y0 ...  theta deg        -> "D i dC0 dC1" per point (TSNE::computeGradient), "E C" (TSNE::evaluateError)
#include <algorithm>
#include <cfloat>
#include <cmath>
#include <cstdio>
#include <cstdlib>
#include <cstring>
#include <float.h>
#include <iostream>
#include <math.h>
#include <sstream>
#include <stdio.h>
#include <stdlib.h>
#include <string>
#include <vector>
#include <tapkee/defines/types.hpp>

#include <cstring>
#include <limits>
#include <queue>
#include <time.h>
#include <tapkee/defines/random.hpp>
#include <tapkee/utils/logging.hpp>
#include <tapkee/utils/time.hpp>

#define private public
#define class struct
#include <tapkee/external/barnes_hut_sne/quadtree.hpp>
#undef class
// tsne.hpp: TSNE::computeGradient / evaluateError are private; vptree.hpp has templates, so only `private` is redefined
#include <tapkee/external/barnes_hut_sne/tsne.hpp>
#undef private

using tsne::QuadTree;

static double parse_num(const std::string& s)
{
    long long m = 0;
    int e = 0;
    size_t k = s.find(':');
    if (k == std::string::npos)
        return (double)atoll(s.c_str());
    m = atoll(s.substr(0, k).c_str());
    e = atoi(s.substr(k + 1).c_str());
    // "-0:e" is the NEGATIVE zero (sign bit set): numerically equal to "0:0" (the exact model reads both as 0), a
    // different bit pattern for the library
    if (m == 0 && !s.empty() && s[0] == '-')
        return -0.0;
    return ldexp((double)m, e);
}

// count[] exists since fix F24; a tree without it (the fix reverted) must still build so that the check can
// report the defect with an input: -1 then
template <typename T> static int slot_count(T* t)
{
    if constexpr (requires { t->count[0]; })
        return t->count[0];
    else
        return -1;
}

static long g_cells;
static bool g_bad;

static void dump(QuadTree* t, int depth)
{
    if (g_bad)
        return;
    if (t == NULL)
    {
        printf("c <null>\n");
        g_bad = true;
        return;
    }
    if (depth > 3000 || ++g_cells > 2000000)
    {
        printf("c <runaway>\n");
        g_bad = true;
        return;
    }
    int idx = t->size > 0 ? t->index[0] : -1;
    int cnt = t->size > 0 ? slot_count(t) : 0;
    printf("c %c %a %a %a %a %d %d %d %d %a %a\n", t->is_leaf ? 'L' : 'N', t->boundary.x, t->boundary.y,
           t->boundary.hw, t->boundary.hh, t->size, idx, cnt, t->cum_size, t->center_of_mass[0],
           t->center_of_mass[1]);
    if (!t->is_leaf)
    {
        dump(t->northWest, depth + 1);
        dump(t->northEast, depth + 1);
        dump(t->southWest, depth + 1);
        dump(t->southEast, depth + 1);
    }
}

// the real containsPoint of every cell on every data point (compared with the binary64 model QuadTree_Float_Model.v)
static void contains_matrix(QuadTree* t, int depth, double* data, int n, long* ci)
{
    if (t == NULL || depth > 3000)
        return;
    long me = (*ci)++;
    std::vector<int> acc;
    for (int i = 0; i < n; i++)
        if (t->boundary.containsPoint(data + 2 * i))
            acc.push_back(i);
    printf("P %ld %d", me, (int)acc.size());
    for (size_t k = 0; k < acc.size(); k++)
        printf(" %d", acc[k]);
    printf("\n");
    if (!t->is_leaf)
    {
        contains_matrix(t->northWest, depth + 1, data, n, ci);
        contains_matrix(t->northEast, depth + 1, data, n, ci);
        contains_matrix(t->southWest, depth + 1, data, n, ci);
        contains_matrix(t->southEast, depth + 1, data, n, ci);
    }
}

static long count_cells(QuadTree* t, int depth)
{
    if (t == NULL || depth > 3000)
        return 0;
    long n = 1;
    if (!t->is_leaf)
        n += count_cells(t->northWest, depth + 1) + count_cells(t->northEast, depth + 1) +
             count_cells(t->southWest, depth + 1) + count_cells(t->southEast, depth + 1);
    return n;
}

int main()
{
    std::string line;
    while (std::getline(std::cin, line))
    {
        std::istringstream is(line);
        std::string tag, id, mode, tok;
        if (!(is >> tag))
            continue;
        if (tag == "G")
        {
            // G id n x0 y0 ... theta deg : tsne.hpp's own use of the tree.  TSNE::computeGradient and
            // TSNE::evaluateError on the map Y with a sparse P in which row i has the `deg` entries
            // (i+1) % n, ..., (i+deg) % n, each of value 2^-6.
            int n = 0, deg = 0;
            is >> id >> n;
            std::vector<double> Y(2 * (size_t)std::max(n, 0) + 2, 0.0);
            for (int i = 0; i < 2 * n; i++)
            {
                is >> tok;
                Y[i] = parse_num(tok);
            }
            is >> tok;
            double theta = parse_num(tok);
            is >> deg;
            std::vector<int> row_P(n + 1, 0), col_P;
            std::vector<double> val_P;
            for (int i = 0; i < n; i++)
            {
                for (int k = 1; k <= deg; k++)
                {
                    col_P.push_back((i + k) % n);
                    val_P.push_back(0.015625);
                }
                row_P[i + 1] = (int)col_P.size();
            }
            col_P.push_back(0);
            val_P.push_back(0.0);
            printf("C %s\n", id.c_str());
            fflush(stdout);
            tsne::TSNE ts;
            std::vector<double> dC(2 * (size_t)n + 2, 0.0);
            ts.computeGradient(NULL, row_P.data(), col_P.data(), val_P.data(), Y.data(), n, 2, dC.data(), theta);
            for (int i = 0; i < n; i++)
                printf("D %d %a %a\n", i, dC[2 * i], dC[2 * i + 1]);
            double C = ts.evaluateError(row_P.data(), col_P.data(), val_P.data(), Y.data(), n, theta);
            printf("E %a\n", C);
            printf("END\n");
            fflush(stdout);
            continue;
        }
        if (tag != "K")
            continue;
        is >> id >> mode;
        double root[4];
        for (int d = 0; d < 4; d++)
        {
            is >> tok;
            root[d] = parse_num(tok);
        }
        int n = 0;
        is >> n;
        std::vector<double> data(2 * (size_t)std::max(n, 0) + 2, 0.0);
        for (int i = 0; i < 2 * n; i++)
        {
            is >> tok;
            data[i] = parse_num(tok);
        }
        int k = 0;
        is >> k;
        std::vector<int> order(std::max(k, 0));
        for (int i = 0; i < k; i++)
            is >> order[i];
        int m = 0;
        is >> m;
        std::vector<double> thetas(std::max(m, 0));
        for (int i = 0; i < m; i++)
        {
            is >> tok;
            thetas[i] = parse_num(tok);
        }
        int r = 0;
        is >> r;
        std::vector<int> queries(std::max(r, 0));
        for (int i = 0; i < r; i++)
            is >> queries[i];
        std::string want;
        is >> want;
        bool want_matrix = (want == "P");

        printf("C %s\n", id.c_str());
        {
            // how many coordinates reach the library as the double -0.0 (the check compares with what it sent)
            int nz = 0;
            for (int i = 0; i < 2 * n; i++)
                nz += (data[i] == 0.0 && std::signbit(data[i])) ? 1 : 0;
            for (int d = 0; d < 2; d++)
                nz += (root[d] == 0.0 && std::signbit(root[d])) ? 1 : 0;
            printf("Z %d\n", nz);
        }
        fflush(stdout);

        QuadTree* tree = NULL;
        if (mode == "E")
        {
            tree = new QuadTree(data.data(), root[0], root[1], root[2], root[3]);
            printf("R");
            for (int i = 0; i < k; i++)
                printf(" %d", tree->insert(order[i]) ? 1 : 0);
            printf("\n");
        }
        else if (mode == "F")
        {
            tree = new QuadTree(data.data(), n, root[0], root[1], root[2], root[3]);
            printf("R\n");
        }
        else
        {
            tree = new QuadTree(data.data(), n);
            printf("R\n");
        }
        fflush(stdout);

        g_cells = 0;
        g_bad = false;
        long nc = count_cells(tree, 0);
        printf("T %ld\n", nc);
        dump(tree, 0);
        fflush(stdout);
        if (!g_bad)
        {
            printf("OK %d\n", tree->isCorrect() ? 1 : 0);
            // getAllIndices writes one int per stored slot; the buffer is as large as the number of cells
            std::vector<int> buf((size_t)nc + 16, -7);
            int cntw = tree->getAllIndices(buf.data(), 0);
            std::vector<int> buf2((size_t)nc + 16, -7);
            tree->getAllIndices(buf2.data());
            printf("AI %d", cntw);
            for (int i = 0; i < cntw && i < (int)buf2.size(); i++)
                printf(" %d", buf2[i]);
            printf("\n");
            printf("DEPTH %d\n", tree->getDepth());
            fflush(stdout);
            for (int ti = 0; ti < m; ti++)
                for (int qi = 0; qi < r; qi++)
                {
                    double neg_f[2] = {0.0, 0.0};
                    double sum_Q = 0.0;
                    tree->computeNonEdgeForces(queries[qi], thetas[ti], neg_f, &sum_Q);
                    printf("F %d %d %a %a %a\n", ti, queries[qi], neg_f[0], neg_f[1], sum_Q);
                }
            if (want_matrix)
            {
                long ci = 0;
                contains_matrix(tree, 0, data.data(), n, &ci);
            }
        }
        delete tree;
        printf("END\n");
        fflush(stdout);
    }
    return 0;
}
