// c07.cpp — harness for C07 (a returned projection reproduces the embedding and is affine).
// One case per stdin line (protocol of spectral_common.hpp: "C k", result lines "R ...", "X k what",
// "END k").  Samples are given one per row (N rows of D numbers); tapkee gets them as columns.
//   MEAN D N <X N*D>                       tapkee_internal::compute_mean          -> R mean
//   PROJ D d N <P D*d> <m D> <X N*D>       tapkee_internal::project               -> R emb
//   MPI  D d <P D*d> <m D> <x D>           MatrixProjectionImplementation(P, m) through a
//                                          ProjectingFunction                      -> R y
//   EMB method solver N D d k nq <X N*D> <Q nq*D>
//        public API with kernel (linear), distance (Euclidean) and features callbacks on X.
//   MEANI D N M <ids N> <X M*D>            as MEAN, but the iterator range [begin, end) holds the N sample ids
//   PROJI D d N M <ids N> <P> <m> <X M*D>  `ids` (any sub-range / permutation / offset block of 0..M-1; X has M
//   EMBI  method solver N D d k nq M <ids N> <X M*D> <Q nq*D>   samples): row i belongs to sample ids[i];
//        projection(x_{ids[i]}) is what is printed as row i of `pi`.
//   EMBO / EMBOI  as EMB / EMBI, but the call is made from INSIDE a `#pragma omp parallel num_threads(3)` region of the
//        harness, by every thread of the team at once; the answer of the last thread is reported (+ R team <n>).
//        -> R emb (N x d), R has 0|1 (projection.implementation non-null), and when non-null:
//           R kind matrix|other, R P (D x d), R m (D), R pi (N x d: projection(x_i) for every i),
//           R pq (nq x d: projection(q_j)).
//   EMBC method solver N D d k nq T reps <X N*D> <Q nq*D>   (wave 4) public API, then the returned projection function is
//        applied to the training samples and the query vectors (a) sequentially (reference answers), (b) by T std::threads
//        at once, each through its OWN COPY of the TapkeeOutput (even threads: copy construction, odd threads: copy
//        ASSIGNMENT into an existing object), `reps` times in thread-specific orders, (c) by an `omp parallel for` over the
//        vectors through per-thread copies of the ProjectingFunction; every answer is compared BITWISE with the sequential
//        one.  -> R has, R calls <n>, R wrong <n> (std::threads), R ompwrong <n>, R seqcheck <n>,
//        R first <thread> <vector> <column> <got> <want>
// Numbers are decimal or hex-float on input, hex-float on output.
#include "spectral_common.hpp"

#include <atomic>
#include <cstring>
#include <map>
#include <mutex>
#include <numeric>
#include <omp.h>
#include <thread>
#include <tapkee/callbacks/eigen_callbacks.hpp>

using namespace tapkee;
using namespace vh;

static const std::map<std::string, DimensionReductionMethod>& method_map()
{
    static const std::map<std::string, DimensionReductionMethod> m = {
        {"pca", PrincipalComponentAnalysis},
        {"rp", RandomProjection},
        {"npe", NeighborhoodPreservingEmbedding},
        {"lltsa", LinearLocalTangentSpaceAlignment},
        {"lpp", LocalityPreservingProjections},
        {"klle", KernelLocallyLinearEmbedding},
        {"kltsa", KernelLocalTangentSpaceAlignment},
        {"hlle", HessianLocallyLinearEmbedding},
        {"dm", DiffusionMap},
        {"mds", MultidimensionalScaling},
        {"lmds", LandmarkMultidimensionalScaling},
        {"isomap", Isomap},
        {"lisomap", LandmarkIsomap},
        {"la", LaplacianEigenmaps},
        {"kpca", KernelPrincipalComponentAnalysis},
        {"spe", StochasticProximityEmbedding},
        {"passthru", PassThru},
        {"fa", FactorAnalysis},
        {"tsne", tDistributedStochasticNeighborEmbedding},
        {"ms", ManifoldSculpting},
    };
    return m;
}


// everything one EMB case asks of tapkee: embed, then apply the returned projection to every training sample and to
// the query vectors.  Touches only its own output object (so that several threads may run it at once).
struct EmbedResult
{
    bool ran = false, failed = false, has = false, is_matrix = false;
    long pisize = -1;
    std::string error;
    DenseMatrix embedding, P, PI, PQ;
    DenseVector m;
};

static void run_embed(const std::string& meth, const std::string& solver, int d, int kk, const DenseMatrix& X,
                      const DenseMatrix& Qr, const std::vector<IndexType>& idx, EmbedResult& res)
{
    const int N = (int)idx.size();
    const int nq = (int)Qr.rows();
    eigen_features_callback fcb(X);
    eigen_kernel_callback kcb(X);
    eigen_distance_callback dcb(X);
    TapkeeOutput out =
        tapkee::with((method = method_map().at(meth), target_dimension = d, num_neighbors = kk,
                      eigen_method = solver_of(solver), sne_perplexity = 2.0, max_iteration = 20,
                      landmark_ratio = 0.5, gaussian_kernel_width = 10.0))
            .withKernel(kcb)
            .withDistance(dcb)
            .withFeatures(fcb)
            .embedUsing(idx);
    res.embedding = out.embedding;
    res.has = (bool)out.projection.implementation;
    if (res.has)
    {
        MatrixProjectionImplementation* mpi =
            dynamic_cast<MatrixProjectionImplementation*>(out.projection.implementation.get());
        res.is_matrix = (mpi != nullptr);
        if (mpi)
        {
            res.P = mpi->proj_mat;
            res.m = mpi->mean_vec;
        }
        res.PI.resize(N, out.embedding.cols());
        for (int i = 0; i < N; i++)
        {
            DenseVector y = out.projection(X.col(idx[i]));
            if (y.size() != res.PI.cols())
            {
                res.pisize = y.size();
                break;
            }
            res.PI.row(i) = y.transpose();
        }
        if (nq > 0 && res.pisize < 0)
        {
            res.PQ.resize(nq, out.embedding.cols());
            for (int j = 0; j < nq; j++)
            {
                DenseVector q = Qr.row(j).transpose();
                DenseVector y = out.projection(q);
                res.PQ.row(j) = y.transpose();
            }
        }
    }
    res.ran = true;
}

static bool bad_dim(int v, int hi)
{
    return v < 0 || v > hi;
}

// the iterator range handed to tapkee: `n` sample ids, each in [0, m)
static bool read_ids(std::istringstream& is, int n, int m, std::vector<IndexType>& idx)
{
    idx.resize(n);
    for (int i = 0; i < n; i++)
    {
        long v;
        if (!(is >> v) || v < 0 || v >= m) return false;
        idx[i] = (IndexType)v;
    }
    return true;
}

int main()
{
    std::string line;
    int k = 0;
    while (std::getline(std::cin, line))
    {
        if (line.empty()) continue;
        std::istringstream is(line);
        std::string cmd;
        is >> cmd;
        guarded(k, [&]() {
            auto bad = [&]() { std::cout << "X " << k << " bad-input" << std::endl; };
            if (cmd == "MEAN" || cmd == "MEANI")
            {
                int D, N, M;
                is >> D >> N;
                M = N;
                if (cmd == "MEANI") is >> M;
                DenseMatrix Xr;
                std::vector<IndexType> idx(N > 0 ? N : 0);
                if (!is || bad_dim(D, 4096) || bad_dim(N, 100000) || bad_dim(M, 100000) || N == 0) return bad();
                if (cmd == "MEANI") { if (!read_ids(is, N, M, idx)) return bad(); }
                else std::iota(idx.begin(), idx.end(), 0);
                if (!read_matrix(is, M, D, Xr)) return bad();
                DenseMatrix X = Xr.transpose();
                eigen_features_callback fcb(X);
                DenseVector m = tapkee_internal::compute_mean(idx.begin(), idx.end(), fcb, D);
                print_vector("mean", m);
            }
            else if (cmd == "PROJ" || cmd == "PROJI")
            {
                int D, d, N, M;
                is >> D >> d >> N;
                M = N;
                if (cmd == "PROJI") is >> M;
                DenseMatrix P, mr, Xr;
                std::vector<IndexType> idx(N > 0 ? N : 0);
                if (!is || bad_dim(D, 4096) || bad_dim(d, 4096) || bad_dim(N, 100000) || bad_dim(M, 100000)) return bad();
                if (cmd == "PROJI") { if (!read_ids(is, N, M, idx)) return bad(); }
                else std::iota(idx.begin(), idx.end(), 0);
                if (!read_matrix(is, D, d, P) || !read_matrix(is, D, 1, mr) || !read_matrix(is, M, D, Xr)) return bad();
                DenseMatrix X = Xr.transpose();
                DenseVector m = mr.col(0);
                eigen_features_callback fcb(X);
                DenseMatrix E = tapkee_internal::project(P, m, idx.begin(), idx.end(), fcb, D);
                print_matrix("emb", E);
            }
            else if (cmd == "MPI")
            {
                int D, d;
                is >> D >> d;
                DenseMatrix P, mr, xr;
                if (!is || bad_dim(D, 4096) || bad_dim(d, 4096) || !read_matrix(is, D, d, P) || !read_matrix(is, D, 1, mr) ||
                    !read_matrix(is, D, 1, xr))
                    return bad();
                DenseVector m = mr.col(0), x = xr.col(0);
                ProjectingFunction pf(new MatrixProjectionImplementation(P, m));
                DenseVector y = pf(x);
                print_vector("y", y);
            }
            else if (cmd == "EMB" || cmd == "EMBI" || cmd == "EMBO" || cmd == "EMBOI")
            {
                const bool ranged = (cmd == "EMBI" || cmd == "EMBOI");
                const bool in_parallel_region = (cmd == "EMBO" || cmd == "EMBOI");
                std::string meth, solver;
                int N, D, d, kk, nq, M;
                is >> meth >> solver >> N >> D >> d >> kk >> nq;
                M = N;
                if (ranged) is >> M;
                DenseMatrix Xr, Qr;
                std::vector<IndexType> idx(N > 0 ? N : 0);
                if (!is || method_map().count(meth) == 0 || bad_dim(D, 4096) || bad_dim(N, 100000) || bad_dim(nq, 100000) ||
                    bad_dim(M, 100000))
                    return bad();
                if (ranged) { if (!read_ids(is, N, M, idx)) return bad(); }
                else std::iota(idx.begin(), idx.end(), 0);
                if (!read_matrix(is, M, D, Xr) || !read_matrix(is, nq, D, Qr)) return bad();
                DenseMatrix X = Xr.transpose();
                EmbedResult res;
                if (!in_parallel_region)
                {
                    run_embed(meth, solver, d, kk, X, Qr, idx, res);      // exceptions propagate to guarded()
                }
                else
                {
                    // the call is made from inside the application's own parallel region, by every thread at once (each
                    // on its own output objects; the data is shared read-only); what is reported is the answer of the
                    // LAST thread of the team.  An exception must not leave the region.
                    const int team = 3;
                    std::vector<EmbedResult> all(team);
#pragma omp parallel num_threads(team)
                    {
                        const int t = omp_get_thread_num();
                        if (t < team)
                        {
                            try
                            {
                                run_embed(meth, solver, d, kk, X, Qr, idx, all[t]);
                            }
                            catch (const std::exception& e)
                            {
                                all[t].error = e.what();
                                all[t].failed = true;
                            }
                        }
                    }
                    int last = team - 1;
                    while (last > 0 && !all[last].ran && !all[last].failed) last--;   // team may be smaller than asked for
                    res = all[last];
                    int ran = 0;
                    for (int t = 0; t < team; t++) ran += (all[t].ran || all[t].failed) ? 1 : 0;
                    std::cout << "R team " << ran << std::endl;
                    if (res.failed) throw std::runtime_error(res.error);
                }
                print_matrix("emb", res.embedding);
                std::cout << "R has " << (res.has ? 1 : 0) << std::endl;
                if (res.has)
                {
                    std::cout << "R kind " << (res.is_matrix ? "matrix" : "other") << std::endl;
                    if (res.is_matrix)
                    {
                        print_matrix("P", res.P);
                        print_vector("m", res.m);
                    }
                    if (res.pisize >= 0) std::cout << "R pisize " << res.pisize << std::endl;
                    else
                    {
                        print_matrix("pi", res.PI);
                        if (nq > 0) print_matrix("pq", res.PQ);
                    }
                }
            }
            else if (cmd == "EMBC")
            {
                std::string meth, solver;
                int N, D, d, kk, nq, T, reps;
                is >> meth >> solver >> N >> D >> d >> kk >> nq >> T >> reps;
                DenseMatrix Xr, Qr;
                if (!is || method_map().count(meth) == 0 || bad_dim(D, 100000) || bad_dim(N, 100000) || bad_dim(nq, 100000) ||
                    T < 1 || T > 64 || reps < 1 || reps > 100000 || N < 1 || !read_matrix(is, N, D, Xr) ||
                    !read_matrix(is, nq, D, Qr))
                    return bad();
                DenseMatrix X = Xr.transpose();
                std::vector<IndexType> idx(N);
                std::iota(idx.begin(), idx.end(), 0);
                eigen_features_callback fcb(X);
                eigen_kernel_callback kcb(X);
                eigen_distance_callback dcb(X);
                TapkeeOutput out =
                    tapkee::with((method = method_map().at(meth), target_dimension = d, num_neighbors = kk,
                                  eigen_method = solver_of(solver), sne_perplexity = 2.0, max_iteration = 20,
                                  landmark_ratio = 0.5, gaussian_kernel_width = 10.0))
                        .withKernel(kcb)
                        .withDistance(dcb)
                        .withFeatures(fcb)
                        .embedUsing(idx);
                const bool has = (bool)out.projection.implementation;
                std::cout << "R has " << (has ? 1 : 0) << std::endl;
                if (!has) return;
                const int nv = N + nq;
                std::vector<DenseVector> vecs(nv), ref(nv);
                for (int j = 0; j < nv; j++)
                {
                    vecs[j] = (j < N) ? DenseVector(X.col(j)) : DenseVector(Qr.row(j - N).transpose());
                    ref[j] = out.projection(vecs[j]);
                }
                auto differs = [&](const DenseVector& y, const DenseVector& w, int& col) {
                    col = 0;
                    if (y.size() != w.size()) return true;
                    for (int c = 0; c < (int)y.size(); c++)
                        if (std::memcmp(&y[c], &w[c], sizeof(double)) != 0)
                        {
                            col = c;
                            return true;
                        }
                    return false;
                };
                std::atomic<long> wrong(0), calls(0), ompwrong(0);
                std::atomic<int> ready(0);
                std::atomic<bool> go(false);
                std::mutex first_lock;
                bool have_first = false;
                int f_t = 0, f_q = 0, f_c = 0;
                double f_got = 0, f_want = 0;
                auto note_first = [&](int t, int q, int col, const DenseVector& y) {
                    std::lock_guard<std::mutex> g(first_lock);
                    if (have_first) return;
                    have_first = true;
                    f_t = t;
                    f_q = q;
                    f_c = col;
                    f_got = y.size() > col ? y[col] : 0.0;
                    f_want = ref[q].size() > col ? ref[q][col] : 0.0;
                };
                std::vector<std::thread> workers;
                for (int t = 0; t < T; t++)
                {
                    workers.emplace_back([&, t]() {
                        TapkeeOutput constructed(out); // private copy of embedding + projection function
                        TapkeeOutput assigned;
                        assigned = out;                // ... and one made by copy assignment
                        TapkeeOutput& mine = (t % 2 == 0) ? constructed : assigned;
                        ready++;
                        while (!go.load()) std::this_thread::yield();
                        for (int r = 0; r < reps; r++)
                            for (int j = 0; j < nv; j++)
                            {
                                const int q = (int)(((long)j * (2 * t + 1) + 7L * t + r) % nv);
                                DenseVector y = mine.projection(vecs[q]);
                                calls++;
                                int col;
                                if (differs(y, ref[q], col))
                                {
                                    wrong++;
                                    note_first(t, q, col, y);
                                }
                            }
                    });
                }
                while (ready.load() < T) std::this_thread::yield();
                go.store(true);
                for (auto& w : workers) w.join();
                // the same batch as an OpenMP parallel for over the vectors (per-thread copies of the function)
                for (int r = 0; r < reps; r++)
                {
#pragma omp parallel num_threads(T)
                    {
                        ProjectingFunction mine = out.projection;
#pragma omp for schedule(static, 1)
                        for (int j = 0; j < nv; j++)
                        {
                            DenseVector y = mine(vecs[j]);
                            calls++;
                            int col;
                            if (differs(y, ref[j], col))
                            {
                                ompwrong++;
                                note_first(100 + omp_get_thread_num(), j, col, y);
                            }
                        }
                    }
                }
                long seq_bad = 0;
                for (int j = 0; j < nv; j++)
                {
                    int col;
                    if (differs(out.projection(vecs[j]), ref[j], col)) seq_bad++;
                }
                std::cout << "R calls " << calls.load() << std::endl;
                std::cout << "R wrong " << wrong.load() << std::endl;
                std::cout << "R ompwrong " << ompwrong.load() << std::endl;
                std::cout << "R seqcheck " << seq_bad << std::endl;
                if (have_first)
                {
                    char buf[200];
                    std::snprintf(buf, sizeof buf, "R first %d %d %d %a %a", f_t, f_q, f_c, f_got, f_want);
                    std::cout << buf << std::endl;
                }
            }
            else
            {
                std::cout << "X " << k << " unknown-command" << std::endl;
            }
        });
        k++;
    }
    return 0;
}
