// c07.cpp — harness for C07 (a returned projection reproduces the embedding and is affine).
// One case per stdin line (protocol of spectral_common.hpp: "C k", result lines "R ...", "X k what",
// "END k").  Samples are given one per row (N rows of D numbers); tapkee gets them as columns.
//   MEAN D N <X N*D>                       tapkee_internal::compute_mean          -> R mean
//   PROJ D d N <P D*d> <m D> <X N*D>       tapkee_internal::project               -> R emb
//   MPI  D d <P D*d> <m D> <x D>           MatrixProjectionImplementation(P, m) through a
//                                          ProjectingFunction                      -> R y
//   EMB method solver N D d k nq <X N*D> <Q nq*D>
//        public API with kernel (linear), distance (Euclidean) and features callbacks on X.
//   MEANI D N M <ids N> <X M*D>            as MEAN, but the iterator range [begin, end) holds the N sample ids
//   PROJI D d N M <ids N> <P> <m> <X M*D>  `ids` (any sub-range / permutation / offset block of 0..M-1; X has M
//   EMBI  method solver N D d k nq M <ids N> <X M*D> <Q nq*D>   samples): row i belongs to sample ids[i];
//        projection(x_{ids[i]}) is what is printed as row i of `pi`.
//   EMBO / EMBOI  as EMB / EMBI, but the call is made from INSIDE a `#pragma omp parallel num_threads(3)` region of the
//        harness, by every thread of the team at once; the answer of the last thread is reported (+ R team <n>).
//        -> R emb (N x d), R has 0|1 (projection.implementation non-null), and when non-null:
//           R kind matrix|other, R P (D x d), R m (D), R pi (N x d: projection(x_i) for every i),
//           R pq (nq x d: projection(q_j)).
// Numbers are decimal or hex-float on input, hex-float on output.
#include "spectral_common.hpp"

#include <map>
#include <numeric>
#include <omp.h>
#include <tapkee/callbacks/eigen_callbacks.hpp>

using namespace tapkee;
using namespace vh;

static const std::map<std::string, DimensionReductionMethod>& method_map()
{
    static const std::map<std::string, DimensionReductionMethod> m = {
        {"pca", PrincipalComponentAnalysis},
        {"rp", RandomProjection},
        {"npe", NeighborhoodPreservingEmbedding},
        {"lltsa", LinearLocalTangentSpaceAlignment},
        {"lpp", LocalityPreservingProjections},
        {"klle", KernelLocallyLinearEmbedding},
        {"kltsa", KernelLocalTangentSpaceAlignment},
        {"hlle", HessianLocallyLinearEmbedding},
        {"dm", DiffusionMap},
        {"mds", MultidimensionalScaling},
        {"lmds", LandmarkMultidimensionalScaling},
        {"isomap", Isomap},
        {"lisomap", LandmarkIsomap},
        {"la", LaplacianEigenmaps},
        {"kpca", KernelPrincipalComponentAnalysis},
        {"spe", StochasticProximityEmbedding},
        {"passthru", PassThru},
        {"fa", FactorAnalysis},
        {"tsne", tDistributedStochasticNeighborEmbedding},
        {"ms", ManifoldSculpting},
    };
    return m;
}


// everything one EMB case asks of tapkee: embed, then apply the returned projection to every training sample and to
// the query vectors.  Touches only its own output object (so that several threads may run it at once).
struct EmbedResult
{
    bool ran = false, failed = false, has = false, is_matrix = false;
    long pisize = -1;
    std::string error;
    DenseMatrix embedding, P, PI, PQ;
    DenseVector m;
};

static void run_embed(const std::string& meth, const std::string& solver, int d, int kk, const DenseMatrix& X,
                      const DenseMatrix& Qr, const std::vector<IndexType>& idx, EmbedResult& res)
{
    const int N = (int)idx.size();
    const int nq = (int)Qr.rows();
    eigen_features_callback fcb(X);
    eigen_kernel_callback kcb(X);
    eigen_distance_callback dcb(X);
    TapkeeOutput out =
        tapkee::with((method = method_map().at(meth), target_dimension = d, num_neighbors = kk,
                      eigen_method = solver_of(solver), sne_perplexity = 2.0, max_iteration = 20,
                      landmark_ratio = 0.5, gaussian_kernel_width = 10.0))
            .withKernel(kcb)
            .withDistance(dcb)
            .withFeatures(fcb)
            .embedUsing(idx);
    res.embedding = out.embedding;
    res.has = (bool)out.projection.implementation;
    if (res.has)
    {
        MatrixProjectionImplementation* mpi =
            dynamic_cast<MatrixProjectionImplementation*>(out.projection.implementation.get());
        res.is_matrix = (mpi != nullptr);
        if (mpi)
        {
            res.P = mpi->proj_mat;
            res.m = mpi->mean_vec;
        }
        res.PI.resize(N, out.embedding.cols());
        for (int i = 0; i < N; i++)
        {
            DenseVector y = out.projection(X.col(idx[i]));
            if (y.size() != res.PI.cols())
            {
                res.pisize = y.size();
                break;
            }
            res.PI.row(i) = y.transpose();
        }
        if (nq > 0 && res.pisize < 0)
        {
            res.PQ.resize(nq, out.embedding.cols());
            for (int j = 0; j < nq; j++)
            {
                DenseVector q = Qr.row(j).transpose();
                DenseVector y = out.projection(q);
                res.PQ.row(j) = y.transpose();
            }
        }
    }
    res.ran = true;
}

static bool bad_dim(int v, int hi)
{
    return v < 0 || v > hi;
}

// the iterator range handed to tapkee: `n` sample ids, each in [0, m)
static bool read_ids(std::istringstream& is, int n, int m, std::vector<IndexType>& idx)
{
    idx.resize(n);
    for (int i = 0; i < n; i++)
    {
        long v;
        if (!(is >> v) || v < 0 || v >= m) return false;
        idx[i] = (IndexType)v;
    }
    return true;
}

int main()
{
    std::string line;
    int k = 0;
    while (std::getline(std::cin, line))
    {
        if (line.empty()) continue;
        std::istringstream is(line);
        std::string cmd;
        is >> cmd;
        guarded(k, [&]() {
            auto bad = [&]() { std::cout << "X " << k << " bad-input" << std::endl; };
            if (cmd == "MEAN" || cmd == "MEANI")
            {
                int D, N, M;
                is >> D >> N;
                M = N;
                if (cmd == "MEANI") is >> M;
                DenseMatrix Xr;
                std::vector<IndexType> idx(N > 0 ? N : 0);
                if (!is || bad_dim(D, 4096) || bad_dim(N, 100000) || bad_dim(M, 100000) || N == 0) return bad();
                if (cmd == "MEANI") { if (!read_ids(is, N, M, idx)) return bad(); }
                else std::iota(idx.begin(), idx.end(), 0);
                if (!read_matrix(is, M, D, Xr)) return bad();
                DenseMatrix X = Xr.transpose();
                eigen_features_callback fcb(X);
                DenseVector m = tapkee_internal::compute_mean(idx.begin(), idx.end(), fcb, D);
                print_vector("mean", m);
            }
            else if (cmd == "PROJ" || cmd == "PROJI")
            {
                int D, d, N, M;
                is >> D >> d >> N;
                M = N;
                if (cmd == "PROJI") is >> M;
                DenseMatrix P, mr, Xr;
                std::vector<IndexType> idx(N > 0 ? N : 0);
                if (!is || bad_dim(D, 4096) || bad_dim(d, 4096) || bad_dim(N, 100000) || bad_dim(M, 100000)) return bad();
                if (cmd == "PROJI") { if (!read_ids(is, N, M, idx)) return bad(); }
                else std::iota(idx.begin(), idx.end(), 0);
                if (!read_matrix(is, D, d, P) || !read_matrix(is, D, 1, mr) || !read_matrix(is, M, D, Xr)) return bad();
                DenseMatrix X = Xr.transpose();
                DenseVector m = mr.col(0);
                eigen_features_callback fcb(X);
                DenseMatrix E = tapkee_internal::project(P, m, idx.begin(), idx.end(), fcb, D);
                print_matrix("emb", E);
            }
            else if (cmd == "MPI")
            {
                int D, d;
                is >> D >> d;
                DenseMatrix P, mr, xr;
                if (!is || bad_dim(D, 4096) || bad_dim(d, 4096) || !read_matrix(is, D, d, P) || !read_matrix(is, D, 1, mr) ||
                    !read_matrix(is, D, 1, xr))
                    return bad();
                DenseVector m = mr.col(0), x = xr.col(0);
                ProjectingFunction pf(new MatrixProjectionImplementation(P, m));
                DenseVector y = pf(x);
                print_vector("y", y);
            }
            else if (cmd == "EMB" || cmd == "EMBI" || cmd == "EMBO" || cmd == "EMBOI")
            {
                const bool ranged = (cmd == "EMBI" || cmd == "EMBOI");
                const bool in_parallel_region = (cmd == "EMBO" || cmd == "EMBOI");
                std::string meth, solver;
                int N, D, d, kk, nq, M;
                is >> meth >> solver >> N >> D >> d >> kk >> nq;
                M = N;
                if (ranged) is >> M;
                DenseMatrix Xr, Qr;
                std::vector<IndexType> idx(N > 0 ? N : 0);
                if (!is || method_map().count(meth) == 0 || bad_dim(D, 4096) || bad_dim(N, 100000) || bad_dim(nq, 100000) ||
                    bad_dim(M, 100000))
                    return bad();
                if (ranged) { if (!read_ids(is, N, M, idx)) return bad(); }
                else std::iota(idx.begin(), idx.end(), 0);
                if (!read_matrix(is, M, D, Xr) || !read_matrix(is, nq, D, Qr)) return bad();
                DenseMatrix X = Xr.transpose();
                EmbedResult res;
                if (!in_parallel_region)
                {
                    run_embed(meth, solver, d, kk, X, Qr, idx, res);      // exceptions propagate to guarded()
                }
                else
                {
                    // the call is made from inside the application's own parallel region, by every thread at once (each
                    // on its own output objects; the data is shared read-only); what is reported is the answer of the
                    // LAST thread of the team.  An exception must not leave the region.
                    const int team = 3;
                    std::vector<EmbedResult> all(team);
#pragma omp parallel num_threads(team)
                    {
                        const int t = omp_get_thread_num();
                        if (t < team)
                        {
                            try
                            {
                                run_embed(meth, solver, d, kk, X, Qr, idx, all[t]);
                            }
                            catch (const std::exception& e)
                            {
                                all[t].error = e.what();
                                all[t].failed = true;
                            }
                        }
                    }
                    int last = team - 1;
                    while (last > 0 && !all[last].ran && !all[last].failed) last--;   // team may be smaller than asked for
                    res = all[last];
                    int ran = 0;
                    for (int t = 0; t < team; t++) ran += (all[t].ran || all[t].failed) ? 1 : 0;
                    std::cout << "R team " << ran << std::endl;
                    if (res.failed) throw std::runtime_error(res.error);
                }
                print_matrix("emb", res.embedding);
                std::cout << "R has " << (res.has ? 1 : 0) << std::endl;
                if (res.has)
                {
                    std::cout << "R kind " << (res.is_matrix ? "matrix" : "other") << std::endl;
                    if (res.is_matrix)
                    {
                        print_matrix("P", res.P);
                        print_vector("m", res.m);
                    }
                    if (res.pisize >= 0) std::cout << "R pisize " << res.pisize << std::endl;
                    else
                    {
                        print_matrix("pi", res.PI);
                        if (nq > 0) print_matrix("pq", res.PQ);
                    }
                }
            }
            else
            {
                std::cout << "X " << k << " unknown-command" << std::endl;
            }
        });
        k++;
    }
    return 0;
}
