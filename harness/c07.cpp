// c07.cpp — harness for C07 (a returned projection reproduces the embedding and is affine).
// One case per stdin line (protocol of spectral_common.hpp: "C k", result lines "R ...", "X k what",
// "END k").  Samples are given one per row (N rows of D numbers); tapkee gets them as columns.
//   MEAN D N <X N*D>                       tapkee_internal::compute_mean          -> R mean
//   PROJ D d N <P D*d> <m D> <X N*D>       tapkee_internal::project               -> R emb
//   MPI  D d <P D*d> <m D> <x D>           MatrixProjectionImplementation(P, m) through a
//                                          ProjectingFunction                      -> R y
//   EMB method solver N D d k nq <X N*D> <Q nq*D>
//        public API with kernel (linear), distance (Euclidean) and features callbacks on X.
//        -> R emb (N x d), R has 0|1 (projection.implementation non-null), and when non-null:
//           R kind matrix|other, R P (D x d), R m (D), R pi (N x d: projection(x_i) for every i),
//           R pq (nq x d: projection(q_j)).
// Numbers are decimal or hex-float on input, hex-float on output.
#include "spectral_common.hpp"

#include <map>
#include <numeric>
#include <tapkee/callbacks/eigen_callbacks.hpp>

using namespace tapkee;
using namespace vh;

static const std::map<std::string, DimensionReductionMethod>& method_map()
{
    static const std::map<std::string, DimensionReductionMethod> m = {
        {"pca", PrincipalComponentAnalysis},
        {"rp", RandomProjection},
        {"npe", NeighborhoodPreservingEmbedding},
        {"lltsa", LinearLocalTangentSpaceAlignment},
        {"lpp", LocalityPreservingProjections},
        {"klle", KernelLocallyLinearEmbedding},
        {"kltsa", KernelLocalTangentSpaceAlignment},
        {"hlle", HessianLocallyLinearEmbedding},
        {"dm", DiffusionMap},
        {"mds", MultidimensionalScaling},
        {"lmds", LandmarkMultidimensionalScaling},
        {"isomap", Isomap},
        {"lisomap", LandmarkIsomap},
        {"la", LaplacianEigenmaps},
        {"kpca", KernelPrincipalComponentAnalysis},
        {"spe", StochasticProximityEmbedding},
        {"passthru", PassThru},
        {"fa", FactorAnalysis},
        {"tsne", tDistributedStochasticNeighborEmbedding},
        {"ms", ManifoldSculpting},
    };
    return m;
}

static bool bad_dim(int v, int hi)
{
    return v < 0 || v > hi;
}

int main()
{
    std::string line;
    int k = 0;
    while (std::getline(std::cin, line))
    {
        if (line.empty()) continue;
        std::istringstream is(line);
        std::string cmd;
        is >> cmd;
        guarded(k, [&]() {
            auto bad = [&]() { std::cout << "X " << k << " bad-input" << std::endl; };
            if (cmd == "MEAN")
            {
                int D, N;
                is >> D >> N;
                DenseMatrix Xr;
                if (!is || bad_dim(D, 4096) || bad_dim(N, 100000) || N == 0 || !read_matrix(is, N, D, Xr)) return bad();
                DenseMatrix X = Xr.transpose();
                std::vector<IndexType> idx(N);
                std::iota(idx.begin(), idx.end(), 0);
                eigen_features_callback fcb(X);
                DenseVector m = tapkee_internal::compute_mean(idx.begin(), idx.end(), fcb, D);
                print_vector("mean", m);
            }
            else if (cmd == "PROJ")
            {
                int D, d, N;
                is >> D >> d >> N;
                DenseMatrix P, mr, Xr;
                if (!is || bad_dim(D, 4096) || bad_dim(d, 4096) || bad_dim(N, 100000) || !read_matrix(is, D, d, P) ||
                    !read_matrix(is, D, 1, mr) || !read_matrix(is, N, D, Xr))
                    return bad();
                DenseMatrix X = Xr.transpose();
                DenseVector m = mr.col(0);
                std::vector<IndexType> idx(N);
                std::iota(idx.begin(), idx.end(), 0);
                eigen_features_callback fcb(X);
                DenseMatrix E = tapkee_internal::project(P, m, idx.begin(), idx.end(), fcb, D);
                print_matrix("emb", E);
            }
            else if (cmd == "MPI")
            {
                int D, d;
                is >> D >> d;
                DenseMatrix P, mr, xr;
                if (!is || bad_dim(D, 4096) || bad_dim(d, 4096) || !read_matrix(is, D, d, P) || !read_matrix(is, D, 1, mr) ||
                    !read_matrix(is, D, 1, xr))
                    return bad();
                DenseVector m = mr.col(0), x = xr.col(0);
                ProjectingFunction pf(new MatrixProjectionImplementation(P, m));
                DenseVector y = pf(x);
                print_vector("y", y);
            }
            else if (cmd == "EMB")
            {
                std::string meth, solver;
                int N, D, d, kk, nq;
                is >> meth >> solver >> N >> D >> d >> kk >> nq;
                DenseMatrix Xr, Qr;
                if (!is || method_map().count(meth) == 0 || bad_dim(D, 4096) || bad_dim(N, 100000) || bad_dim(nq, 100000) ||
                    !read_matrix(is, N, D, Xr) || !read_matrix(is, nq, D, Qr))
                    return bad();
                DenseMatrix X = Xr.transpose();
                std::vector<IndexType> idx(N);
                std::iota(idx.begin(), idx.end(), 0);
                eigen_features_callback fcb(X);
                eigen_kernel_callback kcb(X);
                eigen_distance_callback dcb(X);
                TapkeeOutput out =
                    tapkee::with((method = method_map().at(meth), target_dimension = d, num_neighbors = kk,
                                  eigen_method = solver_of(solver), sne_perplexity = 2.0, max_iteration = 20,
                                  landmark_ratio = 0.5, gaussian_kernel_width = 10.0))
                        .withKernel(kcb)
                        .withDistance(dcb)
                        .withFeatures(fcb)
                        .embedUsing(idx);
                print_matrix("emb", out.embedding);
                bool has = (bool)out.projection.implementation;
                std::cout << "R has " << (has ? 1 : 0) << std::endl;
                if (has)
                {
                    MatrixProjectionImplementation* mpi =
                        dynamic_cast<MatrixProjectionImplementation*>(out.projection.implementation.get());
                    std::cout << "R kind " << (mpi ? "matrix" : "other") << std::endl;
                    if (mpi)
                    {
                        print_matrix("P", mpi->proj_mat);
                        print_vector("m", mpi->mean_vec);
                    }
                    DenseMatrix PI(N, out.embedding.cols());
                    bool size_ok = true;
                    for (int i = 0; i < N && size_ok; i++)
                    {
                        DenseVector y = out.projection(X.col(i));
                        if (y.size() != PI.cols())
                        {
                            std::cout << "R pisize " << y.size() << std::endl;
                            size_ok = false;
                            break;
                        }
                        PI.row(i) = y.transpose();
                    }
                    if (size_ok) print_matrix("pi", PI);
                    if (nq > 0 && size_ok)
                    {
                        DenseMatrix PQ(nq, out.embedding.cols());
                        for (int j = 0; j < nq; j++)
                        {
                            DenseVector q = Qr.row(j).transpose();
                            DenseVector y = out.projection(q);
                            PQ.row(j) = y.transpose();
                        }
                        print_matrix("pq", PQ);
                    }
                }
            }
            else
            {
                std::cout << "X " << k << " unknown-command" << std::endl;
            }
        });
        k++;
    }
    return 0;
}
