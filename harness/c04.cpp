// c04.cpp — harness for property C04 (Isomap geodesics = shortest paths; Isomap = classical MDS).
// Compiled on every run against <repo>/include, twice: default build (TAPKEE_USE_PRIORITY_QUEUE) and
// -DTAPKEE_USE_FIBONACCI_HEAP.  The source is untouched.  Three observation points:
//   (a) direct calls of BOTH overloads of tapkee_internal::compute_shortest_distances_matrix on
//       harness-supplied Neighbors (any digraph), a table-driven distance callback and Landmarks;
//   (b) the bodies of IsomapImplementation::embed() / LandmarkIsomapImplementation::embed() as the
//       library text has them, constructed the way tapkee::embed() constructs them; inside those two headers (and only
//       there) the identifiers `find_neighbors_with(`, `compute_shortest_distances_matrix(` and
//       `eigendecomposition_via(` are wrapped by function-like macros that record arguments/results and forward to the real
//       functions (the real definitions are included BEFORE the macros; #pragma once keeps them);
//   (c) Eigen::SelfAdjointEigenSolver as reference oracle for the tolerance stream (command EIG).
// Protocol: one case per stdin line; "C <k>" is printed (flushed) before case k so that an abort is
// attributable; results are "R <tag> <rows> <cols> v..."; exceptions "X <k> <what>"; "END <k>".
//   SP <threads> <trace> <N> {<len> v..}xN W <N*N doubles> L <nl> lm..
//        R full N N .. ; R land nl N .. (if nl > 0) ; R trace / R ltrace (pairs u v of callback calls,
//        only when trace=1, which forces one thread); entries equal to DBL_MAX print as "inf"
//   SPD <same as SP>   samples in a std::deque, object ids different from positions (trace ignored)
//   ISO <threads> iso|liso brute|vptree|covertree dense|randomized <k> <d> <ratio> <seed> <N> <N*N doubles>
//        R nbrs0 N K ints (what find_neighbors_with returned) ; R nbrs N K ints (what the geodesic routine was
//        given) ; R lm nl 1 ints (liso) ; R geo r c .. ; R B<i> n m .. (each matrix handed to
//        eigendecomposition_via, in call order) ; R emb N d ..
//   EIG <n> <n*n doubles>     R vals n 1 (ascending) ; R vecs n n
//   BIG <threads> <N> <e> <nl> lm..   path graph, k = 2, distance |a-b| * 2^e, on a thread with an 8 MiB stack:
//        R conn 1 2 (is_connected of the path graph, of the forward-only chain) ; R lshape 1 2 ; R l<r> (run-length
//        encoded row r of the landmark overload) ; for N <= 4000 also R fshape 1 2 ; R f<r> (full overload)
#include <cfloat>
#include <cmath>
#include <cstdio>
#include <cstdlib>
#include <deque>
#include <iostream>
#include <limits>
#include <numeric>
#include <sstream>
#include <string>
#include <vector>
#include <omp.h>
#include <pthread.h>
#include <stdexcept>

// C04_WITH_ISO (harness-side switch): also compile observation points (b) and (c).  Without it the
// translation unit contains only routines/isomap.hpp (10 s instead of 80 s per sanitizer build).
#include <tapkee/defines.hpp>
#ifdef C04_WITH_ISO
#include <tapkee/methods/base.hpp>
#include <tapkee/routines/eigendecomposition.hpp>
#endif
#include <tapkee/routines/isomap.hpp>
#include <tapkee/neighbors/connected.hpp>
#ifdef C04_WITH_ISO
#include <tapkee/routines/landmarks.hpp>
#include <tapkee/routines/multidimensional_scaling.hpp>
#include <tapkee/utils/matrix.hpp> // methods/isomap.hpp uses centerMatrix without including it

#endif
namespace vh
{
using tapkee::DenseMatrix;
using tapkee::DenseVector;
using tapkee::IndexType;
using tapkee::ScalarType;
using tapkee::tapkee_internal::Landmarks;
using tapkee::tapkee_internal::Neighbors;

#ifdef C04_WITH_ISO
struct capture_t
{
    bool on = false;
    bool have_geo = false;
    Neighbors nbrs;
    Landmarks lm;
    bool have_lm = false;
    DenseMatrix geo;
    std::vector<DenseMatrix> handed;
    // what find_neighbors_with returned (wave 4): the neighbourhood graph as embed() received it, recorded
    // independently of whether embed() then calls compute_shortest_distances_matrix at all
    Neighbors nbrs0;
    bool have_nbrs0 = false;
    void reset()
    {
        have_geo = have_lm = have_nbrs0 = false;
        nbrs0.clear();
        nbrs.clear();
        lm.clear();
        handed.clear();
    }
};
inline capture_t& cap()
{
    static capture_t c;
    return c;
}

template <class It, class CB> DenseMatrix cap_geo(It, It, Neighbors& nb, CB, DenseMatrix r)
{
    if (cap().on)
    {
        cap().nbrs = nb;
        cap().geo = r;
        cap().have_geo = true;
    }
    return r;
}
template <class It, class CB> DenseMatrix cap_geo(It, It, Landmarks& lm, Neighbors& nb, CB, DenseMatrix r)
{
    if (cap().on)
    {
        cap().nbrs = nb;
        cap().lm = lm;
        cap().have_lm = true;
        cap().geo = r;
        cap().have_geo = true;
    }
    return r;
}
inline Neighbors cap_nbrs(Neighbors nb)
{
    if (cap().on && !cap().have_nbrs0)
    {
        cap().nbrs0 = nb;
        cap().have_nbrs0 = true;
    }
    return nb;
}
template <class M> void cap_handed(const M& m)
{
    if (cap().on) cap().handed.push_back(DenseMatrix(m));
}
#endif
} // namespace vh
#ifdef C04_WITH_ISO

#define compute_shortest_distances_matrix(...)                                                                         \
    ::vh::cap_geo(__VA_ARGS__, compute_shortest_distances_matrix(__VA_ARGS__))
#define eigendecomposition_via(S, M, D) (::vh::cap_handed(M), eigendecomposition_via(S, M, D))
#define find_neighbors_with(...) ::vh::cap_nbrs(find_neighbors_with(__VA_ARGS__))
#include <tapkee/methods/isomap.hpp>
#include <tapkee/methods/landmark_isomap.hpp>
#undef find_neighbors_with
#undef compute_shortest_distances_matrix
#undef eigendecomposition_via

#include <tapkee/callbacks/dummy_callbacks.hpp>
#include <tapkee/parameters/defaults.hpp>
#endif
// NOT <tapkee/tapkee.hpp>: the public dispatcher instantiates all twenty methods for the callback
// type (3.5 min per sanitizer build); the two implementations are constructed exactly as
// tapkee::embed() + DynamicImplementation::embedUsing() construct them (run_iso below).

using namespace tapkee;
using namespace vh;

static std::string hexd(double x)
{
    char buf[64];
    if (std::isnan(x)) return "nan";
    if (std::isinf(x)) return x > 0 ? "+inf" : "-inf";
    if (x == std::numeric_limits<double>::max()) return "inf";
    std::snprintf(buf, sizeof buf, "%a", x);
    return buf;
}

static void print_matrix(const std::string& tag, const DenseMatrix& M)
{
    std::ostringstream os;
    os << "R " << tag << " " << M.rows() << " " << M.cols();
    for (int i = 0; i < M.rows(); i++)
        for (int j = 0; j < M.cols(); j++)
            os << " " << hexd(M(i, j));
    std::cout << os.str() << std::endl;
}

static bool read_double(std::istringstream& is, double& x)
{
    std::string tok;
    if (!(is >> tok)) return false;
    char* end = nullptr;
    x = std::strtod(tok.c_str(), &end);
    return end != tok.c_str();
}

static bool read_matrix(std::istringstream& is, int n, int m, DenseMatrix& M)
{
    M.resize(n, m);
    for (int i = 0; i < n; i++)
        for (int j = 0; j < m; j++)
        {
            double x;
            if (!read_double(is, x)) return false;
            M(i, j) = x;
        }
    return true;
}

typedef std::vector<std::pair<int, int>> Trace;

struct table_callback
{
    const DenseMatrix* T;
    Trace* trace;
    inline ScalarType distance(IndexType a, IndexType b) const
    {
        if (trace) trace->push_back(std::make_pair((int)a, (int)b));
        return (*T)(a, b);
    }
};

static void print_trace(const char* tag, const Trace& t)
{
    std::ostringstream os;
    os << "R " << tag << " " << t.size() << " 2";
    for (auto& p : t)
        os << " " << p.first << " " << p.second;
    std::cout << os.str() << std::endl;
}

static void bad(int k, const char* why)
{
    std::cout << "X " << k << " bad-input " << why << std::endl;
}

// SPD (wave 4): the same request by another C++ route — the samples live in a std::deque (random access, NOT contiguous)
// and are object ids pi(i) = (N-1-i + N/3) mod N that differ from their positions; the callback is handed the ids.
// Everything the routine returns is indexed by position, so the output is that of SP.
struct permuted_table_callback
{
    const DenseMatrix* T;
    const std::vector<IndexType>* inv;
    inline ScalarType distance(IndexType a, IndexType b) const
    {
        return (*T)((*inv)[a], (*inv)[b]);
    }
};

static void run_sp(int k, std::istringstream& is, bool other_route = false)
{
    int threads, trace, N;
    if (!(is >> threads >> trace >> N) || N < 1 || N > 5000 || threads < 1 || threads > 64) return bad(k, "header");
    tapkee_internal::Neighbors nbrs(N);
    for (int u = 0; u < N; u++)
    {
        int len;
        if (!(is >> len) || len < 0 || len > 5000) return bad(k, "row length");
        for (int i = 0; i < len; i++)
        {
            int v;
            if (!(is >> v) || v < 0 || v >= N) return bad(k, "neighbour index");
            nbrs[u].push_back(v);
        }
    }
    // the routine reads neighbors[u][i] for i < neighbors[0].size(): shorter rows are outside its contract
    for (int u = 0; u < N; u++)
        if (nbrs[u].size() < nbrs[0].size()) return bad(k, "row shorter than row 0");
    std::string tok;
    if (!(is >> tok) || tok != "W") return bad(k, "W");
    DenseMatrix T;
    if (!read_matrix(is, N, N, T)) return bad(k, "weights");
    if (!(is >> tok) || tok != "L") return bad(k, "L");
    int nl;
    if (!(is >> nl) || nl < 0 || nl > 5000) return bad(k, "nl");
    tapkee_internal::Landmarks lm;
    for (int i = 0; i < nl; i++)
    {
        int v;
        if (!(is >> v) || v < 0 || v >= N) return bad(k, "landmark");
        lm.push_back(v);
    }
    if (other_route)
    {
        std::deque<IndexType> objs;
        std::vector<IndexType> inv(N);
        for (int i = 0; i < N; i++)
        {
            IndexType id = (N - 1 - i + N / 3) % N;
            objs.push_back(id);
            inv[id] = i;
        }
        omp_set_num_threads(threads);
        permuted_table_callback pcb{&T, &inv};
        DenseMatrix full = tapkee_internal::compute_shortest_distances_matrix(objs.begin(), objs.end(), nbrs, pcb);
        print_matrix("full", full);
        if (nl > 0)
        {
            DenseMatrix land = tapkee_internal::compute_shortest_distances_matrix(objs.begin(), objs.end(), lm, nbrs, pcb);
            print_matrix("land", land);
        }
        return;
    }
    std::vector<IndexType> idx(N);
    std::iota(idx.begin(), idx.end(), 0);
    omp_set_num_threads(trace ? 1 : threads);
    Trace tr;
    table_callback cb{&T, trace ? &tr : nullptr};
    DenseMatrix full = tapkee_internal::compute_shortest_distances_matrix(idx.begin(), idx.end(), nbrs, cb);
    print_matrix("full", full);
    if (trace) print_trace("trace", tr);
    if (nl > 0)
    {
        tr.clear();
        DenseMatrix land = tapkee_internal::compute_shortest_distances_matrix(idx.begin(), idx.end(), lm, nbrs, cb);
        print_matrix("land", land);
        if (trace) print_trace("ltrace", tr);
    }
}

// ---------------------------------------------------------------------------------------------------
// BIG: one large cheap case per run (stack depth / memory behaviour of the Isomap pipeline for large N).
// Path graph with k = 2 on N samples at positions 0, 1, .., N-1 on a line, distance |a - b| * 2^e:
//   vertex i has the neighbours {i-1, i+1} (order alternates with the parity of i), vertex 0 has {1, 2} and
//   vertex N-1 has {N-2, N-3}.  Calls, on a thread whose stack is EXPLICITLY 8 MiB (the default of glibc):
//   is_connected on that graph, is_connected on the forward-only chain (i -> i+1, i+1; last -> N-2),
//   the landmark overload, and (only for N <= 4000) the full overload.  Rows are printed as a lossless
//   run-length encoding of their first differences: R l<r>|f<r> <nruns> 2 <first> {<count> <diff>}*.
struct line_callback
{
    double unit;
    inline ScalarType distance(IndexType a, IndexType b) const
    {
        return (a > b ? double(a - b) : double(b - a)) * unit;
    }
};

static void print_rle(const std::string& tag, const DenseMatrix& M, int row)
{
    std::ostringstream os;
    std::vector<std::pair<long, double>> runs;
    for (int j = 0; j + 1 < M.cols(); j++)
    {
        double dlt = M(row, j + 1) - M(row, j);
        // (bitwise-equal or both NaN) extends the run
        if (!runs.empty() && (runs.back().second == dlt || (std::isnan(dlt) && std::isnan(runs.back().second))))
            runs.back().first++;
        else
        {
            if (runs.size() >= 2000) break; // far more than any correct answer needs: the rest is not printed
            runs.push_back(std::make_pair(1L, dlt));
        }
    }
    os << "R " << tag << " " << runs.size() << " 2 " << hexd(M(row, 0));
    for (auto& r : runs)
        os << " " << r.first << " " << hexd(r.second);
    std::cout << os.str() << std::endl;
}

struct big_args
{
    int threads, N, e;
    std::vector<int> lm;
    std::string error;
};

static void* big_body(void* p)
{
    big_args& a = *static_cast<big_args*>(p);
    try
    {
        const int N = a.N;
        tapkee_internal::Neighbors nbrs(N), chain(N);
        for (int i = 0; i < N; i++)
        {
            if (i == 0)
                nbrs[i] = {1, 2};
            else if (i == N - 1)
                nbrs[i] = {N - 2, N - 3};
            else if (i % 2)
                nbrs[i] = {i + 1, i - 1};
            else
                nbrs[i] = {i - 1, i + 1};
            chain[i] = (i == N - 1) ? tapkee_internal::LocalNeighbors{N - 2, N - 2}
                                    : tapkee_internal::LocalNeighbors{i + 1, i + 1};
        }
        std::vector<IndexType> idx(N);
        std::iota(idx.begin(), idx.end(), 0);
        omp_set_num_threads(a.threads);
        DenseMatrix c(1, 2);
        c(0, 0) = tapkee_internal::is_connected(idx.begin(), idx.end(), nbrs) ? 1.0 : 0.0;
        c(0, 1) = tapkee_internal::is_connected(idx.begin(), idx.end(), chain) ? 1.0 : 0.0;
        print_matrix("conn", c);
        line_callback cb{std::ldexp(1.0, a.e)};
        if (!a.lm.empty())
        {
            tapkee_internal::Landmarks lm(a.lm.begin(), a.lm.end());
            DenseMatrix land = tapkee_internal::compute_shortest_distances_matrix(idx.begin(), idx.end(), lm, nbrs, cb);
            DenseMatrix shape(1, 2);
            shape(0, 0) = land.rows();
            shape(0, 1) = land.cols();
            print_matrix("lshape", shape);
            for (int r = 0; r < land.rows(); r++)
                print_rle("l" + std::to_string(r), land, r);
        }
        if (N <= 4000)
        {
            DenseMatrix full = tapkee_internal::compute_shortest_distances_matrix(idx.begin(), idx.end(), nbrs, cb);
            DenseMatrix shape(1, 2);
            shape(0, 0) = full.rows();
            shape(0, 1) = full.cols();
            print_matrix("fshape", shape);
            for (int r = 0; r < full.rows(); r++)
                print_rle("f" + std::to_string(r), full, r);
        }
    }
    catch (const std::exception& ex)
    {
        a.error = ex.what();
    }
    return nullptr;
}

static void run_big(int k, std::istringstream& is)
{
    big_args a;
    int nl;
    if (!(is >> a.threads >> a.N >> a.e >> nl) || a.N < 3 || a.N > 4000000 || a.threads < 1 || a.threads > 64 ||
        a.e < -300 || a.e > 300 || nl < 0 || nl > 64)
        return bad(k, "header");
    for (int i = 0; i < nl; i++)
    {
        int v;
        if (!(is >> v) || v < 0 || v >= a.N) return bad(k, "landmark");
        a.lm.push_back(v);
    }
    pthread_attr_t attr;
    pthread_attr_init(&attr);
    pthread_attr_setstacksize(&attr, 8u << 20);
    pthread_t th;
    if (pthread_create(&th, &attr, big_body, &a) != 0) return bad(k, "pthread_create");
    pthread_join(th, nullptr);
    pthread_attr_destroy(&attr);
    if (!a.error.empty()) throw std::runtime_error(a.error);
}

#ifdef C04_WITH_ISO
static void print_neighbors(const std::string& tag, const Neighbors& nbrs)
{
    std::ostringstream os;
    size_t K = nbrs.empty() ? 0 : nbrs[0].size();
    bool ragged = false;
    for (auto& r : nbrs)
        if (r.size() != K) ragged = true;
    if (ragged)
    {
        os << "R " << tag << "-ragged " << nbrs.size() << " 0";
        for (auto& r : nbrs)
        {
            os << " |" << r.size();
            for (auto v : r)
                os << " " << v;
        }
    }
    else
    {
        os << "R " << tag << " " << nbrs.size() << " " << K;
        for (auto& r : nbrs)
            for (auto v : r)
                os << " " << v;
    }
    std::cout << os.str() << std::endl;
}

static void run_iso(int k, std::istringstream& is)
{
    int threads, kk, d, N;
    unsigned seed;
    double ratio;
    std::string meth, nm, em;
    if (!(is >> threads >> meth >> nm >> em >> kk >> d >> ratio >> seed >> N) || N < 1 || N > 2000 || threads < 1 ||
        threads > 64)
        return bad(k, "header");
    DenseMatrix T;
    if (!read_matrix(is, N, N, T)) return bad(k, "table");
    std::vector<IndexType> idx(N);
    std::iota(idx.begin(), idx.end(), 0);
    omp_set_num_threads(threads);
    tapkee::verif_shuffle_reseed(seed);
    std::srand(seed);
    table_callback cb{&T, nullptr};
    NeighborsMethod nmeth = Brute;
    if (nm == "vptree") nmeth = VpTree;
    if (nm == "covertree") nmeth = CoverTree;
    EigenMethod emeth = (em == "randomized") ? Randomized : Dense;
    cap().reset();
    cap().on = true;
    TapkeeOutput out;
    try
    {
        typedef std::vector<IndexType>::const_iterator It;
        typedef dummy_kernel_callback<IndexType> KCB;
        typedef dummy_features_callback<IndexType> FCB;
        typedef tapkee_internal::ImplementationBase<It, KCB, table_callback, FCB> Base;
        // the statements of tapkee::embed() (embed.hpp) and DynamicImplementation::embedUsing (methods.hpp)
        stichwort::ParametersSet parameters =
            (num_neighbors = kk, target_dimension = d, neighbors_method = nmeth, eigen_method = emeth,
             landmark_ratio = ratio);
        parameters.check();
        parameters.merge(tapkee_internal::defaults);
        tapkee_internal::Context context(nullptr, nullptr);
        It b = idx.begin(), e = idx.end();
        Base base(b, e, KCB(), cb, FCB(), parameters, context);
        if (meth == "liso")
        {
            tapkee_internal::LandmarkIsomapImplementation<It, KCB, table_callback, FCB> implementation(base);
            implementation.validate();
            out = implementation.embed();
        }
        else
        {
            tapkee_internal::IsomapImplementation<It, KCB, table_callback, FCB> implementation(base);
            implementation.validate();
            out = implementation.embed();
        }
    }
    catch (...)
    {
        cap().on = false;
        throw;
    }
    cap().on = false;
    if (cap().have_nbrs0) print_neighbors("nbrs0", cap().nbrs0);
    if (cap().have_geo)
    {
        print_neighbors("nbrs", cap().nbrs);
        if (cap().have_lm)
        {
            std::ostringstream ol;
            ol << "R lm " << cap().lm.size() << " 1";
            for (auto v : cap().lm)
                ol << " " << v;
            std::cout << ol.str() << std::endl;
        }
        print_matrix("geo", cap().geo);
    }
    for (size_t i = 0; i < cap().handed.size(); i++)
        print_matrix("B" + std::to_string(i), cap().handed[i]);
    print_matrix("emb", out.embedding);
}

static void run_eig(int k, std::istringstream& is)
{
    int n;
    if (!(is >> n) || n < 1 || n > 2000) return bad(k, "n");
    DenseMatrix T;
    if (!read_matrix(is, n, n, T)) return bad(k, "matrix");
    Eigen::SelfAdjointEigenSolver<DenseMatrix> es(T);
    DenseMatrix vals = es.eigenvalues();
    print_matrix("vals", vals);
    print_matrix("vecs", es.eigenvectors());
}
#endif

int main()
{
    std::string line;
    int k = 0;
    while (std::getline(std::cin, line))
    {
        if (line.empty()) continue;
        std::istringstream is(line);
        std::string cmd;
        is >> cmd;
        std::cout << "C " << k << std::endl;
        try
        {
            if (cmd == "SP")
                run_sp(k, is);
            else if (cmd == "SPD")
                run_sp(k, is, true);
            else if (cmd == "BIG")
                run_big(k, is);
#ifdef C04_WITH_ISO
            else if (cmd == "ISO")
                run_iso(k, is);
            else if (cmd == "EIG")
                run_eig(k, is);
#endif
            else
                bad(k, "command");
        }
        catch (const std::exception& e)
        {
            std::string w = e.what();
            for (auto& c : w)
                if (c == '\n') c = ' ';
            std::cout << "X " << k << " " << w << std::endl;
        }
        std::cout << "END " << k << std::endl;
        k++;
    }
    return 0;
}
