// c15_embed.cpp — property C15, thorough tier: whole methods (public API tapkee::embed) under different
// thread counts / schedules.  The embedding E (N x d) is compared through its Gram matrix E E^T, which
// does not depend on the sign of an eigenvector nor on the rotation inside a multiple eigenvalue.
// Build flag -D'nowait=schedule(runtime) nowait' as for harness/c15.cpp.
//
// input:  COMBOS t:k:c ...      then    CASE <id> <method> <N> <D> <k> <d> <seed>
//         method: isomap lisomap mds lmds dm klle kltsa hlle
// output: "C <id>", per combination "R <id> <t> <k> <c> <rows> <cols> <maxabsdiff %a> <maxabsref %a> <nonfinite>"
//         or "R <id> <t> <k> <c> EXC <what>", then "E <id>".
#include <cmath>
#include <cstdio>
#include <cstdlib>
#include <cstring>
#include <iostream>
#include <limits>
#include <map>
#include <sstream>
#include <string>
#include <vector>
#include <omp.h>

#include <tapkee/callbacks/eigen_callbacks.hpp>
#include <tapkee/exceptions.hpp>
#include <tapkee/tapkee.hpp>

using namespace tapkee;

struct Combo
{
    int t, k, c;
};

static uint64_t lcg(uint64_t& s)
{
    s = s * 6364136223846793005ULL + 1442695040888963407ULL;
    return s >> 33;
}

static const DimensionReductionMethod* method_by_name(const std::string& s)
{
    static const std::map<std::string, const DimensionReductionMethod*> tbl = {
        {"klle", &KernelLocallyLinearEmbedding}, {"kltsa", &KernelLocalTangentSpaceAlignment},
        {"hlle", &HessianLocallyLinearEmbedding}, {"dm", &DiffusionMap},
        {"isomap", &Isomap},                     {"lisomap", &LandmarkIsomap},
        {"mds", &MultidimensionalScaling},       {"lmds", &LandmarkMultidimensionalScaling},
    };
    auto it = tbl.find(s);
    return it == tbl.end() ? nullptr : it->second;
}

int main()
{
    setvbuf(stdout, nullptr, _IOLBF, 0);
    Logging::instance().disable_info();
    Logging::instance().disable_warning();
    Logging::instance().disable_error();
    Logging::instance().disable_benchmark();
    Logging::instance().disable_debug();
    omp_set_dynamic(0);
    std::vector<Combo> combos;
    combos.push_back({1, 1, 0});
    std::string line;
    while (std::getline(std::cin, line))
    {
        std::istringstream is(line);
        std::string cmd;
        if (!(is >> cmd)) continue;
        if (cmd == "COMBOS")
        {
            combos.clear();
            std::string tok;
            while (is >> tok)
            {
                Combo c{1, 1, 0};
                if (sscanf(tok.c_str(), "%d:%d:%d", &c.t, &c.k, &c.c) == 3 && c.t >= 1 && c.t <= 64 && c.k >= 1 &&
                    c.k <= 3 && c.c >= 0)
                    combos.push_back(c);
            }
            if (combos.empty()) combos.push_back({1, 1, 0});
            continue;
        }
        if (cmd != "CASE") continue;
        long id;
        std::string mname;
        int N, D, k, d;
        unsigned long long seed;
        if (!(is >> id >> mname >> N >> D >> k >> d >> seed)) continue;
        printf("C %ld\n", id);
        const DimensionReductionMethod* m = method_by_name(mname);
        if (!m || N < 4 || N > 2000 || D < 1 || D > 20 || k < 1 || k >= N || d < 1 || d > 5)
        {
            printf("BAD %ld\nE %ld\n", id, id);
            continue;
        }
        DenseMatrix X(D, N);
        uint64_t s = seed * 2654435761ULL + 99;
        // a noisy curve: connected neighbourhood graphs, well separated leading eigenvalues
        for (int i = 0; i < N; i++)
        {
            double t = 3.0 * i / N;
            for (int j = 0; j < D; j++)
                X(j, i) = (j == 0 ? t : j == 1 ? std::sin(2 * t) : 0.3 * std::cos((j + 1) * t)) +
                          ((double)(lcg(s) % 2001) - 1000.0) / 40000.0;
        }
        std::vector<IndexType> idx(N);
        for (int i = 0; i < N; i++) idx[i] = i;
        eigen_kernel_callback kcb(X);
        eigen_distance_callback dcb(X);
        eigen_features_callback fcb(X);
        DenseMatrix Gref;
        for (size_t ci = 0; ci < combos.size(); ci++)
        {
            const Combo& c = combos[ci];
            omp_set_num_threads(c.t);
            omp_set_schedule(c.k == 1 ? omp_sched_static : c.k == 2 ? omp_sched_dynamic : omp_sched_guided, c.c);
            ParametersSet ps;
            ps.add(method = *m);
            ps.add(target_dimension = (IndexType)d);
            ps.add(num_neighbors = (IndexType)k);
            ps.add(neighbors_method = Brute);
            ps.add(eigen_method = Dense);
            ps.add(landmark_ratio = 0.5);
            ps.add(gaussian_kernel_width = 2.0);
            ps.add(diffusion_map_timesteps = (IndexType)2);
            srand((unsigned)seed);
#ifdef TAPKEE_VERIF_SHUFFLE_HOOK
            tapkee::verif_shuffle_reseed((unsigned)seed);
#endif
            try
            {
                TapkeeOutput out = embed(idx.begin(), idx.end(), kcb, dcb, fcb, ps);
                const DenseMatrix& E = out.embedding;
                DenseMatrix G = E * E.transpose();
                if (ci == 0) Gref = G;
                double maxd = 0, maxr = 0;
                long nonfinite = 0;
                if (G.rows() != Gref.rows() || G.cols() != Gref.cols())
                    maxd = std::numeric_limits<double>::infinity();
                else
                    for (int i = 0; i < G.rows(); i++)
                        for (int j = 0; j < G.cols(); j++)
                        {
                            if (!std::isfinite(G(i, j)) || !std::isfinite(Gref(i, j)))
                            {
                                nonfinite++;
                                continue;
                            }
                            maxd = std::max(maxd, std::fabs(G(i, j) - Gref(i, j)));
                            maxr = std::max(maxr, std::fabs(Gref(i, j)));
                        }
                printf("R %ld %d %d %d %ld %ld %a %a %ld\n", id, c.t, c.k, c.c, (long)E.rows(), (long)E.cols(), maxd, maxr,
                       nonfinite);
            }
            catch (const std::exception& e)
            {
                std::string w = e.what();
                for (auto& ch : w)
                    if (ch == '\n' || ch == ' ') ch = '_';
                printf("R %ld %d %d %d EXC %s\n", id, c.t, c.k, c.c, w.c_str());
            }
        }
        printf("E %ld\n", id);
        fflush(stdout);
    }
    return 0;
}
