// c15_embed.cpp — property C15: whole methods (public API tapkee::embed) under different thread counts /
// schedules, with a FIXED random stream (std::srand + hook H1 tapkee::verif_shuffle_reseed before every call).
// Used (a) by the always-on confirmation runs of the thorough tier and (b) by the search phase for OpenMP
// regions that appear in code the region table does not know: the check maps the header of the region to the
// public methods that include it and runs THEM here, at problem sizes on both sides of any `if (...)` clause.
//
// Observables per (case, combination):
//   * the embedding E (N x d).  Compared with the first combination (1 thread) (i) entrywise (methods without a
//     sign / rotation freedom: t-SNE, SPE, ...) and (ii) through its Gram matrix E E^T (free of the sign of an
//     eigenvector and of the rotation inside a multiple eigenvalue); the Gram matrix is never formed: entries
//     are recomputed pairwise (N up to 4000);
//   * the lines "Iteration <i>: error is <C>" the library logs (t-SNE): <C> is printed by fmt's shortest
//     round-trip format, so it is compared exactly.  Option stop=<i>: the harness' logger throws when the
//     message of iteration >= i arrives, which ends TSNE::run (its iteration count is a local constant, 1000):
//     "few iterations" through the public API; the observable is then the logged error only.
// Build flag -D'nowait=schedule(runtime) nowait' as for harness/c15.cpp.
//
// input:  COMBOS t:k:c ...      then    CASE <id> <method> <N> <D> <k> <d> <seed> [key=value ...]
//         method: isomap lisomap mds lmds dm klle kltsa hlle npe lltsa la lpp spe kpca pca ra fa tsne ms pt
//         keys:   eig=dense|randomized|arpack  nm=brute|vptree|covertree  ratio=<double>  theta=<double>
//                 perp=<double>  stop=<int>  width=<double>  steps=<int>  maxit=<int>
// output: "C <id>", per combination
//           "R <id> <t> <k> <c> <rows> <cols> <maxabsdiff-gram %a> <maxabsref-gram %a> <nonfinite> <maxabsdiff-entry %a>
//              <maxabs-entry %a> <hash of E>"
//           or "R <id> <t> <k> <c> EXC <what>"  or  "R <id> <t> <k> <c> STOP <iterations logged>"
//           and "L <id> <t> <k> <c> <iteration> <error %a>" per logged t-SNE progress line,
//         then "E <id>".
#include <cctype>
#include <cmath>
#include <cstdio>
#include <cstdlib>
#include <cstring>
#include <iostream>
#include <limits>
#include <map>
#include <sstream>
#include <string>
#include <vector>
#include <omp.h>

#include <tapkee/callbacks/eigen_callbacks.hpp>
#include <tapkee/exceptions.hpp>
#include <tapkee/tapkee.hpp>

using namespace tapkee;

struct Combo
{
    int t, k, c;
};

static uint64_t lcg(uint64_t& s)
{
    s = s * 6364136223846793005ULL + 1442695040888963407ULL;
    return s >> 33;
}

static uint64_t fnv(const double* p, size_t n)
{
    uint64_t h = 1469598103934665603ULL;
    const unsigned char* b = (const unsigned char*)p;
    for (size_t i = 0; i < n * sizeof(double); i++)
    {
        h ^= b[i];
        h *= 1099511628211ULL;
    }
    return h;
}

static const DimensionReductionMethod* method_by_name(const std::string& s)
{
    static const std::map<std::string, const DimensionReductionMethod*> tbl = {
        {"klle", &KernelLocallyLinearEmbedding},
        {"kltsa", &KernelLocalTangentSpaceAlignment},
        {"hlle", &HessianLocallyLinearEmbedding},
        {"dm", &DiffusionMap},
        {"isomap", &Isomap},
        {"lisomap", &LandmarkIsomap},
        {"mds", &MultidimensionalScaling},
        {"lmds", &LandmarkMultidimensionalScaling},
        {"npe", &NeighborhoodPreservingEmbedding},
        {"lltsa", &LinearLocalTangentSpaceAlignment},
        {"la", &LaplacianEigenmaps},
        {"lpp", &LocalityPreservingProjections},
        {"spe", &StochasticProximityEmbedding},
        {"kpca", &KernelPrincipalComponentAnalysis},
        {"pca", &PrincipalComponentAnalysis},
        {"ra", &RandomProjection},
        {"fa", &FactorAnalysis},
        {"tsne", &tDistributedStochasticNeighborEmbedding},
        {"ms", &ManifoldSculpting},
        {"pt", &PassThru},
    };
    auto it = tbl.find(s);
    return it == tbl.end() ? nullptr : it->second;
}

// a progress line of an iterative method = an info message with at least two numbers: the first is the iteration,
// the last the error ("Iteration 50: error is 67.1" today; robust to a rewording of the message)
static bool parse_progress(const std::string& msg, long& iteration, double& value)
{
    std::vector<double> nums;
    const char* s = msg.c_str();
    size_t n = msg.size();
    for (size_t i = 0; i < n;)
    {
        bool start = (isdigit((unsigned char)s[i]) || ((s[i] == '-' || s[i] == '.') && i + 1 < n && isdigit((unsigned char)s[i + 1]))) &&
                     (i == 0 || !(isalnum((unsigned char)s[i - 1]) || s[i - 1] == '_' || s[i - 1] == '.'));
        if (start)
        {
            char* e = nullptr;
            double v = strtod(s + i, &e);
            if (e && e > s + i)
            {
                nums.push_back(v);
                i = (size_t)(e - s);
                continue;
            }
        }
        i++;
    }
    if (nums.size() < 2) return false;
    iteration = (long)nums.front();
    value = nums.back();
    return true;
}

// thrown by the logger to end TSNE::run early (not derived from std::exception on purpose: nothing in the
// library catches it)
struct stop_request
{
    int iteration;
};

struct CaptureLogger : public LoggerImplementation
{
    std::vector<std::pair<long, double>> lines;
    long stop_at = -1;
    virtual void message_info(const std::string& msg)
    {
        long it = 0;
        double c = 0;
        if (parse_progress(msg, it, c))
        {
            lines.push_back({it, c});
            if (stop_at >= 0 && it >= stop_at) throw stop_request{(int)it};
        }
    }
    virtual void message_warning(const std::string&) {}
    virtual void message_debug(const std::string&) {}
    virtual void message_error(const std::string&) {}
    virtual void message_benchmark(const std::string&) {}
};

int main()
{
    setvbuf(stdout, nullptr, _IOLBF, 0);
    CaptureLogger* logger = new CaptureLogger;
    Logging::instance().set_logger_impl(logger);      // owned by the singleton from here on
    Logging::instance().enable_info();
    Logging::instance().disable_warning();
    Logging::instance().disable_error();
    Logging::instance().disable_benchmark();
    Logging::instance().disable_debug();
    omp_set_dynamic(0);
    std::vector<Combo> combos;
    combos.push_back({1, 1, 0});
    std::string line;
    while (std::getline(std::cin, line))
    {
        std::istringstream is(line);
        std::string cmd;
        if (!(is >> cmd)) continue;
        if (cmd == "COMBOS")
        {
            combos.clear();
            std::string tok;
            while (is >> tok)
            {
                Combo c{1, 1, 0};
                if (sscanf(tok.c_str(), "%d:%d:%d", &c.t, &c.k, &c.c) == 3 && c.t >= 1 && c.t <= 64 && c.k >= 1 &&
                    c.k <= 3 && c.c >= 0)
                    combos.push_back(c);
            }
            if (combos.empty()) combos.push_back({1, 1, 0});
            continue;
        }
        if (cmd != "CASE") continue;
        long id;
        std::string mname;
        int N, D, k, d;
        unsigned long long seed;
        if (!(is >> id >> mname >> N >> D >> k >> d >> seed)) continue;
        std::map<std::string, std::string> opt;
        {
            std::string kv;
            while (is >> kv)
            {
                size_t e = kv.find('=');
                if (e != std::string::npos) opt[kv.substr(0, e)] = kv.substr(e + 1);
            }
        }
        auto optd = [&](const char* key, double dflt) {
            auto it = opt.find(key);
            return it == opt.end() ? dflt : atof(it->second.c_str());
        };
        auto opts = [&](const char* key, const char* dflt) {
            auto it = opt.find(key);
            return it == opt.end() ? std::string(dflt) : it->second;
        };
        printf("C %ld\n", id);
        const DimensionReductionMethod* m = method_by_name(mname);
        if (!m || N < 4 || N > 4000 || D < 1 || D > 20 || k < 1 || k >= N || d < 1 || d > 5)
        {
            printf("BAD %ld\nE %ld\n", id, id);
            continue;
        }
        DenseMatrix X(D, N);
        uint64_t s = seed * 2654435761ULL + 99;
        // a noisy curve: connected neighbourhood graphs, well separated leading eigenvalues
        for (int i = 0; i < N; i++)
        {
            double t = 3.0 * i / N;
            for (int j = 0; j < D; j++)
                X(j, i) = (j == 0 ? t : j == 1 ? std::sin(2 * t) : 0.3 * std::cos((j + 1) * t)) +
                          ((double)(lcg(s) % 2001) - 1000.0) / 40000.0;
        }
        std::vector<IndexType> idx(N);
        for (int i = 0; i < N; i++) idx[i] = i;
        eigen_kernel_callback kcb(X);
        eigen_distance_callback dcb(X);
        eigen_features_callback fcb(X);
        const std::string eig = opts("eig", "dense"), nm = opts("nm", "brute");
        DenseMatrix Eref;
        for (size_t ci = 0; ci < combos.size(); ci++)
        {
            const Combo& c = combos[ci];
            omp_set_num_threads(c.t);
            omp_set_schedule(c.k == 1 ? omp_sched_static : c.k == 2 ? omp_sched_dynamic : omp_sched_guided, c.c);
            ParametersSet ps;
            ps.add(method = *m);
            ps.add(target_dimension = (IndexType)d);
            ps.add(num_neighbors = (IndexType)k);
            ps.add(neighbors_method = (nm == "vptree" ? VpTree : nm == "covertree" ? CoverTree : Brute));
            ps.add(eigen_method = (eig == "randomized" ? Randomized :
#ifdef TAPKEE_WITH_ARPACK
                                   eig == "arpack" ? Arpack :
#endif
                                                   Dense));
            ps.add(landmark_ratio = optd("ratio", 0.5));
            ps.add(gaussian_kernel_width = optd("width", 2.0));
            ps.add(diffusion_map_timesteps = (IndexType)optd("steps", 2));
            ps.add(max_iteration = (IndexType)optd("maxit", 20));
            ps.add(sne_theta = optd("theta", 0.5));
            ps.add(sne_perplexity = optd("perp", std::min(30.0, std::floor((N - 1) / 3.0))));
            logger->lines.clear();
            logger->stop_at = (long)optd("stop", -1);
            srand((unsigned)seed);
#ifdef TAPKEE_VERIF_SHUFFLE_HOOK
            tapkee::verif_shuffle_reseed((unsigned)seed);
#endif
            bool have = false;
            DenseMatrix E;
            try
            {
                TapkeeOutput out = embed(idx.begin(), idx.end(), kcb, dcb, fcb, ps);
                E = out.embedding;
                have = true;
            }
            catch (const stop_request& sr)
            {
                printf("R %ld %d %d %d STOP %zu\n", id, c.t, c.k, c.c, logger->lines.size());
            }
            catch (const std::exception& e)
            {
                std::string w = e.what();
                for (auto& ch : w)
                    if (ch == '\n' || ch == ' ') ch = '_';
                printf("R %ld %d %d %d EXC %s\n", id, c.t, c.k, c.c, w.c_str());
            }
            for (auto& l : logger->lines) printf("L %ld %d %d %d %ld %a\n", id, c.t, c.k, c.c, l.first, l.second);
            if (!have) continue;
            if (ci == 0 || Eref.size() == 0) Eref = E;
            double maxd = 0, maxr = 0, maxe = 0, maxa = 0;
            long nonfinite = 0;
            if (E.rows() != Eref.rows() || E.cols() != Eref.cols())
                maxd = maxe = std::numeric_limits<double>::infinity();
            else
            {
                for (int i = 0; i < E.rows(); i++)
                    for (int j = 0; j < E.cols(); j++)
                    {
                        if (!std::isfinite(E(i, j)) || !std::isfinite(Eref(i, j)))
                        {
                            nonfinite++;
                            continue;
                        }
                        maxe = std::max(maxe, std::fabs(E(i, j) - Eref(i, j)));
                        maxa = std::max(maxa, std::fabs(Eref(i, j)));
                    }
                if (nonfinite == 0)
                {
                    const int n = (int)E.rows(), dd = (int)E.cols();
                    for (int i = 0; i < n; i++)
                        for (int j = i; j < n; j++)
                        {
                            double g = 0, gr = 0;
                            for (int q = 0; q < dd; q++)
                            {
                                g += E(i, q) * E(j, q);
                                gr += Eref(i, q) * Eref(j, q);
                            }
                            maxd = std::max(maxd, std::fabs(g - gr));
                            maxr = std::max(maxr, std::fabs(gr));
                        }
                }
            }
            printf("R %ld %d %d %d %ld %ld %a %a %ld %a %a %016llx\n", id, c.t, c.k, c.c, (long)E.rows(), (long)E.cols(), maxd,
                   maxr, nonfinite, maxe, maxa, (unsigned long long)fnv(E.data(), (size_t)E.size()));
        }
        printf("E %ld\n", id);
        fflush(stdout);
    }
    return 0;
}
