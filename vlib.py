"""vlib — common machinery for the /verif checks (see CONVENTIONS.md section 4).

A check module (checks/cxx.py) gets a Ctx and uses it to
  * build the Coq development and learn which property theorems were discharged and
    which axioms each depends on (Print Assumptions),
  * extract the executable model and build its OCaml driver,
  * build the C++ harness against the *current working tree* of the repository,
  * run cases, record violations / mismatches, and
  * write the evidence file and exit with the verdict of CONVENTIONS.md section 3.
"""
import fcntl
import glob
import hashlib
import json
import os
import random
import re
import shutil
import subprocess
import sys
import time

VERIF = os.path.dirname(os.path.abspath(__file__))
COQ = os.path.join(VERIF, "coq")
REPO = os.environ.get("VERIF_REPO", "/repo")

CXX = os.environ.get("VERIF_CXX", "g++")
BASE_FLAGS = [
    "-std=gnu++23", "-fopenmp", "-DFMT_HEADER_ONLY=1", "-DTAPKEE_USE_LGPL_COVERTREE",
    "-DTAPKEE_VERIF", "-isystem", "/root/miniconda/include", "-isystem", "/usr/include/eigen3",
    "-w",
]
SAN_FLAGS = ["-O1", "-g", "-fsanitize=address,undefined", "-fno-sanitize-recover=all",
             "-D_GLIBCXX_ASSERTIONS"]
NOSAN_FLAGS = ["-O2"]

FORBIDDEN = re.compile(
    r"\b(Axiom|Axioms|Parameter|Parameters|Conjecture|Admitted|admit|Admit\s+Obligations|"
    r"Unset\s+Guard\s+Checking|Unset\s+Positivity\s+Checking|Unset\s+Universe\s+Checking|"
    r"bypass_check|native_compute|Set\s+Universe\s+Polymorphism\s+Cumulativity)\b")


class BuildError(Exception):
    pass


class RunResult:
    def __init__(self, rc, out, err, timed_out):
        self.rc, self.out, self.err, self.timed_out = rc, out, err, timed_out
        self.sanitizer = None
        for pat in ("ERROR: AddressSanitizer", "ERROR: LeakSanitizer", "runtime error:",
                    "Assertion", "terminate called", "stack-overflow",
                    "__glibcxx_assert", "Segmentation fault"):
            if pat in err:
                i = err.find(pat)
                self.sanitizer = err[max(0, i - 100): i + 600]
                break

    def lines(self):
        return self.out.splitlines()


class CoqResult:
    def __init__(self):
        self.ok = False
        self.theorems = []
        self.assumptions = {}
        self.obligations = 0
        self.discharged = 0
        self.log = ""
        self.failed = []
        self.forbidden = []


def _strip_coq_comments(text):
    out, depth, i, n = [], 0, 0, len(text)
    while i < n:
        if text.startswith("(*", i):
            depth += 1
            i += 2
        elif text.startswith("*)", i) and depth > 0:
            depth -= 1
            i += 2
        else:
            if depth == 0:
                out.append(text[i])
            i += 1
    return "".join(out)


def _coq_requires(path):
    """Names of TK modules a .v file requires (flat namespace)."""
    try:
        txt = _strip_coq_comments(open(path).read())
    except OSError:
        return []
    names = []
    for m in re.finditer(r"From\s+TK\s+Require\s+(?:Import\s+|Export\s+)?([^.]*)\.", txt):
        names += m.group(1).split()
    for m in re.finditer(r"Require\s+(?:Import\s+|Export\s+)?((?:TK\.[\w.]+\s*)+)\.", txt):
        names += [x.split(".")[-1] for x in m.group(1).split()]
    return names


def _find_v(name):
    for cand in (os.path.join(COQ, name + ".v"), os.path.join(COQ, "gen", name + ".v")):
        if os.path.exists(cand):
            return cand
    hits = glob.glob(os.path.join(COQ, "**", name + ".v"), recursive=True)
    return hits[0] if hits else None


def coq_closure(vfile):
    seen, todo = [], [vfile]
    while todo:
        f = todo.pop()
        if f in seen or f is None:
            continue
        seen.append(f)
        for n in _coq_requires(f):
            todo.append(_find_v(n))
    return seen


class Ctx:
    def __init__(self, pid, tier, seed):
        self.id = pid
        self.tier = tier
        self.seed = seed
        self.rng = random.Random(seed)
        self.repo = REPO
        self.verif = VERIF
        # VERIF_BUILD_TAG lets two runs of the same check (e.g. coordinator and developer) use separate scratch dirs
        self.build = os.path.join(VERIF, "build", pid + os.environ.get("VERIF_BUILD_TAG", ""))
        os.makedirs(self.build, exist_ok=True)
        # the coordinator's seeded-change tools run checks against scratch trees: they set VERIF_EVIDENCE_DIR so that
        # /verif/evidence/<id>.json (the record of the last run against /repo) is never overwritten by such a run
        self.evidence_dir = os.environ.get("VERIF_EVIDENCE_DIR") or os.path.join(VERIF, "evidence")
        os.makedirs(self.evidence_dir, exist_ok=True)
        os.makedirs(os.path.join(VERIF, "replays"), exist_ok=True)
        self.t0 = time.time()
        self._violations = []   # (case, why)
        self._known = []        # (signature, why)
        self._unshown = []      # strings
        self._mismatches = []   # (case, detail)
        self._notes = []
        self._coq = None
        self._known_db = self._load_known()
        self.quick = tier == "quick"

    # ------------------------------------------------------------------ known findings
    def _load_known(self):
        p = os.path.join(VERIF, "known_findings.json")
        if not os.path.exists(p):
            return []
        try:
            return [e for e in json.load(open(p)) if e.get("property") == self.id]
        except Exception:
            return []

    # ------------------------------------------------------------------ Coq
    def _lock(self):
        os.makedirs(os.path.join(VERIF, "build"), exist_ok=True)
        f = open(os.path.join(VERIF, "build", "coq.lock"), "w")
        fcntl.flock(f, fcntl.LOCK_EX)
        return f

    def _coq_project(self):
        files = []
        for p in sorted(glob.glob(os.path.join(COQ, "**", "*.v"), recursive=True)):
            rel = os.path.relpath(p, COQ)
            if rel.startswith("extract" + os.sep) or rel.startswith("scratch" + os.sep):
                continue
            files.append(rel)
        content = "-Q . TK\n"
        content += "-arg -w -arg -all\n" + "\n".join(files) + "\n"
        proj = os.path.join(COQ, "_CoqProject")
        old = open(proj).read() if os.path.exists(proj) else None
        if old != content or not os.path.exists(os.path.join(COQ, "Makefile")):
            open(proj, "w").write(content)
            subprocess.run(["coq_makefile", "-f", "_CoqProject", "-o", "Makefile"], cwd=COQ,
                           check=True, capture_output=True)

    def coq_make(self, targets, timeout=1500):
        """make -k the given .vo targets (relative to coq/). Returns (ok, log)."""
        lock = self._lock()
        try:
            self._coq_project()
            p = subprocess.run(["make", "-k", "-j16"] + list(targets), cwd=COQ, capture_output=True,
                               text=True, timeout=timeout)
            return p.returncode == 0, p.stdout[-6000:] + p.stderr[-6000:]
        except subprocess.TimeoutExpired:
            return False, "make timed out"
        finally:
            lock.close()

    def coq(self, props_file=None, extra_targets=()):
        props_file = props_file or "Properties_%s.v" % self.id
        res = CoqResult()
        self._coq = res
        src = os.path.join(COQ, props_file)
        if not os.path.exists(src):
            res.log = "missing " + props_file
            self.unshown("properties file %s is missing" % props_file)
            return res
        text = _strip_coq_comments(open(src).read())
        res.theorems = re.findall(r"^\s*(?:Theorem|Lemma|Corollary|Example|Fact|Proposition)\s+(\w+)",
                                  text, re.M)
        res.obligations = len(res.theorems)
        # hygiene: nothing forbidden in the transitive closure
        for f in coq_closure(src):
            for m in FORBIDDEN.finditer(_strip_coq_comments(open(f).read())):
                res.forbidden.append("%s: %s" % (os.path.relpath(f, COQ), m.group(0)))
        if re.search(r"^\s*(Variable|Hypothesis|Context)\b", text, re.M) and "Section" not in text:
            res.forbidden.append(props_file + ": Variable/Hypothesis outside a Section")
        # build everything the properties file depends on with make, then compile the properties file itself
        # exactly once with coqc (writing its .vo in place) so that the Print Assumptions output is captured
        deps = []
        for f in coq_closure(src):
            if f is not None and os.path.abspath(f) != os.path.abspath(src):
                deps.append(os.path.relpath(f, COQ)[:-2] + ".vo")
        targets = sorted(set(deps)) + list(extra_targets)
        ok, log = self.coq_make(targets) if targets else (True, "")
        res.log = log
        out = ""
        if ok:
            lock = self._lock()
            try:
                args = ["coqc", "-Q", ".", "TK"]
                p = subprocess.run(args + ["-w", "-all", props_file], cwd=COQ, capture_output=True, text=True,
                                   timeout=1500)
                out = p.stdout
                ok = p.returncode == 0
                if not ok:
                    res.log += p.stderr[-4000:]
            except subprocess.TimeoutExpired:
                ok = False
                res.log += "coqc on properties file timed out"
            finally:
                lock.close()
        names = re.findall(r"Print\s+Assumptions\s+(\w+)", text)
        blocks = re.split(r"(?m)^(?=Closed under the global context|Axioms:)", out)
        blocks = [b for b in blocks if b.startswith("Closed under") or b.startswith("Axioms:")]
        for n, b in zip(names, blocks):
            if b.startswith("Closed"):
                res.assumptions[n] = []
            else:
                res.assumptions[n] = re.findall(r"(?m)^([\w.']+)\s*:", b[len("Axioms:"):])
        if ok and not res.forbidden:
            res.ok = True
            res.discharged = res.obligations
        else:
            m = re.search(r'File "[^"]*%s", line (\d+)' % re.escape(props_file), res.log)
            if m:
                line = int(m.group(1))
                pre = "\n".join(open(src).read().splitlines()[: line - 1])
                res.discharged = len(re.findall(
                    r"^\s*(?:Theorem|Lemma|Corollary|Example|Fact|Proposition)\s+\w+",
                    _strip_coq_comments(pre), re.M))
                res.discharged = max(0, res.discharged - 1)
            why = "proof obligations in %s no longer check" % props_file
            if res.forbidden:
                why = "forbidden constructs: " + "; ".join(res.forbidden[:5])
            else:
                errs = re.findall(r'(File "[^"]+", line \d+[^\n]*\n(?:[^\n]*\n){0,6})', res.log)
                if errs:
                    why += ": " + errs[0].strip()[:800]
            self.unshown(why)
        return res

    def extract(self, extract_v=None, driver_ml=None, packages=()):
        extract_v = extract_v or "Extract_%s.v" % self.id
        driver_ml = driver_ml or "%s_driver.ml" % self.id.lower()
        exdir = os.path.join(COQ, "extract")
        src = os.path.join(exdir, extract_v)
        deps = [os.path.relpath(_find_v(n), COQ)[:-2] + ".vo" for n in _coq_requires(src) if _find_v(n)]
        ok, log = self.coq_make(deps)
        if not ok:
            raise BuildError("model files needed by %s do not compile:\n%s" % (extract_v, log[-3000:]))
        bdir = os.path.join(self.build, "extract")
        shutil.rmtree(bdir, ignore_errors=True)
        os.makedirs(bdir)
        args = ["coqc", "-Q", COQ, "TK"]
        p = subprocess.run(args + ["-w", "-all", "-o", os.path.join(bdir, extract_v[:-2] + ".vo"), src], cwd=bdir,
                           capture_output=True, text=True, timeout=900)
        if p.returncode != 0:
            raise BuildError("extraction failed: " + p.stderr[-3000:])
        mls = sorted(glob.glob(os.path.join(bdir, "*.ml")))
        if not mls:
            raise BuildError("extraction produced no .ml file")
        shutil.copy(os.path.join(exdir, driver_ml), bdir)
        files = []
        for ml in mls:
            if os.path.exists(ml + "i"):
                files.append(os.path.basename(ml) + "i")
            files.append(os.path.basename(ml))
        exe = os.path.join(bdir, "model.exe")
        cmd = ["ocamlfind", "ocamlopt", "-w", "-a"]
        if packages:
            cmd += ["-package", ",".join(packages), "-linkpkg"]
        p = subprocess.run(cmd + files + [driver_ml, "-o", exe], cwd=bdir, capture_output=True,
                           text=True, timeout=900)
        if p.returncode != 0:
            raise BuildError("ocaml build failed: " + (p.stderr + p.stdout)[-3000:])
        return exe

    # ------------------------------------------------------------------ C++
    def repo_hash(self, subdirs=("include", "src")):
        h = hashlib.sha256()
        for sd in subdirs:
            for root, dirs, files in sorted(os.walk(os.path.join(self.repo, sd))):
                dirs.sort()
                for f in sorted(files):
                    p = os.path.join(root, f)
                    h.update(os.path.relpath(p, self.repo).encode())
                    try:
                        h.update(open(p, "rb").read())
                    except OSError:
                        pass
        return h.hexdigest()

    def cpp(self, src, name=None, defines=(), sanitize=True, eigen_debug=False, extra=(),
            timeout=900):
        src = src if os.path.isabs(src) else os.path.join(VERIF, src)
        name = name or os.path.splitext(os.path.basename(src))[0]
        flags = list(BASE_FLAGS) + ["-I", os.path.join(self.repo, "include"),
                                    "-I", os.path.join(VERIF, "harness")]
        flags += SAN_FLAGS if sanitize else NOSAN_FLAGS
        if eigen_debug:
            flags += ["-DTAPKEE_DEBUG", "-UNDEBUG"]
        else:
            flags += ["-DNDEBUG"] if not sanitize else []
        flags += ["-D" + d for d in defines] + list(extra)
        h = hashlib.sha256()
        h.update(open(src, "rb").read())
        for inc in sorted(glob.glob(os.path.join(VERIF, "harness", "*.hpp"))):
            h.update(open(inc, "rb").read())
        h.update(" ".join(flags).encode())
        h.update(self.repo_hash().encode())
        cdir = os.path.join(VERIF, "build", "cache")
        os.makedirs(cdir, exist_ok=True)
        exe = os.path.join(cdir, "%s_%s" % (name, h.hexdigest()[:20]))
        if os.path.exists(exe):
            try:
                os.utime(exe)          # binaries in use stay the newest, so pruning never removes them
            except OSError:
                pass
            return exe
        tmp = exe + ".tmp%d" % os.getpid()
        try:
            p = subprocess.run([CXX] + flags + [src, "-o", tmp], capture_output=True, text=True,
                               timeout=timeout)
        except subprocess.TimeoutExpired:
            raise BuildError("C++ build of %s timed out" % name)
        if p.returncode != 0:
            if os.path.exists(tmp):
                os.remove(tmp)
            raise BuildError("C++ build of %s failed:\n%s" % (name, p.stderr[-4000:]))
        os.replace(tmp, exe)
        # keep the cache small: drop older binaries of the same name
        olds = sorted((o for o in glob.glob(os.path.join(cdir, name + "_*"))
                       if re.fullmatch(re.escape(name) + r"_[0-9a-f]{20}", os.path.basename(o))),
                      key=os.path.getmtime)
        for o in olds[:-6]:
            try:
                if time.time() - os.path.getmtime(o) < 7200:
                    continue           # possibly in use by a concurrent run of the same check
                os.remove(o)
            except OSError:
                pass
        return exe

    def run(self, exe, stdin_text="", timeout=120, env=None, args=()):
        e = dict(os.environ)
        e.setdefault("ASAN_OPTIONS", "detect_leaks=0:abort_on_error=0:allocator_may_return_null=1")
        e.setdefault("UBSAN_OPTIONS", "print_stacktrace=1")
        if env:
            e.update(env)
        cmd = [exe] if isinstance(exe, str) else list(exe)
        try:
            p = subprocess.run(cmd + list(args), input=stdin_text, capture_output=True, text=True,
                               timeout=timeout, env=e, errors="replace")
            return RunResult(p.returncode, p.stdout, p.stderr, False)
        except subprocess.TimeoutExpired as ex:
            out = ex.stdout.decode(errors="replace") if isinstance(ex.stdout, bytes) else (ex.stdout or "")
            err = ex.stderr.decode(errors="replace") if isinstance(ex.stderr, bytes) else (ex.stderr or "")
            return RunResult(-9, out, err, True)

    # ------------------------------------------------------------------ corpus
    def corpus(self):
        out = []
        for p in sorted(glob.glob(os.path.join(VERIF, "corpus", self.id, "*.json"))):
            try:
                out.append((os.path.basename(p), json.load(open(p))))
            except Exception as ex:
                self.note("unreadable corpus file %s: %s" % (p, ex))
        return out

    # ------------------------------------------------------------------ verdicts
    def violation(self, case, why, signature=None):
        """The implementation violates the property on this concrete case."""
        if signature is not None:
            for e in self._known_db:
                if e.get("kind") == "finding" and e.get("signature") == signature:
                    if signature not in [k[0] for k in self._known]:
                        self._known.append((signature, why))
                        print("KNOWN-FINDING: property=%s %s" % (self.id, e.get("what", why)))
                        sys.stdout.flush()
                    return False
        self._violations.append((case, why))
        return True

    def unshown(self, what):
        """A proof obligation / translator obligation / correspondence no longer checks."""
        if what not in self._unshown:
            self._unshown.append(what)

    violation_no_input = unshown

    def mismatch(self, case, detail):
        self._mismatches.append((case, detail))
        self.unshown("model/implementation correspondence: " + str(detail)[:300])

    def is_unshown(self):
        return bool(self._unshown) and not self._violations

    def has_violation(self):
        return bool(self._violations)

    def note(self, text):
        self._notes.append(text)

    def elapsed(self):
        return time.time() - self.t0

    def finish(self, evaluations=0, distinct_nontrivial=0, rule="", samples=(), histogram=None,
               trusted_base=(), assumptions=(), extra=None):
        coq = self._coq or CoqResult()
        axioms = sorted({a for l in coq.assumptions.values() for a in l})
        cov = {
            "obligations": coq.obligations,
            "discharged": coq.discharged,
            "checker_cmd": "coq_makefile -f coq/_CoqProject && make -k -j16 Properties_%s.vo "
                           "(coqc 8.16.1, full .vo build) ; coqc Properties_%s.v for Print Assumptions"
                           % (self.id, self.id),
            "trusted_base": list(trusted_base) + ["Coq 8.16.1 kernel + vm_compute (no native_compute)",
                                                 "axioms reported by Print Assumptions: "
                                                 + (", ".join(axioms) if axioms else "none (all theorems closed under the global context)")],
            "theorems": coq.theorems,
            "assumptions_by_theorem": coq.assumptions,
            "evaluations": int(evaluations),
            "distinct_nontrivial": int(distinct_nontrivial),
            "rule": rule,
            "samples": list(samples)[:8] if samples else ["(no cases run)"],
            "histogram": histogram or {},
            "mismatches": [{"case": c, "detail": d} for c, d in self._mismatches[:5]],
            "unshown": self._unshown[:10],
            "known_findings_seen": [k[0] for k in self._known],
            "notes": self._notes[:40],
            "repo": self.repo,
        }
        if extra:
            cov.update(extra)
        rc = 0
        lines = []
        if self._violations:
            rc = 1
            seen = set()
            for i, (case, why) in enumerate(self._violations[:5]):
                key = json.dumps(case, sort_keys=True, default=str)
                if key in seen:
                    continue
                seen.add(key)
                path = os.path.join(VERIF, "replays", "%s_%d.json" % (self.id, i))
                json.dump({"property": self.id, "why": why, "case": case, "seed": self.seed,
                           "tier": self.tier}, open(path, "w"), indent=1, default=str)
                lines.append("VIOLATION property=%s replay=%s" % (self.id, path))
        elif self._unshown:
            rc = 1
            path = os.path.join(VERIF, "replays", "%s_unshown.json" % self.id)
            json.dump({"property": self.id, "no_longer_checks": self._unshown,
                       "mismatches": [{"case": c, "detail": d} for c, d in self._mismatches[:20]],
                       "coq_log_tail": coq.log[-3000:], "seed": self.seed, "tier": self.tier},
                      open(path, "w"), indent=1, default=str)
            lines.append("VIOLATION property=%s replay=%s no-failing-input-found" % (self.id, path))
        ev = {
            "property_id": self.id,
            "tier": self.tier,
            "seed": self.seed,
            "level": "proof",
            "coverage": cov,
            "assumptions": list(assumptions),
            "wall_s": round(time.time() - self.t0, 2),
            "violations": len(self._violations) + (1 if (self._unshown and not self._violations) else 0),
        }
        json.dump(ev, open(os.path.join(self.evidence_dir, self.id + ".json"), "w"), indent=1,
                  default=str)
        for l in lines:
            print(l)
        for c, why in self._violations[:5]:
            print("  why: " + str(why)[:500])
        for u in self._unshown[:5]:
            print("  no longer shown: " + u[:500])
        print("%s %s tier=%s seed=%d obligations=%d discharged=%d evaluations=%d wall=%.1fs" % (
            self.id, "OK" if rc == 0 else "FAIL", self.tier, self.seed, coq.obligations,
            coq.discharged, evaluations, time.time() - self.t0))
        sys.stdout.flush()
        sys.exit(rc)


# ---------------------------------------------------------------------- small helpers
def hexfloat_to_fraction(s):
    from fractions import Fraction
    return Fraction(float.fromhex(s))


def shrink_list(items, fails, max_steps=400):
    """ddmin-style shrinking of a list while `fails(list)` stays true."""
    items = list(items)
    n = 2
    steps = 0
    while len(items) >= 2 and steps < max_steps:
        chunk = max(1, len(items) // n)
        reduced = False
        for i in range(0, len(items), chunk):
            cand = items[:i] + items[i + chunk:]
            steps += 1
            if cand and fails(cand):
                items = cand
                n = max(n - 1, 2)
                reduced = True
                break
        if not reduced:
            if chunk == 1:
                break
            n = min(len(items), n * 2)
    return items
