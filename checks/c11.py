"""C11 — landmark methods embed the landmarks exactly and triangulate the rest consistently.

proof  : coq/Landmark_Model.v (executable model of select_landmarks_random, triangulate with its
         write trace, the Landmark-MDS / Landmark-Isomap / MDS / Isomap embed() bodies),
         coq/Landmark_Float.v (binary64 decisions, PrimFloat), coq/Landmark_Spec.v,
         coq/Landmark_Proof_*.v, coq/Properties_C11.v.
tie    : harness/c11.cpp drives the real routines and the public API on the same inputs as the
         extracted model (coq/extract/c11_driver.ml):
           S  select_landmarks_random with hook H1: the observed permutation goes to the model, the
              landmark list must be the model's (exact), the count must be Coq's PrimFloat value
           R  triangulate() alone on small dyadic operands: embedding and the in-place divided
              eigenvector matrix compared EXACTLY
           T  the embed() body of Landmark MDS through the internal routines: D2, mu, B exact on
              integer metrics with a power-of-two landmark count; eigen/sqrt oracle contracts
              checked; embedding compared with lmds_embed (the function the theorems are about)
              on the tolerance stream; extracted triangulation spec on the implementation's output
           I  the embed() body of Landmark Isomap (dense): geodesics against an exact reference,
              B exact, embedding + factor equations on the tolerance stream
           E  public API: Euclidean data of intrinsic dimension d, many seeds: permutation observed,
              landmark subset checked for affine span, all pairwise distances reproduced
              (extracted decision procedure), landmark rows = MDS of the subset modulo sign;
              ratio = 1 against MDS / Isomap modulo sign.
           TM / IM  (wave 2) streams T / I on the REAL embed() bodies of the two landmark method classes:
              function-like macros around their routine calls record what embed() hands over (harness mode M)
           ER (wave 2) Landmark MDS with eigen_method = Randomized on rank-d Euclidean data, unit scale
           every data-carrying stream is run a second time on a copy of its data multiplied by 2^sc,
           sc in -40..40, results multiplied back exactly: tolerances are relative to the data scale and an
           absolute threshold anywhere in the landmark code gives a concrete (scaled) replay.
search : when a proof or the correspondence breaks, the same generators at a larger budget with
         the spec decision procedures only.
"""
import hashlib
import json
import math
import os
import re
import subprocess
from fractions import Fraction

import vlib

PROPERTY = "C11"
F21_SIG = "F21-target-dimension-rank"

TRUSTED = [
    "hand-written model Landmark_Model.v tied by differential testing (not a proof about the C++ text)",
    "oracles (contracts are theorem hypotheses, checked on every observed call): tapkee::random_shuffle "
    "returns a permutation (hook H1 reports it); Eigen SelfAdjointEigenSolver (B V = V diag(lam), V^T V = I, "
    "ascending); sqrt (s*s = lam); the distance callback's table; landmark geodesics (Dijkstra, property C04; "
    "compared here against an exact Floyd-Warshall reference)",
    "IEEE rounding of the matrix pipeline is not modelled: exact stream on dyadic operands, tolerance stream "
    "(1e-9 relative) elsewhere; static_cast<IndexType>(N*ratio) and 3.0/N are modelled bit-exactly with Coq "
    "primitive floats (vm_compute inside coqc)",
    "extraction (ExtrOcamlBasic only) + OCaml 4.13.1 + coq/extract/c11_driver.ml (parsing/printing)",
    "harness/c11.cpp (mode M: function-like macros around select_landmarks_random / compute_distance_matrix / "
    "compute_shortest_distances_matrix / eigendecomposition_via / triangulate inside methods/landmark_*.hpp record the "
    "operands of the real embed() bodies); g++ ASan/UBSan/_GLIBCXX_ASSERTIONS as crash observer; Python float/Fraction "
    "conversions; power-of-two rescaling of inputs and outputs (math.ldexp, exact)",
    "the outcome of triangulate's null-eigenvalue comparison is an input (`keep`) of the executable model, derived by the "
    "check from the implementation's eigenvalues threshold-agnostically (clearly null <= 1e-13*L*max, clearly kept > 1e-9*max, "
    "in between not judged); keep_rel (Landmark_Proof_Scale.v) specifies it in exact rationals, not bit-exactly",
    "Coq primitives listed by Print Assumptions for the two PrimFloat sweeps (PrimFloat.*, PrimInt63.*: "
    "stdlib-declared primitive operations, no user axioms)",
]


# ----------------------------------------------------------------------------- numbers
def tok(x):
    """exact token 'm:e' (= m * 2^e) of a float / int / dyadic Fraction for the OCaml driver"""
    if isinstance(x, int):
        num, den = x, 1
    elif isinstance(x, float):
        num, den = x.as_integer_ratio()
    else:
        num, den = x.numerator, x.denominator
    if num == 0:
        return "0"
    e = -(den.bit_length() - 1)
    if den != 1 << (den.bit_length() - 1):
        raise ValueError("not dyadic: %r" % (x,))
    while num % 2 == 0:
        num //= 2
        e += 1
    if abs(num) >= 1 << 61:
        raise ValueError("mantissa too large: %r" % (x,))
    return "%d:%d" % (num, e) if e else str(num)


def hx(x):
    return float(x).hex()


def parse_hex_floats(words):
    out = []
    for w in words:
        v = float.fromhex(w) if w not in ("nan", "-nan", "inf", "-inf") else float(w.replace("-nan", "nan"))
        out.append(v)
    return out


def parse_q(s):
    a, b = s.split("/")
    neg = a.startswith("-")
    if neg:
        a = a[1:]
    v = Fraction(int(a, 16), int(b, 16))
    return -v if neg else v


def finite(xs):
    return all(isinstance(v, float) and math.isfinite(v) for v in xs)


# ----------------------------------------------------------------------------- power-of-two scaling
# Every stream that carries data is also run on copies of the data multiplied by 2^sc (case field "sc",
# -40 .. 40).  Multiplying binary64 numbers by a power of two is exact (no overflow / underflow at these
# sizes), and every step of Landmark MDS / Landmark Isomap / triangulate is homogeneous in the data, so the
# implementation's results on the scaled copy are the unscaled results times a known power of 2^sc, up to
# nothing on the exact streams and up to rounding on the tolerance streams.  The results are multiplied back
# (exactly) and then judged by the very same evaluators at unit scale — so every tolerance is relative to
# the data scale, and an ABSOLUTE threshold anywhere in the landmark code shows up as a concrete failing
# (scaled) input.
SC_CHOICES = [-40, -40, -36, -32, -28, -24, -16, -8, 8, 16, 24, 28, 32, 36, 40, 40]
T_POW = {"D2": 2, "MU": 2, "B": 2, "LAM": 2, "TLAM": 2, "V": 0, "S": 1, "YL": 1, "EMB": 1, "TRI": 1}
I_POW = {"G": 1, "B": 2, "BBT": 4, "LAM": 4, "U": 0, "Q": 1, "EMB": 1}
R_POW = {"EMB": 1, "FD": -1}
API_POW = {"EMB": 1}


def sc_of(c):
    try:
        return int(c.get("sc", 0) or 0)
    except (TypeError, ValueError):
        return 0


def ldexp_safe(v, e):
    try:
        return math.ldexp(v, e)
    except OverflowError:
        return math.copysign(math.inf, v)


def scaled_dist(c):
    sc = sc_of(c)
    return " ".join(hx(ldexp_safe(float(v), sc)) for v in flat(c["dist"]))


def unscale(res, sc, powers):
    """multiply the implementation's result rows back by 2^(-power*sc) (exact)"""
    if not sc or res is None:
        return
    for tag, p in powers.items():
        if p and tag in res["rows"]:
            try:
                vals = parse_hex_floats(res["rows"][tag])
            except ValueError:
                continue
            res["rows"][tag] = [hx(ldexp_safe(v, -p * sc)) for v in vals]


def jacobi_eigenvalues(A):
    """eigenvalues of a small symmetric float matrix (cyclic Jacobi); used only for gap / sign guards"""
    n = len(A)
    a = [row[:] for row in A]
    for _ in range(60):
        off = sum(a[i][j] ** 2 for i in range(n) for j in range(n) if i != j)
        if off < 1e-22 * max(1.0, sum(a[i][i] ** 2 for i in range(n))):
            break
        for p in range(n):
            for q in range(p + 1, n):
                if abs(a[p][q]) < 1e-300:
                    continue
                th = (a[q][q] - a[p][p]) / (2 * a[p][q])
                t = (1.0 if th >= 0 else -1.0) / (abs(th) + math.sqrt(th * th + 1))
                c = 1 / math.sqrt(t * t + 1)
                s = t * c
                for k in range(n):
                    akp, akq = a[k][p], a[k][q]
                    a[k][p], a[k][q] = c * akp - s * akq, s * akp + c * akq
                for k in range(n):
                    apk, aqk = a[p][k], a[q][k]
                    a[p][k], a[q][k] = c * apk - s * aqk, s * apk + c * aqk
    return sorted(a[i][i] for i in range(n))


def center_gram(D2):
    """-1/2 J D2 J for a symmetric float matrix"""
    n = len(D2)
    rm = [sum(r) / n for r in D2]
    g = sum(rm) / n
    return [[-0.5 * (D2[i][j] - rm[i] - rm[j] + g) for j in range(n)] for i in range(n)]


def int_rank(rows):
    """rank of an integer matrix (exact, Fractions)"""
    m = [[Fraction(v) for v in r] for r in rows]
    rank, col = 0, 0
    ncol = len(m[0]) if m else 0
    while rank < len(m) and col < ncol:
        piv = next((i for i in range(rank, len(m)) if m[i][col] != 0), None)
        if piv is None:
            col += 1
            continue
        m[rank], m[piv] = m[piv], m[rank]
        for i in range(rank + 1, len(m)):
            if m[i][col] != 0:
                f = m[i][col] / m[rank][col]
                m[i] = [a - f * b for a, b in zip(m[i], m[rank])]
        rank += 1
        col += 1
    return rank


# ----------------------------------------------------------------------------- process plumbing
NOTRUN = "NOTRUN"


def run_impl(ctx, exe, lines, timeout=None):
    """lines: harness input lines. Returns a list of dicts {rows: {tag: [words]}, multi: [...], exc, bad,
    crashed, sanitizer} aligned with lines (a crash is attributed to the case that was running).
    Hangs: a batch normally takes a few seconds; the first timeout of a run costs `timeout`, the next two 20 s
    each, after three hung cases the remaining cases of the run are not executed (marked NOTRUN, dropped by
    the violation wrapper) — a library that hangs yields three concrete hanging inputs in bounded time."""
    if timeout is None:
        timeout = 90 if ctx.quick else 900
    results = [None] * len(lines)
    start = 0
    while start < len(lines):
        hangs = getattr(ctx, "_c11_hangs", 0)
        if hangs >= 3:
            for i in range(start, len(lines)):
                if results[i] is None or not results[i]["ended"]:
                    results[i] = {"rows": {}, "seq": [], "exc": None, "bad": False, "crashed": True,
                                  "sanitizer": NOTRUN + " (the harness hung on three earlier cases)",
                                  "ended": False}
            break
        r = ctx.run(exe, "\n".join(lines[start:]) + "\n", timeout=timeout if not hangs else min(timeout, 20),
                    env={"OMP_NUM_THREADS": "2", "OMP_WAIT_POLICY": "passive"})
        if r.timed_out:
            ctx._c11_hangs = hangs + 1
        cur = None
        for line in r.out.splitlines():
            if line.startswith("C "):
                try:
                    cur = start + int(line[2:])
                except ValueError:
                    continue
                if cur >= len(lines):
                    cur = None
                    continue
                results[cur] = {"rows": {}, "seq": [], "exc": None, "bad": False, "crashed": False,
                                "sanitizer": None, "ended": False}
            elif cur is None:
                continue
            elif line == "END":
                results[cur]["ended"] = True
            elif line.startswith("EXC "):
                results[cur]["exc"] = line[4:].strip()
            elif line == "BADCASE":
                results[cur]["bad"] = True
            else:
                w = line.split()
                if w:
                    results[cur]["rows"][w[0]] = w[1:]
                    results[cur]["seq"].append((w[0], w[1:]))
        last = max((i for i, x in enumerate(results) if x is not None), default=None)
        if r.rc == 0 and not r.timed_out and last is not None and results[last]["ended"] and last == len(lines) - 1:
            break
        # the process died / hung inside a case
        cur = start if last is None or last < start else (last if not results[last]["ended"] else last + 1)
        if cur >= len(lines):
            break
        if results[cur] is None:
            results[cur] = {"rows": {}, "seq": [], "exc": None, "bad": False, "crashed": True,
                            "sanitizer": None, "ended": False}
        results[cur]["crashed"] = True
        results[cur]["sanitizer"] = ("timeout" if r.timed_out else
                                     (r.sanitizer or r.err[-600:] or "rc=%s" % r.rc))
        start = cur + 1
    for i, x in enumerate(results):
        if x is None:
            results[i] = {"rows": {}, "seq": [], "exc": None, "bad": False, "crashed": True,
                          "sanitizer": "no output", "ended": False}
    return results


def run_model(ctx, mexe, lines, timeout=900):
    """returns list of dict tag -> words, aligned with lines"""
    if not lines:
        return []
    r = ctx.run(mexe, "\n".join(lines) + "\n", timeout=timeout)
    out, cur = [], {}
    for line in r.out.splitlines():
        if line == "END":
            out.append(cur)
            cur = {}
        else:
            w = line.split()
            if w:
                cur[w[0]] = w[1:]
    if r.rc != 0 or r.timed_out or len(out) != len(lines):
        raise vlib.BuildError("model driver failed: rc=%s got %d of %d results: %s" % (
            r.rc, len(out), len(lines), r.err[-400:]))
    return out


def coq_counts(ctx, pairs, dims=None):
    """n_landmarks_nat N ratio (and, with dims, lmds_validate N d ratio), bit-exactly, by vm_compute inside
    coqc.  pairs: [(N, ratio float)].  Returns list of int or None (undefined) [, list of bool]."""
    if not pairs:
        return [] if dims is None else ([], [])
    items = []
    for n, ratio in pairs:
        num, den = abs(ratio).as_integer_ratio()
        e = -(den.bit_length() - 1)
        while num and num % 2 == 0:
            num //= 2
            e += 1
        items.append("(%d, fl_of_me %s %d%%Z (%d)%%Z)" % (n, "true" if ratio < 0 else "false", num, e))
    src = ("From Coq Require Import Floats ZArith List.\nFrom TK Require Import Landmark_Float.\n"
           "Import ListNotations.\nDefinition cases : list (nat * float) := [\n" + ";\n".join(items) + "].\n"
           "Eval vm_compute in (map (fun p => n_landmarks_nat (fst p) (snd p)) cases).\n")
    if dims is not None:
        src += ("Definition dims : list nat := [" + "; ".join(str(d) for d in dims) + "].\n"
                "Eval vm_compute in (map (fun p => lmds_validate (fst (fst p)) (snd p) (snd (fst p))) "
                "(combine cases dims)).\n")
    path = os.path.join(ctx.build, "C11_float_cases.v")
    open(path, "w").write(src)
    try:
        p = subprocess.run(["coqc", "-Q", os.path.join(ctx.verif, "coq"), "TK", "-w", "-all",
                            "-o", os.path.join(ctx.build, "C11_float_cases.vo"), path],
                           capture_output=True, text=True, timeout=600, cwd=ctx.build)
    except subprocess.TimeoutExpired:
        raise vlib.BuildError("coqc on the PrimFloat cases timed out")
    if p.returncode != 0:
        raise vlib.BuildError("PrimFloat evaluation failed: " + p.stderr[-1500:])
    parts = p.stdout.split("     : list")
    vals = re.findall(r"Some\s+(\d+)|(None)", parts[0])
    res = [int(a) if a else None for a, b in vals]
    if len(res) != len(pairs):
        raise vlib.BuildError("PrimFloat evaluation: %d results for %d cases" % (len(res), len(pairs)))
    if dims is None:
        return res
    flags = [w == "true" for w in re.findall(r"\b(true|false)\b", parts[1] if len(parts) > 1 else "")]
    if len(flags) != len(pairs):
        raise vlib.BuildError("PrimFloat evaluation: %d validate results for %d cases" % (len(flags), len(pairs)))
    return res, flags


# ----------------------------------------------------------------------------- generators
def gen_metric(rng, kind, n):
    """integer-valued callback table (list of rows) + description; d*d is exact in binary64"""
    if kind == "line":
        xs = rng.sample(range(-40, 41), n)
        return [[abs(a - b) for b in xs] for a in xs], {"kind": kind, "x": xs}
    if kind == "l1":
        dim = rng.randint(2, 3)
        pts = [[rng.randint(-6, 6) for _ in range(dim)] for _ in range(n)]
        return [[sum(abs(u - v) for u, v in zip(a, b)) for b in pts] for a in pts], {"kind": kind, "pts": pts}
    if kind == "asym":   # not a metric, not symmetric: pins WHICH (i, j) the callback is asked with
        return [[0 if i == j else rng.randint(1, 9) for j in range(n)] for i in range(n)], {"kind": kind}
    raise ValueError(kind)


def gen_T(rng):
    kind = rng.choice(["line", "line", "l1", "l1", "asym"])
    n = rng.choice([4, 8, 8, 16])
    L = rng.choice([x for x in (2, 4, 8) if x <= n])
    d = rng.randint(1, min(3, L - 1)) if L > 1 else 1
    if kind == "line":
        d = 1
    dist, desc = gen_metric(rng, kind, n)
    lm = rng.sample(range(n), L)
    return {"mode": "T", "N": n, "L": L, "d": d, "lm": lm, "dist": dist, "kind": kind}


def gen_R(rng):
    n = rng.randint(2, 10)
    L = rng.randint(1, n)
    d = rng.randint(1, min(L, 3))
    lm = rng.sample(range(n), L)
    sym = rng.random() < 0.5
    dist = [[0] * n for _ in range(n)]
    for i in range(n):
        for j in range(n):
            if i != j:
                dist[i][j] = dist[j][i] if (sym and j < i) else rng.randint(0, 7)
    mu = [Fraction(rng.randint(0, 60), 4) for _ in range(L)]
    first = [[rng.randint(-4, 4) for _ in range(d)] for _ in range(L)]
    second = [rng.choice([Fraction(1, 2), Fraction(1), Fraction(2), Fraction(4), Fraction(-2), Fraction(1, 4),
                          Fraction(0), Fraction(1, 2 ** 60), Fraction(-1, 2 ** 60)])
              for _ in range(d)]
    if all(v == 0 for v in second):
        second[0] = Fraction(1)
    return {"mode": "R", "N": n, "L": L, "d": d, "lm": lm, "dist": dist, "mu": mu, "first": first,
            "second": second}


def gen_S(rng):
    n = rng.choice([3, 4, 5, 7, 8, 10, 16, 33, 47, 64, 94, 100, 147, 200])
    mode = rng.random()
    if mode < 0.2:
        ratio = 3.0 / n
    elif mode < 0.35:
        ratio = 1.0
    elif mode < 0.7:
        k = rng.randint(3, n) if n >= 3 else n
        ratio = k / n
        if rng.random() < 0.5:
            ratio = math.nextafter(ratio, rng.choice([0.0, 2.0]))
        ratio = min(max(ratio, 3.0 / n), 1.0)
    else:
        ratio = rng.uniform(3.0 / n, 1.0)
    return {"mode": "S", "N": n, "ratio": ratio, "reps": 3, "seed": rng.randrange(1 << 30)}


def gen_euclid(rng, n, r, D):
    """integer configuration of intrinsic dimension exactly r inside R^D, axes scaled apart so that the
    spectrum of every spanning subset is well separated most of the time"""
    scales = rng.sample([1, 2, 3, 5, 7], r)
    while True:
        base = [[rng.randint(-5, 5) * scales[t] for t in range(r)] for _ in range(n)]
        if int_rank([[a - b for a, b in zip(p, base[0])] for p in base[1:]]) == r:
            break
    # integer linear map R^r -> R^D of full column rank (not an isometry: distances are those of the image)
    while True:
        A = [[rng.randint(-2, 2) for _ in range(r)] for _ in range(D)]
        if int_rank(A) == r:
            break
    pts = [[sum(A[i][t] * p[t] for t in range(r)) for i in range(D)] for p in base]
    return pts


def euclid_dist(pts):
    return [[math.sqrt(sum((u - v) ** 2 for u, v in zip(a, b))) for b in pts] for a in pts]


def gen_E(rng):
    r = rng.randint(1, 3)
    n = rng.randint(max(6, r + 4), 24)
    D = rng.randint(r, r + 2)
    pts = gen_euclid(rng, n, r, D)
    lo = max(3.0 / n, (r + 2) / n)
    kb = rng.randint(min(n, max(4, r + 3)), n)
    ratio = rng.choice([rng.uniform(lo, 1.0), rng.uniform(lo, min(1.0, lo + 0.3)), 0.5 if 0.5 >= lo else lo,
                        # one ulp below k/N: the integer part of landmark_ratio*N is k - 1, not k
                        max(lo, math.nextafter(kb / n, 0.0))])
    return {"mode": "E", "method": "lmds", "N": n, "d": r, "ratio": ratio, "pts": pts,
            "seeds": [rng.randrange(1 << 30) for _ in range(3)]}


def gen_E2(rng):
    """intrinsic dimension STRICTLY below target_dimension (the property says "at most"): the extra retained
    eigenvalue of the landmark Gram matrix is zero up to rounding (finding F42)"""
    r = rng.randint(1, 2)
    d = r + rng.randint(1, 2)
    n = rng.randint(max(8, d + 4), 18)
    pts = gen_euclid(rng, n, r, r + 1)
    lo = max(3.0 / n, (d + 2) / n)
    return {"mode": "E2", "method": "lmds", "N": n, "d": d, "r": r, "ratio": rng.uniform(lo, 1.0), "pts": pts,
            "seeds": [rng.randrange(1 << 30) for _ in range(2)]}


def gen_ratio_one(rng, method):
    r = rng.randint(1, 3)
    n = rng.randint(max(6, r + 3), 16)
    if method == "lisomap" and rng.random() < 0.3:
        # shortest-path metric of a random weighted tree (+ a few chords): indefinite Gram matrix
        INF = 10 ** 9
        D = [[0 if i == j else INF for j in range(n)] for i in range(n)]
        for i in range(1, n):
            j = rng.randrange(i)
            D[i][j] = D[j][i] = rng.choice([1, 1, 2, 9])
        for _ in range(rng.randint(0, 3)):
            i, j = rng.sample(range(n), 2)
            D[i][j] = D[j][i] = min(D[i][j], rng.choice([1, 2, 9]))
        for k in range(n):
            for i in range(n):
                for j in range(n):
                    D[i][j] = min(D[i][j], D[i][k] + D[k][j])
        dist = [[float(v) for v in row] for row in D]
        pts = None
        r = rng.randint(1, 3)
    elif method == "lmds" and rng.random() < 0.4:
        # a non-Euclidean symmetric metric is fine for the ratio = 1 clause (guarded by the spectrum)
        dist, _ = gen_metric(rng, "l1", n)
        dist = [[float(v) for v in row] for row in dist]
        pts = None
    else:
        pts = gen_euclid(rng, n, r, rng.randint(r, r + 1))
        dist = euclid_dist(pts)
    return {"mode": "E1", "method": method, "N": n, "d": r, "dist": dist, "pts": pts,
            "seed": rng.randrange(1 << 30), "k": n - 1}


def gen_I(rng):
    n = rng.choice([8, 8, 16])
    L = rng.choice([2, 4, 8])
    d = rng.randint(1, min(2, L - 1))
    k = rng.randint(3, n - 1)
    # distinct integer weights on all pairs: no ties in any neighbour search, exact path sums
    w = rng.sample(range(1, 4 * n * n), n * (n - 1) // 2)
    dist = [[0] * n for _ in range(n)]
    it = iter(w)
    for i in range(n):
        for j in range(i + 1, n):
            dist[i][j] = dist[j][i] = next(it)
    lm = rng.sample(range(n), L)
    return {"mode": "I", "N": n, "L": L, "d": d, "k": k, "lm": lm, "dist": dist}


def gen_TM(rng):
    """stream T through the real embed(): landmark_ratio = L/N with N and L powers of two (count exact, the
    means exact), validate() needs L >= 3 and d <= L"""
    kind = rng.choice(["line", "line", "l1", "l1", "asym"])
    n = rng.choice([4, 8, 8, 16])
    L = rng.choice([x for x in (4, 8) if x <= n])
    d = 1 if kind == "line" else rng.randint(1, min(3, L - 1))
    dist, desc = gen_metric(rng, kind, n)
    return {"mode": "TM", "N": n, "L": L, "d": d, "ratio": L / n, "seed": rng.randrange(1 << 30), "dist": dist,
            "kind": kind}


def gen_IM(rng):
    """stream I through the real embed()"""
    c = gen_I(rng)
    L = rng.choice([4, 8])
    return {"mode": "IM", "N": c["N"], "L": L, "d": min(c["d"], L - 1), "k": c["k"], "ratio": L / c["N"],
            "seed": rng.randrange(1 << 30), "dist": c["dist"]}


def ref_geodesics(dist, k, lm):
    """exact landmark geodesics of the DIRECTED k-nearest-neighbour graph (integers)"""
    n = len(dist)
    INF = None
    nb = [sorted((j for j in range(n) if j != i), key=lambda j: dist[i][j])[:k] for i in range(n)]
    out = []
    for s in lm:
        dd = [INF] * n
        dd[s] = 0
        done = [False] * n
        for _ in range(n):
            u = min((i for i in range(n) if not done[i] and dd[i] is not None), key=lambda i: dd[i], default=None)
            if u is None:
                break
            done[u] = True
            for v in nb[u]:
                c = dd[u] + dist[u][v]
                if dd[v] is None or c < dd[v]:
                    dd[v] = c
        out.append(dd)
    return out


# ----------------------------------------------------------------------------- case -> lines
def flat(m):
    return [v for row in m for v in row]


def impl_line(c):
    m = c["mode"]
    sc = sc_of(c)
    if m == "T":
        return "T %d %d %d %s %s" % (c["N"], c["L"], c["d"], " ".join(map(str, c["lm"])), scaled_dist(c))
    if m == "TM":    # the real LandmarkMultidimensionalScalingImplementation::embed(), routine calls recorded
        return "M lmds %d %d %s %d 0 %s" % (c["N"], c["d"], hx(c["ratio"]), c["seed"], scaled_dist(c))
    if m == "IM":    # the real LandmarkIsomapImplementation::embed(), routine calls recorded
        return "M lisomap %d %d %s %d %d %s" % (c["N"], c["d"], hx(c["ratio"]), c["seed"], c["k"], scaled_dist(c))
    if m == "R":
        two = Fraction(2)
        return "R %d %d %d %s %s %s %s %s" % (
            c["N"], c["L"], c["d"], " ".join(map(str, c["lm"])), scaled_dist(c),
            " ".join(hx(Fraction(v) * two ** (2 * sc)) for v in c["mu"]),
            " ".join(hx(Fraction(v) * two ** sc) for v in flat(c["first"])),
            " ".join(hx(Fraction(v) * two ** (2 * sc)) for v in c["second"]))
    if m == "S":
        return "S %d %s %d %d" % (c["N"], hx(c["ratio"]), c["reps"], c["seed"])
    if m == "I":
        return "I %d %d %d %d %s %s" % (c["N"], c["L"], c["d"], c["k"], " ".join(map(str, c["lm"])),
                                         scaled_dist(c))
    if m == "EAPI":
        return "E %s %d %d %s %d %d %s" % (c["method"], c["N"], c["d"], hx(c["ratio"]), c["seed"], c["k"],
                                            scaled_dist(c))
    raise ValueError(m)


def keep_flags(second, L):
    """which selected columns triangulate divides (1) and which it zeroes (0: null eigenvalue, pseudo-inverse).
    The code's own threshold is max|second| * L * eps (7bdf733); the PROPERTY only needs "null up to rounding",
    so the decision is taken threshold-agnostically: clearly non-null (> 1e-9 max) -> 1, clearly null
    (<= 1e-13 * L * max, or not positive) -> 0, anything in between -> None (case skipped by the caller: a
    rewrite of the threshold inside that band must not raise an alarm)."""
    m = max(abs(float(v)) for v in second)
    out = []
    for v in second:
        v = float(v)
        if v > 1e-9 * m and v > 0:
            out.append(1)
        elif v <= 1e-13 * L * m:
            out.append(0)
        else:
            return None
    return out


def rel_close(a, b, tol, scale):
    return abs(a - b) <= tol * max(scale, 1e-300)


class Stats:
    def __init__(self):
        self.evals = 0
        self.hist = {}
        self.distinct = set()
        self.samples = []
        self.skipped = {}
        self.times = {}

    def count(self, key, n=1):
        self.hist[key] = self.hist.get(key, 0) + n

    def skip(self, key):
        self.skipped[key] = self.skipped.get(key, 0) + 1

    def nontrivial(self, obj):
        self.distinct.add(hashlib.sha1(json.dumps(obj, sort_keys=True, default=str).encode()).hexdigest())


def crash_why(res):
    text = str(res["sanitizer"])
    m = re.search(r"(ERROR: \w+Sanitizer:[^\n]*|runtime error:[^\n]*|[^\n]*Assertion[^\n]*|timeout|NOTRUN[^\n]*)", text)
    return "the implementation aborts / hangs (memory error, assertion, timeout): " + (
        m.group(1)[:400] if m else text[:500])


def jsonable(c):
    def conv(v):
        if isinstance(v, Fraction):
            return float(v) if v.denominator & (v.denominator - 1) == 0 else str(v)
        if isinstance(v, (list, tuple)):
            return [conv(x) for x in v]
        if isinstance(v, dict):
            return {k: conv(x) for k, x in v.items()}
        return v
    return conv(c)


# ----------------------------------------------------------------------------- evaluation: S
def eval_S(ctx, exe, mexe, cases, st):
    if not cases:
        return
    impl = run_impl(ctx, exe, [impl_line(c) for c in cases])
    pairs, model_lines, okb_lines, idx = [], [], [], []
    for c, res in zip(cases, impl):
        st.evals += 1
        st.count("S")
        if res["crashed"] or res["bad"] or res["exc"]:
            ctx.violation(jsonable(c), "select_landmarks_random: " + (crash_why(res) if res["crashed"] else
                          "unexpected %s" % (res["exc"] or "BADCASE")))
            continue
        n = c["N"]
        count_py = int(n * c["ratio"])
        perms = [w for t, w in res["seq"] if t == "PERM"]
        lms = [w for t, w in res["seq"] if t == "LM"]
        if len(perms) != c["reps"] or len(lms) != c["reps"]:
            ctx.violation(jsonable(c), "select_landmarks_random produced %d/%d result lines for %d calls" % (
                len(perms), len(lms), c["reps"]))
            continue
        pairs.append((n, c["ratio"]))
        for rep in range(c["reps"]):
            try:
                lm = [int(x) for x in lms[rep]]
                perm = None if perms[rep] == ["-"] else [int(x) for x in perms[rep]]
            except ValueError:
                ctx.violation(jsonable(c), "unparsable landmark output")
                continue
            # spec on the implementation's own output: distinct, < N, exactly trunc(fl(N*ratio)) of them
            okb_lines.append("K %d %d %d %s" % (n, count_py, len(lm), " ".join(map(str, lm))))
            if perm is None:
                ctx.mismatch(jsonable(c), "hook H1 did not report the permutation")
                idx.append((c, rep, lm, None, count_py))
                model_lines.append(None)
                continue
            if sorted(perm) != list(range(n)):
                ctx.violation(jsonable(dict(c, perm=perm)),
                              "oracle contract: tapkee::random_shuffle did not produce a permutation of 0..N-1")
            idx.append((c, rep, lm, perm, count_py))
            model_lines.append("S %d %d %s" % (n, count_py, " ".join(map(str, perm))))
            if 3 <= len(lm) < n:
                st.nontrivial(["S", n, c["ratio"], lm])
    okb = run_model(ctx, mexe, okb_lines)
    mres = run_model(ctx, mexe, [l for l in model_lines if l is not None])
    mi = iter(mres)
    for (c, rep, lm, perm, count_py), ok in zip(idx, okb):
        if ok.get("OKB") != ["1"]:
            ctx.violation(jsonable(dict(c, rep=rep, landmarks=lm, perm=perm)),
                          "landmarks are not %d distinct indices below N=%d (integer part of ratio*N): %s" % (
                              count_py, c["N"], lm[:40]))
        if perm is None:
            continue
        mo = next(mi)
        if "LM" in mo or mo == {}:
            mlm = [int(x) for x in mo.get("LM", [])]
            if mlm != lm:
                ctx.mismatch(jsonable(dict(c, rep=rep, perm=perm)),
                             "landmark list: model (prefix of the observed shuffle) %s vs implementation %s" % (
                                 mlm[:20], lm[:20]))
        else:
            ctx.mismatch(jsonable(dict(c, rep=rep)), "model: erase position outside the vector: %s" % mo)
    # the count itself, bit-exactly (Coq primitive floats)
    if pairs:
        for (n, ratio), cq in zip(pairs, coq_counts(ctx, pairs)):
            if cq != int(n * ratio):
                ctx.mismatch({"N": n, "ratio": ratio.hex()},
                             "count: Coq PrimFloat says %s, binary64 in Python says %d" % (cq, int(n * ratio)))
        st.count("S_float_pairs", len(pairs))


# ----------------------------------------------------------------------------- evaluation: R
def eval_R(ctx, exe, mexe, cases, st):
    if not cases:
        return
    impl = run_impl(ctx, exe, [impl_line(c) for c in cases])
    lines = []
    for c in cases:
        lines.append("R %d %d %d %s %s %s %s %s %s" % (
            c["N"], c["L"], c["d"], " ".join(map(str, keep_flags(c["second"], c["L"]) or [1] * c["d"])),
            " ".join(map(str, c["lm"])), " ".join(tok(v) for v in flat(c["dist"])),
            " ".join(tok(v) for v in c["mu"]), " ".join(tok(v) for v in flat(c["first"])),
            " ".join(tok(v) for v in c["second"])))
    model = run_model(ctx, mexe, lines)
    for c, res, mo in zip(cases, impl, model):
        st.evals += 1
        st.count("R" if not sc_of(c) else "R_scaled")
        if res["crashed"] or res["bad"] or res["exc"]:
            ctx.violation(jsonable(c), "triangulate: " + (crash_why(res) if res["crashed"] else
                          "unexpected %s" % (res["exc"] or "BADCASE")))
            continue
        unscale(res, sc_of(c), R_POW)
        try:
            emb = [Fraction(v) for v in parse_hex_floats(res["rows"]["EMB"])]
            fd = [Fraction(v) for v in parse_hex_floats(res["rows"]["FD"])]
        except (KeyError, ValueError, OverflowError):
            ctx.violation(jsonable(c), "triangulate returned non-finite / unparsable numbers on dyadic operands")
            continue
        if "EMB" not in mo:
            ctx.mismatch(jsonable(c), "model reports %s where the implementation returned an embedding" % mo)
            continue
        if "NONE" in mo["EMB"]:
            ctx.mismatch(jsonable(c), "model: some row is never written")
            continue
        memb = [parse_q(x) for x in mo["EMB"]]
        mfd = [parse_q(x) for x in mo["FD"]]
        n, d, L = c["N"], c["d"], c["L"]
        # spec on the implementation's own output (exact): landmark rows are copies, the others the formula
        bad = None
        keep = keep_flags(c["second"], L)
        if keep is None:
            st.skip("R_eigenvalue_in_threshold_band")
            continue
        for x in range(n):
            if x in c["lm"]:
                i = c["lm"].index(x)
                want = [Fraction(v) for v in c["first"][i]]
            else:
                want = []
                for col in range(d):
                    if not keep[col]:
                        want.append(Fraction(0))     # null eigenvalue: pseudo-inverse, coordinate zero
                        continue
                    acc = Fraction(0)
                    for t in range(L):
                        dd = Fraction(c["dist"][x][c["lm"][t]])
                        acc += Fraction(c["first"][t][col]) * (dd * dd - c["mu"][t])
                    want.append(Fraction(-1, 2) * acc / c["second"][col])
            if emb[x * d:(x + 1) * d] != want:
                bad = (x, [float(v) for v in emb[x * d:(x + 1) * d]], [float(v) for v in want])
                break
        if bad:
            ctx.violation(jsonable(c), "triangulate: row %d is %s, the triangulation formula "
                          "-1/2 pinv(Y_L)(d^2 - mu) / landmark copy gives %s (exact dyadic operands)" % bad)
            continue
        if emb != memb:
            k = next(i for i, (a, b) in enumerate(zip(emb, memb)) if a != b)
            ctx.mismatch(jsonable(c), "triangulate EMB entry %d: model %s vs implementation %s" % (
                k, float(memb[k]), float(emb[k])))
        elif fd != mfd:
            k = next(i for i, (a, b) in enumerate(zip(fd, mfd)) if a != b)
            ctx.mismatch(jsonable(c), "landmarks_embedding.first after triangulate, entry %d: model %s vs "
                         "implementation %s" % (k, float(mfd[k]), float(fd[k])))
        if L < n:
            st.nontrivial(["R", c["lm"], c["dist"], [str(v) for v in c["mu"]], sc_of(c)])


# ----------------------------------------------------------------------------- evaluation: T
def mat(vals, r, c):
    return [vals[i * c:(i + 1) * c] for i in range(r)]


def embed_prelude(ctx, c, res, what):
    """streams TM / IM (the real embed() with recorded routine calls): the shuffle the hook reports must be a
    permutation, the landmark list embed() got must be its first int(N*ratio) entries.  Returns the list or None"""
    rc = jsonable(c)
    n = c["N"]
    count = int(n * c["ratio"])
    try:
        perm = None if res["rows"].get("PERM", ["-"]) == ["-"] else [int(x) for x in res["rows"]["PERM"]]
        lm = [int(x) for x in res["rows"]["LM"]]
    except (KeyError, ValueError):
        ctx.violation(rc, what + ": missing / unparsable landmark output")
        return None
    if perm is None:
        ctx.mismatch(rc, "hook H1 did not report the permutation")
        return None
    if sorted(perm) != list(range(n)):
        ctx.violation(dict(rc, perm=perm), "oracle contract: tapkee::random_shuffle did not produce a permutation")
        return None
    if len(lm) != count or len(set(lm)) != len(lm) or any(x < 0 or x >= n for x in lm):
        ctx.violation(rc, "%s::embed() works with landmarks %s: not %d distinct indices below N=%d (integer part "
                      "of landmark_ratio*N)" % (what, lm[:40], count, n))
        return None
    if lm != perm[:count]:
        ctx.mismatch(rc, "%s::embed(): landmark list %s is not the prefix %s of the observed shuffle" % (
            what, lm[:20], perm[:count][:20]))
        return None
    return lm


def eval_T(ctx, exe, mexe, cases, st):
    """streams T (harness repeats the lines of embed() on harness-chosen landmarks) and TM (the real embed() of
    LandmarkMultidimensionalScalingImplementation; what it hands to / gets from select_landmarks_random,
    compute_distance_matrix, eigendecomposition_via and triangulate is recorded by macros)"""
    if not cases:
        return
    impl = run_impl(ctx, exe, [impl_line(c) for c in cases])
    ready = []
    for c, res in zip(cases, impl):
        via = c["mode"] == "TM"
        st.evals += 1
        st.count(("TM_" if via else "T_") + c["kind"] + ("_scaled" if sc_of(c) else ""))
        if res["crashed"] or res["bad"] or res["exc"]:
            ctx.violation(jsonable(c), "Landmark MDS pipeline: " + (crash_why(res) if res["crashed"] else
                          "unexpected %s" % (res["exc"] or "BADCASE")))
            continue
        unscale(res, sc_of(c), T_POW)
        if via:
            lm = embed_prelude(ctx, c, res, "LandmarkMultidimensionalScalingImplementation")
            if lm is None:
                continue
            c = dict(c, lm=lm, L=len(lm))
        ready.append((c, res))
    a_lines = ["A %d %d %s %s" % (c["N"], c["L"], " ".join(map(str, c["lm"])),
                                  " ".join(tok(v) for v in flat(c["dist"]))) for c, _ in ready]
    amodel = run_model(ctx, mexe, a_lines)
    t_lines, pt_lines, t_idx = [], [], []
    for (c, res), am in zip(ready, amodel):
        via = c["mode"] == "TM"
        n, L, d = c["N"], c["L"], c["d"]
        try:
            rows = {k: parse_hex_floats(res["rows"][k]) for k in (
                ("D2", "MU", "B", "LAM", "V", "YL", "EMB", "TLAM", "TRI") if via else
                ("D2", "MU", "B", "LAM", "V", "S", "YL", "EMB"))}
        except (KeyError, ValueError):
            ctx.violation(jsonable(c), "Landmark MDS pipeline: missing / unparsable output")
            continue
        if via:
            # what embed() does between the routine calls, judged on its own operands: the eigenvalues go to
            # triangulate unchanged, the eigenvectors scaled by sqrt(max(lam, 0)), triangulate's result is returned
            rows["S"] = [math.sqrt(max(v, 0.0)) if v == v else v for v in rows["LAM"]]
            if finite(rows["LAM"]) and finite(rows["V"]) and len(rows["V"]) == L * d and len(rows["LAM"]) == d:
                if [v.hex() for v in rows["TLAM"]] != [v.hex() for v in rows["LAM"]]:
                    ctx.mismatch(jsonable(c), "embed(): the eigenvalues handed to triangulate %s are not the "
                                 "solver's %s" % (rows["TLAM"], rows["LAM"]))
                    continue
                ymax = max([abs(v) for v in rows["YL"]] + [1e-300]) if finite(rows["YL"]) else None
                want = [rows["V"][i * d + a] * rows["S"][a] for i in range(L) for a in range(d)]
                if ymax is None or len(rows["YL"]) != L * d or any(
                        abs(u - v) > 1e-12 * max(ymax, abs(v)) for u, v in zip(rows["YL"], want)):
                    ctx.violation(jsonable(c), "LandmarkMultidimensionalScalingImplementation::embed(): the landmark "
                                  "coordinates handed to triangulate (and copied into the landmark rows) are not the "
                                  "solver's eigenvectors scaled by sqrt(max(lambda, 0)), i.e. not what MDS gives for "
                                  "that subset: %s vs %s" % (rows["YL"][:4], want[:4]))
                    continue
            if [v.hex() for v in rows["TRI"]] != [v.hex() for v in rows["EMB"]]:
                ctx.mismatch(jsonable(c), "embed() does not return what triangulate() returned")
                continue
        # exact stream: D2, mu, B (model vs implementation); between D2 and mu the spec for mu on the
        # implementation's own output: mean over the landmarks of the squared distances
        ok_exact = True
        for tag in ("D2", "MUSPEC", "MU", "B"):
            if tag == "MUSPEC":
                if c["kind"] != "asym" and finite(rows["MU"]):
                    want_mu = [Fraction(sum(c["dist"][c["lm"][s]][c["lm"][t]] ** 2 for s in range(L)), L)
                               for t in range(L)]
                    if [Fraction(v) for v in rows["MU"]] != want_mu:
                        ctx.violation(jsonable(c), "landmark_distances_squared %s is not the mean squared landmark "
                                      "distance %s" % (rows["MU"][:4], [float(v) for v in want_mu[:4]]))
                        ok_exact = False
                        break
                continue
            if not finite(rows[tag]):
                ctx.violation(jsonable(c), "non-finite %s on an integer metric" % tag)
                ok_exact = False
                break
            iv = [Fraction(v) for v in rows[tag]]
            mv = [parse_q(x) for x in am.get(tag, [])]
            if iv != mv:
                k = next((i for i, (a, b) in enumerate(zip(iv, mv)) if a != b), min(len(iv), len(mv)))
                ctx.mismatch(jsonable(c), "%s entry %d: model %s vs implementation %s (exact stream)" % (
                    tag, k, float(mv[k]) if k < len(mv) else None, float(iv[k]) if k < len(iv) else None))
                ok_exact = False
                break
        if not ok_exact:
            continue
        if c["kind"] == "asym":
            st.nontrivial(["Tasym", c["mode"], c["lm"], c["dist"], sc_of(c)])
            continue
        lam, V, S, YL, EMB, B = rows["LAM"], rows["V"], rows["S"], rows["YL"], rows["EMB"], rows["B"]
        if len(lam) != d or len(V) != L * d or len(EMB) != n * d or len(YL) != L * d:
            ctx.violation(jsonable(c), "shapes: LAM %d V %d YL %d EMB %d for L=%d d=%d N=%d" % (
                len(lam), len(V), len(YL), len(EMB), L, d, n))
            continue
        if not (finite(lam) and finite(V)):
            ctx.mismatch(jsonable(c), "eigen-solver returned non-finite values")
            continue
        scaleB = max(1.0, max(abs(v) for v in B))
        keep = keep_flags(lam, L)
        if keep is None:
            st.skip("T_eigenvalue_in_threshold_band")
            continue
        kept = [a for a in range(d) if keep[a]]
        if not kept or min(lam[a] for a in kept) <= 1e-6 * scaleB:
            st.skip("T_tiny_kept_eigenvalue")
            continue
        # oracle contracts: B V = V diag(lam), V^T V = I, s*s = lam
        Bm, Vm = mat(B, L, L), mat(V, L, d)
        bad = None
        for i in range(L):
            for col in range(d):
                bv = sum(Bm[i][t] * Vm[t][col] for t in range(L))
                if not rel_close(bv, Vm[i][col] * lam[col], 1e-9, scaleB):
                    bad = "B V != V diag(lam) at (%d,%d): %g vs %g" % (i, col, bv, Vm[i][col] * lam[col])
        for a in range(d):
            for b in range(d):
                g = sum(Vm[t][a] * Vm[t][b] for t in range(L))
                if abs(g - (1.0 if a == b else 0.0)) > 1e-9:
                    bad = "V^T V != I at (%d,%d): %g" % (a, b, g)
            if not rel_close(S[a] * S[a], max(lam[a], 0.0), 1e-12, abs(lam[a])):
                bad = "sqrt contract: s*s = %r, max(lam, 0) = %r" % (S[a] * S[a], max(lam[a], 0.0))
        if any(lam[a] > lam[a + 1] * (1 + 1e-12) for a in range(d - 1)):
            bad = "selected eigenvalues not ascending: %s" % lam
        if bad:
            ctx.mismatch(jsonable(c), "eigen / sqrt oracle contract violated: " + bad)
            continue
        if not finite(EMB) or not finite(YL):
            ctx.violation(jsonable(c), "Landmark MDS returns non-finite coordinates although the selected "
                          "eigenvalues are positive: " + str(EMB[:6]))
            continue
        scaleY = max(1.0, max(abs(v) for v in EMB))
        tol = Fraction(1e-9 * scaleY * max(1.0, max(lam) / min(lam[a] for a in kept)))
        ds = " ".join(tok(v) for v in flat(c["dist"]))
        lms = " ".join(map(str, c["lm"]))
        ks = " ".join(map(str, keep))
        t_lines.append("T %d %d %d %s %s %s %s %s %s" % (n, L, d, ks, lms, ds, " ".join(tok(v) for v in V),
                                                       " ".join(tok(v) for v in lam), " ".join(tok(v) for v in S)))
        pt_lines.append("PT %d %d %d %s %s %s %s %s %s %s %s" % (
            n, L, d, tok(float(tol)), ks, lms, ds, " ".join(tok(v) for v in rows["MU"]),
            " ".join(tok(v) for v in YL), " ".join(tok(v) for v in lam), " ".join(tok(v) for v in EMB)))
        t_idx.append((c, EMB, float(tol)))
    tm = run_model(ctx, mexe, t_lines)
    pm = run_model(ctx, mexe, pt_lines)
    for (c, EMB, tol), mo, po in zip(t_idx, tm, pm):
        if po.get("PT") != ["1"]:
            ctx.violation(jsonable(c), "the returned embedding does not satisfy the triangulation clause "
                          "(landmark rows = scaled eigenvectors, other rows = -1/2 pinv(Y_L)(d^2 - mu)) computed "
                          "from the implementation's own Y_L, eigenvalues and mean vector (tolerance %g): %s" % (
                              tol, po))
            continue
        if "EMB" not in mo or "NONE" in mo["EMB"]:
            ctx.mismatch(jsonable(c), "model lmds_embed: %s" % {k: v[:4] for k, v in mo.items()})
            continue
        memb = [float(parse_q(x)) for x in mo["EMB"]]
        worst = max(abs(a - b) for a, b in zip(memb, EMB))
        if worst > tol:
            ctx.mismatch(jsonable(c), "embedding: model lmds_embed vs implementation differ by %g (tolerance "
                         "stream, tol %g)" % (worst, tol))
        if c["L"] < c["N"]:
            st.nontrivial([c["mode"], c["lm"], c["dist"], c["d"], sc_of(c)])


# ----------------------------------------------------------------------------- evaluation: I
def eval_I(ctx, exe, mexe, cases, st):
    """streams I (harness repeats the lines of the dense embed() body on harness-chosen landmarks) and IM (the real
    LandmarkIsomapImplementation::embed(); landmark list, geodesics, the matrix handed to the solver and the
    solver's answer are recorded by macros)"""
    if not cases:
        return
    fexe = getattr(ctx, "fib_exe", None)
    if fexe and exe != fexe:
        # the same cases through the Fibonacci-heap build of compute_shortest_distances_matrix
        eval_I(ctx, fexe, mexe, [dict(c, heap="fibonacci") for c in cases], st)
    impl = run_impl(ctx, exe, [impl_line(c) for c in cases])
    lines, idx = [], []
    for c, res in zip(cases, impl):
        via = c["mode"] == "IM"
        st.evals += 1
        st.count(("IM" if via else "I") + ("_scaled" if sc_of(c) else ""))
        if via:
            if res["crashed"]:
                ctx.violation(jsonable(c), "Landmark Isomap (method class): " + crash_why(res))
                continue
            if res["bad"] or res["exc"]:
                # only a disconnected k-nn graph may make it fail: outside the property (C03 guards it)
                full = ref_geodesics(c["dist"], c["k"], list(range(c["N"])))
                if any(v is None for row in full for v in row):
                    st.skip("IM_disconnected_graph")
                else:
                    ctx.violation(jsonable(c), "Landmark Isomap (method class) on a strongly connected k-nn graph, "
                                  "accepted parameters: unexpected %s" % (res["exc"] or "BADCASE"))
                continue
            unscale(res, sc_of(c), I_POW)
            lm = embed_prelude(ctx, c, res, "LandmarkIsomapImplementation")
            if lm is None:
                continue
            c = dict(c, lm=lm, L=len(lm))
        ref = ref_geodesics(c["dist"], c["k"], c["lm"])
        if any(v is None for row in ref for v in row) and not res["crashed"]:
            st.skip("I_disconnected_graph")     # geodesic = DBL_MAX: outside the property (C03 guards it)
            continue
        if res["crashed"] or res["bad"] or res["exc"]:
            ctx.violation(jsonable(c), "Landmark Isomap pipeline: " + (crash_why(res) if res["crashed"] else
                          "unexpected %s" % (res["exc"] or "BADCASE")))
            continue
        if not via:
            unscale(res, sc_of(c), I_POW)
        n, L, d = c["N"], c["L"], c["d"]
        try:
            rows = {k: parse_hex_floats(res["rows"][k]) for k in (
                ("G", "BBT", "LAM", "U", "EMB") if via else ("G", "B", "LAM", "U", "Q", "EMB"))}
        except (KeyError, ValueError):
            ctx.violation(jsonable(c), "Landmark Isomap pipeline: missing / unparsable output")
            continue
        G = rows["G"]
        if len(G) != L * n or not finite(G) or [Fraction(v) for v in G] != [Fraction(v) for v in flat(ref)]:
            k = next((i for i, (a, b) in enumerate(zip(G, flat(ref))) if a != b), 0)
            ctx.violation(jsonable(c), "landmark geodesics are not the shortest paths of the k-nn graph: "
                          "entry (%d,%d) is %s, exact reference %s" % (k // n, k % n, G[k] if k < len(G) else None,
                                                                     flat(ref)[k]))
            continue
        if via:
            # embed() hands B B^T to the solver; B itself is not an operand of any routine call: it is
            # recomputed exactly from the recorded geodesics by the model below, B B^T compared at 1e-12
            rows["B"] = None
            rows["Q"] = [math.sqrt(math.sqrt(v)) if v > 0 else float("nan") for v in rows["LAM"]]
        lam, U, Q, EMB, B = rows["LAM"], rows["U"], rows["Q"], rows["EMB"], rows["B"]
        if len(lam) != d or len(U) != L * d or len(EMB) != n * d or (B is not None and len(B) != L * n) or (
                via and len(rows["BBT"]) != L * L):
            ctx.violation(jsonable(c), "shapes: LAM %d U %d EMB %d for L=%d d=%d N=%d" % (len(lam), len(U), len(EMB),
                                                                                       L, d, n))
            continue
        if not (finite(lam) and finite(U) and (B is None or finite(B)) and (not via or finite(rows["BBT"]))):
            ctx.violation(jsonable(c), "non-finite intermediate values on a connected integer graph")
            continue
        idx.append((c, rows))
        if min(lam) <= 0 or not finite(Q) or not finite(EMB):
            lines.append("I %d %d %d %s %s %s" % (n, L, d, " ".join(tok(v) for v in G),
                                                 " ".join("0" for _ in U), " ".join("1" for _ in range(d))))
        else:
            lines.append("I %d %d %d %s %s %s" % (n, L, d, " ".join(tok(v) for v in G),
                                                 " ".join(tok(v) for v in U), " ".join(tok(v) for v in Q)))
    model = run_model(ctx, mexe, lines)
    for (c, rows), mo in zip(idx, model):
        via = c["mode"] == "IM"
        n, L, d = c["N"], c["L"], c["d"]
        try:
            mB = [parse_q(x) for x in mo["B"]]
            memb = [float(parse_q(x)) for x in mo["EMB"]]
        except (KeyError, ValueError, ZeroDivisionError):
            ctx.mismatch(jsonable(c), "model lisomap: %s" % {k: v[:3] for k, v in mo.items()})
            continue
        if via:
            mBm = mat(mB, L, n)
            exact = [sum(mBm[i][t] * mBm[j][t] for t in range(n)) for i in range(L) for j in range(L)]
            top = max([abs(v) for v in exact] + [Fraction(1, 10 ** 300)])
            worst = max(abs(Fraction(a) - b) for a, b in zip(rows["BBT"], exact))
            if worst > Fraction(1, 10 ** 12) * top:
                ctx.mismatch(jsonable(c), "Landmark Isomap embed(): the matrix handed to the eigen-solver differs from "
                             "B B^T (B = doubly centred squared landmark geodesics, exact model) by %g (largest entry "
                             "%g)" % (float(worst), float(top)))
                continue
            B = rows["B"] = [float(v) for v in mB]
        else:
            B = rows["B"]
            if [Fraction(v) for v in B] != mB:
                k = next((i for i, (a, b) in enumerate(zip(B, mB)) if Fraction(a) != b), 0)
                ctx.mismatch(jsonable(c), "Landmark Isomap B entry %d: model %s vs implementation %s (exact stream)"
                             % (k, float(mB[k]), B[k]))
                continue
        lam, U, Q, EMB = rows["LAM"], rows["U"], rows["Q"], rows["EMB"]
        if min(lam) <= 0 or not finite(Q) or not finite(EMB):
            st.skip("I_nonpositive_selected_eigenvalue")
            continue
        Bm, Um, Ym = mat(B, L, n), mat(U, L, d), mat(EMB, n, d)
        S = [[sum(Bm[i][t] * Bm[j][t] for t in range(n)) for j in range(L)] for i in range(L)]
        scale = max(1.0, max(abs(v) for row in S for v in row))
        bad = None
        for i in range(L):
            for col in range(d):
                su = sum(S[i][t] * Um[t][col] for t in range(L))
                if not rel_close(su, Um[i][col] * lam[col], 1e-9, scale):
                    bad = "(B B^T) U != U diag(lam) at (%d,%d)" % (i, col)
        for a in range(d):
            if not rel_close(Q[a] ** 4, lam[a], 1e-11, abs(lam[a])):
                bad = "q^4 != lam"
            for b in range(d):
                g = sum(Um[t][a] * Um[t][b] for t in range(L))
                if abs(g - (1.0 if a == b else 0.0)) > 1e-9:
                    bad = "U^T U != I"
        if bad:
            ctx.mismatch(jsonable(c), "eigen / sqrt oracle contract violated: " + bad)
            continue
        # spec on the implementation's output: Y^T Y = diag(q^2), (B^T B) Y = Y diag(lam)
        ys = max(1.0, max(abs(v) for v in EMB))
        for a in range(d):
            for b in range(d):
                g = sum(Ym[j][a] * Ym[j][b] for j in range(n))
                want = Q[a] * Q[a] if a == b else 0.0
                if abs(g - want) > 1e-8 * ys * ys * max(1.0, max(lam) / min(lam)):
                    bad = "Y^T Y != diag(sqrt lam) at (%d,%d): %g vs %g" % (a, b, g, want)
        if bad:
            ctx.violation(jsonable(c), "Landmark Isomap embedding: " + bad)
            continue
        worst = max(abs(a - b) for a, b in zip(memb, EMB))
        if worst > 1e-9 * ys * max(1.0, (max(lam) / min(lam)) ** 0.5):
            ctx.mismatch(jsonable(c), "Landmark Isomap embedding: model vs implementation differ by %g" % worst)
        st.nontrivial([c["mode"], c["lm"], c["dist"], c["k"], d, sc_of(c), c.get("heap")])


# ----------------------------------------------------------------------------- evaluation: E (public API)
def api(method, n, d, ratio, seed, k, dist, sc=0):
    return {"mode": "EAPI", "method": method, "N": n, "d": d, "ratio": ratio, "seed": seed, "k": k, "dist": dist,
            "sc": sc}


def run_scaled(ctx, exe, calls, powers=None, timeout=None):
    """calls: case dicts for impl_line (their "sc" scales the data); results are scaled back"""
    if not calls:
        return []
    impl = run_impl(ctx, exe, [impl_line(c) for c in calls], timeout=timeout)
    for c, res in zip(calls, impl):
        unscale(res, sc_of(c), powers or (T_POW if c["mode"] == "T" else I_POW if c["mode"] == "I" else API_POW))
    return impl


def parse_api(res, n, d):
    """-> (perm or None, embedding rows or None, problem string or None)"""
    if res["crashed"]:
        return None, None, crash_why(res)
    if res["exc"]:
        return None, None, "exception " + res["exc"]
    if res["bad"]:
        return None, None, "BADCASE"
    try:
        perm = None if res["rows"].get("PERM", ["-"]) == ["-"] else [int(x) for x in res["rows"]["PERM"]]
        dim = [int(x) for x in res["rows"]["DIM"]]
        emb = parse_hex_floats(res["rows"]["EMB"])
    except (KeyError, ValueError):
        return None, None, "missing / unparsable output"
    if dim != [n, d] or len(emb) != n * d:
        return perm, None, "embedding has shape %s, expected %d x %d" % (dim, n, d)
    if not finite(emb):
        return perm, None, "non-finite coordinates"
    return perm, mat(emb, n, d), None


def spectrum_ok(Bmat, d, positive_only=True, gap=1e-3, by_magnitude=False):
    """guard for sign-quotient comparisons: the d leading eigenvalues are positive, separated from each
    other and from the rest (relative gap); with by_magnitude also leading in absolute value"""
    ev = jacobi_eigenvalues(Bmat)
    top = ev[-d:]
    rest = ev[:-d]
    scale = max(abs(ev[-1]), 1e-300)
    if positive_only and top[0] <= gap * scale:
        return False
    seq = (rest[-1:] if rest else []) + top
    if any(b - a <= gap * scale for a, b in zip(seq, seq[1:])):
        return False
    if by_magnitude and rest and max(abs(v) for v in rest) >= top[0] - gap * scale:
        return False
    return True


F42_SIG = "F42-lmds-null-eigenvalue-division"
F43_SIG = "F44-lisomap-ratio-one-selects-by-magnitude"


def eval_E2(ctx, exe, mexe, cases, st):
    """Landmark MDS on Euclidean data of intrinsic dimension r < target_dimension"""
    if not cases:
        return
    registered = any(e.get("signature") == F42_SIG for e in ctx._known_db)
    lines, meta = [], []
    for c in cases:
        dist = euclid_dist(c["pts"])
        for seed in c["seeds"]:
            lines.append(api("lmds", c["N"], c["d"], c["ratio"], seed, 0, dist, sc_of(c)))
            meta.append((c, seed, dist))
    impl = run_scaled(ctx, exe, lines)
    for (c, seed, dist), res in zip(meta, impl):
        st.evals += 1
        st.count("E2_lmds_r%d_d%d%s" % (c["r"], c["d"], "_scaled" if sc_of(c) else ""))
        n, d, r = c["N"], c["d"], c["r"]
        rc = jsonable(dict(c, seeds=[seed]))
        perm, Y, problem = parse_api(res, n, d)
        if perm is None or sorted(perm) != list(range(n)) or res["crashed"]:
            if res["crashed"]:
                ctx.violation(rc, "Landmark MDS (intrinsic dimension %d < target_dimension %d): %s" % (
                    r, d, crash_why(res)))
            continue
        lm = perm[:int(n * c["ratio"])]
        if len(lm) < 2 or int_rank([[a - b for a, b in zip(c["pts"][x], c["pts"][lm[0]])] for x in lm[1:]]) != r:
            st.skip("E2_landmarks_do_not_span")
            continue
        sub = [[dist[a][b] for b in lm] for a in lm]
        ev = jacobi_eigenvalues(center_gram([[v * v for v in row] for row in sub]))
        if ev[-r] < 1e-6 * ev[-1]:
            st.skip("E2_ill_conditioned_landmark_gram")
            continue
        dmax = max(v for row in dist for v in row)
        if Y is not None:
            err = max(abs(math.dist(Y[a], Y[b]) - dist[a][b]) for a in range(n) for b in range(n))
            problem = None if err <= 1e-5 * dmax * (ev[-1] / ev[-r]) else (
                "pairwise distances off by up to %.3g (largest input distance %.3g)" % (err, dmax))
        if problem:
            why = ("Landmark MDS on Euclidean data of intrinsic dimension %d < target_dimension %d with spanning "
                   "landmarks: %s — the retained null eigenvalue is used as a divisor in triangulate()" % (r, d, problem))
            if registered:
                ctx.violation(dict(rc, landmarks=lm), why, signature=F42_SIG)
            else:
                ctx.note("OPEN F42 (patch proposed, not registered yet, not counted as a verdict): " + why[:300])
        else:
            st.nontrivial(["E2", c["pts"], lm, d, sc_of(c)])


def eval_E(ctx, exe, mexe, cases, st):
    """Landmark MDS end to end on Euclidean data of intrinsic dimension d, several seeds per data set"""
    if not cases:
        return
    lines, meta = [], []
    for c in cases:
        dist = euclid_dist(c["pts"])
        for seed in c["seeds"]:
            lines.append(api("lmds", c["N"], c["d"], c["ratio"], seed, 0, dist, sc_of(c)))
            meta.append((c, seed, dist))
    impl = run_scaled(ctx, exe, lines)
    pd_lines, pd_idx, sub_lines, sub_idx = [], [], [], []
    # embed() itself against the routine-level pipeline (mode T, which is tied to the model): same landmarks,
    # same callback table -> the two embeddings must agree to rounding (closes the gap that mode T repeats the
    # lines of embed() instead of calling it)
    x_lines, x_idx = [], []
    for (c, seed, dist), res in zip(meta, impl):
        perm, Y, problem = parse_api(res, c["N"], c["d"])
        count = int(c["N"] * c["ratio"])
        if perm is not None and Y is not None and sorted(perm) == list(range(c["N"])) and c["d"] <= count:
            x_lines.append({"mode": "T", "N": c["N"], "L": count, "d": c["d"], "lm": perm[:count], "dist": dist,
                            "sc": sc_of(c)})
            x_idx.append((c, seed, Y))
    for (c, seed, Y), res in zip(x_idx, run_scaled(ctx, exe, x_lines)):
        st.evals += 1
        st.count("E_embed_vs_routines")
        try:
            Z = parse_hex_floats(res["rows"]["EMB"])
        except (KeyError, ValueError):
            continue
        if len(Z) != len(flat(Y)) or not finite(Z):
            continue
        scale = max(1.0, max(abs(v) for v in Z))
        worst = max(abs(a - b) for a, b in zip(flat(Y), Z))
        if worst > 1e-7 * scale:
            ctx.mismatch(jsonable(dict(c, seeds=[seed])), "LandmarkMultidimensionalScaling::embed() and the same "
                         "pipeline through the internal routines (harness mode T, tied to the model) differ by %g on "
                         "the same landmarks" % worst)
    for (c, seed, dist), res in zip(meta, impl):
        st.evals += 1
        st.count("E_lmds_d%d%s" % (c["d"], "_scaled" if sc_of(c) else ""))
        n, d = c["N"], c["d"]
        rc = jsonable(dict(c, seeds=[seed]))
        perm, Y, problem = parse_api(res, n, d)
        count = int(n * c["ratio"])
        if perm is not None and sorted(perm) != list(range(n)):
            ctx.violation(rc, "oracle contract: tapkee::random_shuffle did not produce a permutation")
            continue
        if perm is None and not problem:
            ctx.mismatch(rc, "hook H1 did not report the permutation")
            continue
        if perm is None:
            ctx.violation(rc, "Landmark MDS (public API): " + problem)
            continue
        lm = perm[:count]
        spans = int_rank([[a - b for a, b in zip(c["pts"][x], c["pts"][lm[0]])] for x in lm[1:]]) == d \
            if len(lm) > 1 else False
        if not spans:
            st.skip("E_landmarks_do_not_span")
            continue
        if problem:
            ctx.violation(dict(rc, landmarks=lm), "Landmark MDS on Euclidean data of intrinsic dimension %d with "
                          "spanning landmarks: %s" % (d, problem))
            continue
        # conditioning guard: smallest non-zero eigenvalue of the landmark Gram matrix
        sub = [[dist[a][b] for b in lm] for a in lm]
        G = center_gram([[v * v for v in row] for row in sub])
        ev = jacobi_eigenvalues(G)
        if ev[-d] < 1e-6 * ev[-1]:
            st.skip("E_ill_conditioned_landmark_gram")
            continue
        dmax2 = max(v * v for row in dist for v in row)
        tol = 1e-8 * dmax2 * (ev[-1] / ev[-d])
        pd_lines.append("PD %d %d %s %s %s" % (n, d, tok(tol), " ".join(tok(v) for v in flat(Y)),
                                                " ".join(tok(v) for v in flat(dist))))
        pd_idx.append((rc, lm, tol))
        st.nontrivial(["E", c["pts"], lm, sc_of(c)])
        # landmark block = MDS of the subset (modulo column signs) when the spectrum is simple
        if spectrum_ok(G, d) and len(lm) > d:
            sub_lines.append(api("mds", len(lm), d, 1.0, -1, 0, sub, sc_of(c)))
            sub_idx.append((rc, lm, Y))
    for (rc, lm, tol), po in zip(pd_idx, run_model(ctx, mexe, pd_lines)):
        if po.get("PD") != ["1"]:
            ctx.violation(dict(rc, landmarks=lm), "Landmark MDS does not reproduce the pairwise distances of "
                          "Euclidean data of intrinsic dimension = target_dimension although the landmarks span it "
                          "(extracted decision procedure, tolerance %g on squared distances): %s" % (tol, po))
    if sub_lines:
        sres = run_scaled(ctx, exe, sub_lines)
        ps_lines, ps_idx = [], []
        for (rc, lm, Y), res in zip(sub_idx, sres):
            st.evals += 1
            st.count("E_mds_of_landmarks")
            _, Z, problem = parse_api(res, len(lm), len(Y[0]))
            if problem:
                st.skip("E_mds_of_landmarks_failed")
                continue
            YL = [Y[x] for x in lm]
            scale = max(1.0, max(abs(v) for v in flat(YL)))
            ps_lines.append("PS %d %d %s %s %s" % (len(lm), len(Y[0]), tok(1e-7 * scale),
                                                    " ".join(tok(v) for v in flat(YL)),
                                                    " ".join(tok(v) for v in flat(Z))))
            ps_idx.append((rc, lm))
        for (rc, lm), po in zip(ps_idx, run_model(ctx, mexe, ps_lines)):
            if po.get("PS") != ["1"]:
                ctx.violation(dict(rc, landmarks=lm), "the landmark rows of Landmark MDS are not what MDS returns "
                              "for that subset (modulo column signs; simple spectrum): %s" % po)


def gen_ER(rng):
    c = gen_E(rng)
    return dict(c, mode="ER", seeds=c["seeds"][:2])


def eval_ER(ctx, exe, mexe, cases, st):
    """Landmark MDS end to end with eigen_method = Randomized (the redsvd-like solver; its Gaussian test matrix is
    drawn with std::rand(), seeded by the harness).  On Euclidean data of intrinsic dimension d = target_dimension
    the centred landmark Gram matrix has rank exactly d, so the randomized range finder is exact up to rounding
    and the Euclidean clause of the property must hold as for the dense solver.  Unit scale only: the solver's
    ABSOLUTE cut-off `norm < 1e-4` (known finding F36, property C05) makes it give up on small-scale data."""
    if not cases:
        return
    calls, meta = [], []
    for c in cases:
        dist = euclid_dist(c["pts"])
        for seed in c["seeds"]:
            calls.append(api("lmds:randomized", c["N"], c["d"], c["ratio"], seed, 0, dist, 0))
            meta.append((c, seed, dist))
    impl = run_scaled(ctx, exe, calls)
    pd_lines, pd_idx = [], []
    for (c, seed, dist), res in zip(meta, impl):
        st.evals += 1
        st.count("ER_lmds_randomized_d%d" % c["d"])
        n, d = c["N"], c["d"]
        rc = jsonable(dict(c, seeds=[seed]))
        if res["exc"] == "eigendecomposition" and not res["crashed"]:
            st.skip("ER_randomized_solver_gave_up_F36")
            continue
        perm, Y, problem = parse_api(res, n, d)
        if perm is None:
            if problem:
                ctx.violation(rc, "Landmark MDS (eigen_method = Randomized): " + problem)
            else:
                ctx.mismatch(rc, "hook H1 did not report the permutation")
            continue
        if sorted(perm) != list(range(n)):
            ctx.violation(rc, "oracle contract: tapkee::random_shuffle did not produce a permutation")
            continue
        lm = perm[:int(n * c["ratio"])]
        if len(lm) < 2 or int_rank([[a - b for a, b in zip(c["pts"][x], c["pts"][lm[0]])] for x in lm[1:]]) != d:
            st.skip("ER_landmarks_do_not_span")
            continue
        sub = [[dist[a][b] for b in lm] for a in lm]
        ev = jacobi_eigenvalues(center_gram([[v * v for v in row] for row in sub]))
        if ev[-d] < 1e-4 * ev[-1]:
            st.skip("ER_ill_conditioned_landmark_gram")
            continue
        if problem:
            ctx.violation(dict(rc, landmarks=lm), "Landmark MDS (eigen_method = Randomized) on Euclidean data of "
                          "intrinsic dimension %d with spanning landmarks: %s" % (d, problem))
            continue
        dmax2 = max(v * v for row in dist for v in row)
        tol = 1e-6 * dmax2 * (ev[-1] / ev[-d])
        pd_lines.append("PD %d %d %s %s %s" % (n, d, tok(tol), " ".join(tok(v) for v in flat(Y)),
                                                " ".join(tok(v) for v in flat(dist))))
        pd_idx.append((rc, lm, tol))
        st.nontrivial(["ER", c["pts"], lm])
    for (rc, lm, tol), po in zip(pd_idx, run_model(ctx, mexe, pd_lines)):
        if po.get("PD") != ["1"]:
            ctx.violation(dict(rc, landmarks=lm), "Landmark MDS with eigen_method = Randomized does not reproduce the "
                          "pairwise distances of Euclidean data of intrinsic dimension = target_dimension although the "
                          "landmarks span it (rank-d Gram matrix: the randomized solver is exact up to rounding; "
                          "tolerance %g on squared distances): %s" % (tol, po))


def eval_E1(ctx, exe, mexe, cases, st):
    """ratio = 1 against the non-landmark counterpart, modulo column signs"""
    if not cases:
        return
    lines = []
    for c in cases:
        other = "mds" if c["method"] == "lmds" else "isomap"
        lines.append(api(c["method"], c["N"], c["d"], 1.0, c["seed"], c["k"], c["dist"], sc_of(c)))
        lines.append(api(other, c["N"], c["d"], 1.0, -1, c["k"], c["dist"], sc_of(c)))
    impl = run_scaled(ctx, exe, lines)
    ps_lines, ps_idx = [], []
    for i, c in enumerate(cases):
        st.evals += 1
        st.count("E1_" + c["method"] + ("_scaled" if sc_of(c) else ""))
        n, d = c["N"], c["d"]
        rc = jsonable(c)
        B0 = center_gram([[v * v for v in row] for row in c["dist"]])
        if not spectrum_ok(B0, d):
            st.skip("E1_spectrum_guard_" + c["method"])
            continue
        # Landmark Isomap (dense) selects the d largest eigenvalues of B B^T, i.e. by MAGNITUDE: when a negative
        # eigenvalue of the geodesic Gram matrix is among the d largest in magnitude the ratio = 1 clause fails
        # by construction of the algorithm (finding F44, see ratio_one_lisomap_partial)
        magnitude_case = c["method"] == "lisomap" and not spectrum_ok(B0, d, by_magnitude=True)
        perm, Y, p1 = parse_api(impl[2 * i], n, d)
        _, Z, p2 = parse_api(impl[2 * i + 1], n, d)
        if p2:
            st.skip("E1_reference_method_failed")
            continue
        if p1:
            ctx.violation(rc, "%s with landmark_ratio = 1: %s (the non-landmark method succeeds)" % (c["method"], p1))
            continue
        if perm is not None and sorted(perm) != list(range(n)):
            ctx.violation(rc, "oracle contract: tapkee::random_shuffle did not produce a permutation")
            continue
        scale = max(1.0, max(abs(v) for v in flat(Z)))
        ps_lines.append("PS %d %d %s %s %s" % (n, d, tok(1e-7 * scale), " ".join(tok(v) for v in flat(Y)),
                                                " ".join(tok(v) for v in flat(Z))))
        ps_idx.append((rc, magnitude_case))
        if not magnitude_case:
            st.nontrivial(["E1", c["method"], c["dist"], perm, sc_of(c)])
    f43 = any(e.get("signature") == F43_SIG for e in ctx._known_db)
    for (rc, magnitude_case), po in zip(ps_idx, run_model(ctx, mexe, ps_lines)):
        if po.get("PS") != ["1"]:
            if magnitude_case:
                st.count("E1_lisomap_negative_eigenvalue_selected")
                why = ("Landmark Isomap with landmark_ratio = 1 differs from Isomap by more than column signs: the "
                       "geodesic Gram matrix has a negative eigenvalue among the %d largest in magnitude and the dense "
                       "branch selects eigenvalues of B B^T (squares)" % rc["d"])
                if f43:
                    ctx.violation(rc, why, signature=F43_SIG)
                else:
                    ctx.note("OPEN F44 (not registered, not counted as a verdict): " + why)
                continue
            ctx.violation(rc, "with landmark_ratio = 1 the landmark method does not coincide with its non-landmark "
                          "counterpart modulo column signs (simple, positive leading spectrum): %s" % po)


def gen_EI(rng):
    """Landmark Isomap through the method class with ratio < 1 (distinct integer weights: no ties)"""
    c = gen_I(rng)
    n = c["N"]
    d = c["d"]
    lo = max(3.0 / n, (d + 1) / n)
    return {"mode": "EI", "method": "lisomap", "N": n, "d": d, "k": c["k"], "dist": c["dist"],
            "ratio": rng.uniform(lo, 1.0), "seed": rng.randrange(1 << 30)}


def eval_EI(ctx, exe, mexe, cases, st):
    """LandmarkIsomapImplementation::embed() against the routine-level pipeline of mode I (which is tied to the
    model and to the exact geodesic reference) on the landmarks the hook reports"""
    if not cases:
        return
    lines = [api("lisomap", c["N"], c["d"], c["ratio"], c["seed"], c["k"],
                 [[float(v) for v in row] for row in c["dist"]], sc_of(c)) for c in cases]
    impl = run_scaled(ctx, exe, lines)
    i_lines, idx = [], []
    for c, res in zip(cases, impl):
        st.evals += 1
        st.count("EI_lisomap" + ("_scaled" if sc_of(c) else ""))
        n, d = c["N"], c["d"]
        rc = jsonable(c)
        count = int(n * c["ratio"])
        if res["crashed"]:
            ctx.violation(rc, "Landmark Isomap (method class): " + crash_why(res))
            continue
        perm, Y, problem = parse_api(res, n, d)
        if perm is None:
            if not problem:
                ctx.mismatch(rc, "hook H1 did not report the permutation")
            else:
                st.skip("EI_" + problem.split()[0])
            continue
        if sorted(perm) != list(range(n)):
            ctx.violation(rc, "oracle contract: tapkee::random_shuffle did not produce a permutation")
            continue
        lm = perm[:count]
        if any(v is None for row in ref_geodesics(c["dist"], c["k"], lm) for v in row):
            st.skip("EI_disconnected_graph")
            continue
        if Y is None:
            st.skip("EI_no_embedding")
            continue
        i_lines.append({"mode": "I", "N": n, "L": count, "d": d, "k": c["k"], "lm": lm, "dist": c["dist"],
                        "sc": sc_of(c)})
        idx.append((rc, lm, Y))
    for (rc, lm, Y), res in zip(idx, run_scaled(ctx, exe, i_lines)):
        st.evals += 1
        try:
            Z = parse_hex_floats(res["rows"]["EMB"])
            lam = parse_hex_floats(res["rows"]["LAM"])
        except (KeyError, ValueError):
            continue
        if not finite(Z) or not finite(lam) or min(lam) <= 1e-9 * max(lam):
            st.skip("EI_ill_conditioned")
            continue
        scale = max(1.0, max(abs(v) for v in Z))
        worst = max(abs(a - b) for a, b in zip(flat(Y), Z))
        if worst > 1e-7 * scale * max(1.0, (max(lam) / min(lam)) ** 0.5):
            ctx.mismatch(dict(rc, landmarks=lm), "LandmarkIsomapImplementation::embed() and the same pipeline through "
                         "the internal routines (harness mode I, tied to the model) differ by %g on the same landmarks"
                         % worst)
        else:
            st.nontrivial(["EI", rc["dist"], lm, rc["d"], sc_of(rc)])


def f21_case():
    pts = [[i * i % 7, i, (3 * i) % 5, i % 2, (i * i * i) % 11, i % 3] for i in range(10)]
    return {"mode": "V", "method": "lmds", "N": 10, "d": 5, "ratio": 0.3, "seed": 7, "pts": pts}


def gen_V(rng):
    """validation decisions around the boundaries: ratio at / just below 3/N, at / just above 1,
    target_dimension at count - 1, count, count + 1, N - 1, N"""
    n = rng.randint(5, 14)
    mode = rng.random()
    if mode < 0.15:
        ratio = math.nextafter(3.0 / n, 0.0)
    elif mode < 0.3:
        ratio = 3.0 / n
    elif mode < 0.4:
        ratio = rng.choice([1.0, math.nextafter(1.0, 2.0)])
    else:
        ratio = rng.uniform(3.0 / n, 1.0)
    count = int(n * ratio)
    d = max(0, rng.choice([count - 1, count, count, count + 1, count + 1, count + 2, n - 1, n, 1]))
    pts = [[rng.randint(-9, 9) for _ in range(6)] for _ in range(n)]
    return {"mode": "V", "method": rng.choice(["lmds", "lmds", "lisomap"]), "N": n, "d": d, "ratio": ratio,
            "seed": rng.randrange(1 << 30), "pts": pts}


def eval_V(ctx, exe, mexe, cases, st):
    """accept / reject of the constructor + validate() against Landmark_Float.lmds_validate (Coq primitive
    floats); an accepted request must run to an N x d embedding, a rejected one must raise
    wrong_parameter_error before anything is computed"""
    if not cases:
        return
    lines = [impl_line(api(c["method"], c["N"], c["d"], c["ratio"], c["seed"], min(c["N"] - 1, 4),
                           euclid_dist(c["pts"]))) for c in cases]
    # one process per case group is enough: a crash is attributed to its case by run_impl
    impl = run_impl(ctx, exe, lines)
    counts, flags = coq_counts(ctx, [(c["N"], c["ratio"]) for c in cases], [c["d"] for c in cases])
    for c, res, cq, ok in zip(cases, impl, counts, flags):
        st.evals += 1
        st.count("V_accept" if ok else "V_reject")
        rc = jsonable(c)
        n, d = c["N"], c["d"]
        count = int(n * c["ratio"])
        rejected = res["exc"] in ("wrong_parameter", "wrong_parameter_type") and not res["crashed"]
        if not rejected and d > count and 3.0 / n <= c["ratio"] <= 1.0:
            what = ("aborts: " + str(res["sanitizer"])[:300]) if res["crashed"] else (
                "raises " + res["exc"] if res["exc"] else "returns an embedding built from columns outside the "
                "%d-column eigenvector matrix" % count)
            ctx.violation(rc, "%s with N=%d, landmark_ratio=%r (%d landmarks), target_dimension=%d is not rejected "
                          "by validation and then %s (model: lmds_bounds_refuted; the landmarks cannot be embedded "
                          "as MDS would embed that subset: MDS itself needs target_dimension < #samples)" % (
                              c["method"], n, c["ratio"], count, d, what), signature=F21_SIG)
            continue
        if res["crashed"]:
            ctx.violation(rc, "%s N=%d d=%d ratio=%r: %s" % (c["method"], n, d, c["ratio"], crash_why(res)))
            continue
        if ok != (not rejected):
            ctx.mismatch(rc, "validation decision: model lmds_validate says %s, implementation %s (%s)" % (
                "accept" if ok else "reject", "rejects" if rejected else "accepts", res["exc"]))
            continue
        if ok:
            _, Y, problem = parse_api(res, n, d)
            if problem and not problem.startswith("non-finite") and c["method"] == "lmds":
                ctx.violation(rc, "accepted request does not produce an N x d embedding: " + problem)
            st.nontrivial(["V", n, d, c["ratio"], c["method"]])


# ----------------------------------------------------------------------------- driver
def budgets(ctx, scale=1):
    q = ctx.quick
    return {"S": (60 if q else 400) * scale, "R": (100 if q else 1500) * scale, "T": (48 if q else 500) * scale,
            "I": (16 if q else 200) * scale, "E": (12 if q else 120) * scale,
            "E1_lmds": (10 if q else 80) * scale, "E1_lisomap": (8 if q else 60) * scale,
            "V": (30 if q else 300) * scale, "E2": (8 if q else 80) * scale, "EI": (12 if q else 120) * scale,
            "TM": (24 if q else 300) * scale, "IM": (8 if q else 100) * scale, "ER": (8 if q else 80) * scale}


def generate(ctx, rng, b):
    cases = {"S": [gen_S(rng) for _ in range(b["S"])], "R": [gen_R(rng) for _ in range(b["R"])],
             "T": [gen_T(rng) for _ in range(b["T"])], "I": [gen_I(rng) for _ in range(b["I"])],
             "E": [gen_E(rng) for _ in range(b["E"])],
             "E1": [gen_ratio_one(rng, "lmds") for _ in range(b["E1_lmds"])] +
                   [gen_ratio_one(rng, "lisomap") for _ in range(b["E1_lisomap"])],
             "V": [f21_case()] + [gen_V(rng) for _ in range(b["V"])],
             "E2": [gen_E2(rng) for _ in range(b["E2"])],
             "EI": [gen_EI(rng) for _ in range(b["EI"])],
             "TM": [gen_TM(rng) for _ in range(b["TM"])],
             "IM": [gen_IM(rng) for _ in range(b["IM"])],
             "ER": [gen_ER(rng) for _ in range(b["ER"])]}
    # boundary cases aimed at the case splits of the proofs
    cases["S"] += [{"mode": "S", "N": 47, "ratio": 3.0 / 47, "reps": 2, "seed": 1},
                   {"mode": "S", "N": 3, "ratio": 1.0, "reps": 2, "seed": 2},
                   {"mode": "S", "N": 10, "ratio": 0.3, "reps": 2, "seed": 3},
                   {"mode": "S", "N": 64, "ratio": math.nextafter(0.5, 0.0), "reps": 2, "seed": 4}]
    cases["R"] += [{"mode": "R", "N": 3, "L": 3, "d": 1, "lm": [2, 0, 1], "dist": [[0, 1, 2], [1, 0, 1], [2, 1, 0]],
                    "mu": [Fraction(1), Fraction(2), Fraction(3)], "first": [[1], [2], [3]],
                    "second": [Fraction(2)]},          # every row is a landmark: nothing to triangulate
                   {"mode": "R", "N": 4, "L": 1, "d": 1, "lm": [3], "dist": [[0, 1, 2, 3], [1, 0, 1, 2],
                    [2, 1, 0, 1], [3, 2, 1, 0]], "mu": [Fraction(0)], "first": [[2]], "second": [Fraction(4)]}]
    # every data-carrying case once more on a copy of its data scaled by a power of two (see SC_CHOICES)
    for key in DATA_STREAMS:
        cases[key] = cases[key] + [dict(c, sc=rng.choice(SC_CHOICES)) for c in cases[key]]
    return cases


STREAMS = ("S", "R", "T", "TM", "I", "IM", "E", "E1", "V", "E2", "EI", "ER")
DATA_STREAMS = ("R", "T", "TM", "I", "IM", "E", "E1", "E2", "EI")


def evaluate_all(ctx, exe, mexe, cases, st):
    for key, fn in (("S", eval_S), ("R", eval_R), ("T", eval_T), ("TM", eval_T), ("I", eval_I), ("IM", eval_I),
                    ("E", eval_E), ("E1", eval_E1), ("V", eval_V), ("E2", eval_E2), ("EI", eval_EI),
                    ("ER", eval_ER)):
        t0 = ctx.elapsed()
        fn(ctx, exe, mexe, cases.get(key, []), st)
        st.times[key] = round(st.times.get(key, 0) + ctx.elapsed() - t0, 1)


def corpus_cases(ctx):
    out = {}
    for name, c in ctx.corpus():
        c = revive(c.get("case", c))
        key = c.get("mode") if c.get("mode") in STREAMS else None
        if key:
            out.setdefault(key, []).append(c)
    return out


def revive(c):
    """JSON -> case (Fractions for the R stream)"""
    c = dict(c)
    if c.get("mode") == "R":
        c["mu"] = [Fraction(v) for v in c["mu"]]
        c["second"] = [Fraction(v) for v in c["second"]]
    return c


def build(ctx):
    """harness (default heap), harness with -DTAPKEE_USE_FIBONACCI_HEAP (the Dijkstra variant that uses the
    frontier flags f[], stream I only) and the extracted model, built concurrently.  -O0 -g0 and the reduced
    include set of harness/c11.cpp keep a cold build near 40 s of CPU per binary."""
    from concurrent.futures import ThreadPoolExecutor
    # thorough tier: the real tapkee::embed dispatcher (all methods instantiated; ~150 s of CPU per binary)
    api = [] if ctx.quick else ["C11_FULL_API"]
    with ThreadPoolExecutor(max_workers=3) as pool:
        f1 = pool.submit(ctx.cpp, "harness/c11.cpp", defines=api, extra=["-O0", "-g0"])
        f2 = pool.submit(ctx.cpp, "harness/c11.cpp", name="fibheap_c11",
                         defines=["TAPKEE_USE_FIBONACCI_HEAP"] + api, extra=["-O0", "-g0"])
        f3 = pool.submit(ctx.extract)
        exe, fexe, mexe = f1.result(), f2.result(), f3.result()
    ctx.fib_exe = fexe
    return exe, mexe


def run(ctx):
    rng = ctx.rng
    st = Stats()
    say_scale(ctx)
    coq = ctx.coq()
    st.times["coq"] = round(ctx.elapsed(), 1)
    exe, mexe = build(ctx)
    st.times["build"] = round(ctx.elapsed() - st.times["coq"], 1)
    corp = corpus_cases(ctx)
    if corp:
        evaluate_all(ctx, exe, mexe, corp, st)
        st.count("corpus", sum(len(v) for v in corp.values()))
    cases = generate(ctx, rng, budgets(ctx))
    evaluate_all(ctx, exe, mexe, cases, st)
    if ctx.is_unshown():
        # search phase: larger budget, fresh cases; every evaluator applies the spec to the implementation's
        # own output first, so a genuine violation turns into a replayable input
        evaluate_all(ctx, exe, mexe, generate(ctx, rng, budgets(ctx, 4)), st)
    samples = []
    for key in STREAMS:
        for c in cases.get(key, [])[:1] + cases.get(key, [])[-1:]:
            s = jsonable(c)
            if "dist" in s:
                s["dist"] = s["dist"][:2]
            samples.append(s)
    ctx.finish(
        evaluations=st.evals, distinct_nontrivial=len(st.distinct),
        rule="streams S (select_landmarks_random, 3 calls per case, hook H1 permutation, boundary ratios 3/N, k/N "
             "+- 1 ulp, 1), R (triangulate alone, exact dyadic operands), T (Landmark-MDS embed body through the "
             "internal routines; integer metrics line / L1 lattice / asymmetric table; L a power of two), I (Landmark "
             "Isomap dense body, distinct integer weights), E (public API, Euclidean integer configurations of "
             "intrinsic dimension d = target_dimension in R^D, 3 seeds each), E1 (ratio = 1 against MDS / Isomap), E2 (intrinsic dimension below target_dimension), EI (Landmark Isomap method "
             "class vs routine-level pipeline), V (validation decisions vs the PrimFloat model), TM / IM (streams T / I on the "
             "real embed() bodies, routine calls recorded by macros; ratio = L/N with N, L powers of two), ER (Landmark MDS, "
             "eigen_method = Randomized, rank-d Euclidean data, unit scale); every case of R, T, TM, I, IM, E, E1, E2, EI is "
             "evaluated twice: as generated and on a copy multiplied by 2^sc, sc uniform in {-40,-40,-36,-32,-28,-24,-16,-8,8,"
             "16,24,28,32,36,40,40}; "
             "non-trivial = at least one non-landmark row (S: 3 <= count < N; E: spanning landmark subset, "
             "well-conditioned; E1: spectrum guard passed); distinct by hash of the case.  Counts are fixed by the "
             "tier, not by time.",
        samples=samples,
        histogram={"streams": st.hist, "skipped_by_guard": st.skipped, "wall_seconds_by_phase": st.times},
        trusted_base=TRUSTED,
        assumptions=["distance callback values are finite and non-negative",
                     "N < 2^31 (IndexType = int); ratio finite",
                     "ratio = 1 clause compared only when the d leading eigenvalues of the centred Gram matrix are "
                     "positive and simple (for Landmark Isomap also leading in magnitude): see ratio_one_*_partial",
                     "Euclidean clause checked for intrinsic dimension = target_dimension (selected eigenvalues "
                     "non-zero: hypothesis lam c <> 0 of lmds_reproduces_euclidean) and, stream E2, strictly below it",
                     "data scales 2^-40 .. 2^40 (no overflow / underflow of the squared-distance pipeline; Landmark "
                     "Isomap's eigenvalues scale with the 4th power: 2^-160 .. 2^160 times unit-scale values)",
                     "eigen_method Dense everywhere except stream ER (Randomized, unit scale; its absolute cut-off is "
                     "known finding F36); Arpack not compiled in; Landmark Isomap's non-dense branch not modelled"],
        extra={"float_cases_checked_in_coq": st.hist.get("S_float_pairs", 0),
               "violations_by_stream": by_stream(ctx._violations),
               "mismatches_by_stream": by_stream(ctx._mismatches)})


def say_scale(ctx):
    """violations on a scaled copy say so (the replay case carries the exponent in its field sc)"""
    if getattr(ctx, "_c11_say_scale", False):
        return
    orig = ctx.violation

    def violation(case, why, signature=None):
        if NOTRUN in str(why):
            return False
        if isinstance(case, dict) and sc_of(case):
            why = "%s [data multiplied by 2^%d (case field sc), results multiplied back before judging]" % (
                why, sc_of(case))
        return orig(case, why, signature=signature)
    ctx.violation = violation
    ctx._c11_say_scale = True


def by_stream(pairs):
    out = {}
    for cs, _ in pairs:
        key = "?"
        if isinstance(cs, dict):
            key = str(cs.get("mode")) + ("_scaled" if sc_of(cs) else "")
        out[key] = out.get(key, 0) + 1
    return out


def replay(ctx, case):
    exe, mexe = build(ctx)
    st = Stats()
    say_scale(ctx)
    c = revive(case)
    mode = c.get("mode")
    key = mode if mode in STREAMS else None
    if key is None:
        print("replay: unknown case mode %r" % mode)
        return 3
    evaluate_all(ctx, exe, mexe, {key: [c]}, st)
    for cs, why in ctx._violations[:3]:
        print("  why: " + str(why)[:600])
    for cs, detail in ctx._mismatches[:3]:
        print("  mismatch: " + str(detail)[:600])
    if ctx.has_violation() or ctx.is_unshown():
        print("replay: property C11 FAILS on this input")
        return 1
    print("replay: property C11 holds on this input")
    return 0
