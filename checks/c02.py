"""C02 — all three neighbour searches (brute force, VP-tree, cover tree) return exactly the k nearest
other samples.

proof  : coq/Knn_Spec.v (is_knn, decision procedure is_knn_b, "k smallest sorted distances" wording),
         Knn_Brute_*.v, Knn_VpTree_*.v, Knn_CoverSel_*.v, Knn_Scale.v, CoverTree_*.v (model of the batch query, proofs of
         its pruning tests, of the validity of the running bound - CoverTree_Proof_Audit.v - and of the construction -
         CoverTree_Build_Proof.v -, end-to-end theorem covertree_pipeline_exact), Properties_C02.v.
tie    : exact metrics served as MATRICES through the distance / kernel callback (integers, or integers * 2^s, so double
         arithmetic is exact and ties are real ties), over the identity index range or over a window of a longer vector of
         offset / permuted ids.  On every run, for every case and several k (k = N-2 and k = N-1 always among them):
           * is_knn_b (extracted) on the rows find_neighbors() returns, for all three methods, check_connectivity false
             and (one k per case) true;
           * brute force: the observed std::nth_element result is checked against its contract
             (nth_ok_b) and pushed through the model row;
           * VP-tree: the REAL tree is dumped (#define private public), the extracted vp_inv_b /
             vp_holds_b run on it, the model search runs on the real tree and its distance list must
             equal the real search's, the model wrapper must agree with find_neighbors;
           * cover tree: the REAL candidate lists of k_nearest_neighbor(k+1) are checked for
             completeness (cand_complete_b = hypothesis of ct_select_exact) and pushed through the
             model selection; the real tree is dumped, its invariants checked (ct_inv_b, ct_holds_b, leaf100_b), the
             model of the construction must build the same tree, and the model batch query is run on the real tree
             (candidate sets must coincide; its audit flag must be true: theorem ct_query_audit_true).
         dispatcher (wave 4): Knn_Wrapper_Model.find_neighbors_core models find_neighbors with the result of the tree
         search as an arbitrary parameter and the exhaustive-search fallback of fix F48; theorem wrapper_fired_exact: for
         EVERY callback a fired fallback returns a table whose every row is an exact k-nearest row.  Tied by
           * T: translate/t_knn_wrapper.py reads the shape of find_neighbors (clamp, dispatch, fallback block) from the
             tree under test; it must be the committed coq/gen/KnnWrapper.v (= the model's shape, obligation
             fn_shape_src_is_model);
           * a stream of NON-metric callbacks (arbitrary symmetric / asymmetric integer tables, squared Euclidean
             distances, perturbed lattice metrics, kernel-induced distances of a linear kernel on features with a common
             offset of 2e6..1e7) through command W of the harness: the raw tree table, the table find_neighbors returns
             and the number of warnings seen by a custom LoggerImplementation; the extracted find_neighbors_core decides
             from the raw table whether the fallback must fire (compared with the logger), and when it does every
             returned row goes through the extracted is_knn_b on the callback's values as they are (for the kernel
             flavour: the table printed by the library's own KernelDistance, ranks of the doubles);
           * on every metric case one W probe per tree method: nothing logged, table returned = the tree's table.
search : when a proof, the translator table or the correspondence breaks, the dispatcher stream (non-metric callbacks) and a
         larger budget of tie-heavy metric cases are run against is_knn_b directly.
"""
import hashlib
import json
import math

import vlib

PROPERTY = "C02"

TRUSTED = [
    "hand-written models Knn_Brute_Model.v / Knn_VpTree_Model.v / Knn_CoverSel_Model.v / CoverTree_Model.v tied by "
    "differential + structural testing (not a proof about the C++ text)",
    "distances are integers in the models: the searches only compare, add and subtract distances; harness inputs are "
    "integer-valued matrices far below 2^53 so every double operation is exact (IEEE rounding is residual)",
    "std::nth_element is an oracle (contract nth_ok / nth_ok_vp); validated on observed brute-force calls and, for the "
    "VP-tree, through vp_inv_b on the dumped real tree",
    "std::priority_queue: top is a maximum (the model pops one fixed maximum; theorems speak about distances)",
    "VP-tree pivot draw uniform_random() is an oracle (any in-range value; theorem build_inv quantifies over it)",
    "cover tree: the three models (construction CoverTree_Build_Model.v, batch query CoverTree_Model.v with the F46 copy "
    "radius, selection Knn_CoverSel_Model.v) are proved correct END TO END (covertree_pipeline_exact: every metric, every "
    "k < N, one row per sample, every row a k-nearest set; no audited or run-time-checked hypothesis left inside the "
    "models, only the arithmetical side condition that get_scale covers the largest distance, i.e. distances below "
    "1.3^4000); what ties the models to the C++ is testing: the model-built tree is compared node by node with the dumped "
    "real tree, ct_inv_b / ct_holds_b / leaf100_b are evaluated on the dumped real tree, the model query on the real tree "
    "must return the real candidate sets, cand_complete_b is evaluated on the real candidate lists",
    "kernel flavour: sqrt is monotone and exact on perfect squares; rows are judged through squared distances",
    "dispatcher find_neighbors: hand-written model Knn_Wrapper_Model.find_neighbors_core (tree result = parameter; "
    "check_connectivity = false; the retry recursion of check_connectivity = true is only tested, command G); tied by the "
    "translator translate/t_knn_wrapper.py (regular expressions + brace matching over the body of find_neighbors; "
    "comments, string literals, logger calls, static_cast<IndexType> and the iterator type's spelling are dropped; "
    "self-test with 5 seeded edits on every run) and by the differential run on non-metric callbacks; the logger "
    "observation trusts tapkee::Logging to forward message_warning to the installed LoggerImplementation; noisy "
    "kernel distances are judged on the doubles KernelDistance::distance returns (ranks), a table with a NaN is skipped",
    "extraction (ExtrOcamlBasic only) + OCaml 4.13.1 + coq/extract/c02_driver.ml (parsing/printing)",
    "harness/c02.cpp dump routines; g++ ASan/UBSan/_GLIBCXX_ASSERTIONS as the memory-safety observer",
]

METHODS = ["B", "V", "C"]
FAST = ("scatter", "copy_radius")      # generators whose cases go through the batched spec-only path
MNAME = {"B": "brute force", "V": "VP-tree", "C": "cover tree"}
SCALE100 = 1.3 ** 97    # distance ratio from which cover-tree scales can reach the magic number 100


# ----------------------------------------------------------------------------- metrics
def l1(P):
    return [[sum(abs(a - b) for a, b in zip(p, q)) for q in P] for p in P]


def gen_grid(rng, nmax):
    dim = rng.choice([1, 2, 2, 2, 3])
    while 2 ** dim > nmax and dim > 1:
        dim -= 1
    shape, n = [], 1
    for i in range(dim):
        room = nmax // (n * 2 ** (dim - i - 1))      # the remaining axes take at least 2 each
        s = rng.randint(2, max(2, min(7 if dim < 3 else 4, room)))
        shape.append(s)
        n *= s
    pts = [[]]
    for s in shape:
        pts = [p + [i] for p in pts for i in range(s)]
    if rng.random() < 0.5:
        rng.shuffle(pts)
    return pts, "grid%dd" % dim


def add_copies(rng, pts, nmax, k_hint=None):
    """append 1..k+3 copies of one or two points"""
    pts = list(pts)
    for _ in range(rng.choice([1, 1, 2])):
        c = rng.randint(1, (k_hint or rng.randint(1, 4)) + 3)
        p = rng.choice(pts)
        for _ in range(c):
            if len(pts) < nmax:
                pts.insert(rng.randrange(len(pts) + 1), list(p))
    return pts


def gen_line(rng, nmax):
    n = rng.randint(2, nmax)
    r = rng.choice([3, n // 2 + 1, n, 4 * n, 1000])
    return [[rng.randint(0, r)] for _ in range(n)], "line"


def gen_graph(rng, nmax):
    n = rng.randint(2, min(nmax, 40))
    inf = 10 ** 9
    D = [[0 if i == j else inf for j in range(n)] for i in range(n)]
    wmax = rng.choice([1, 2, 8, 64])
    wmin = 0 if rng.random() < 0.15 else 1
    for i in range(1, n):
        j = rng.randrange(i)
        D[i][j] = D[j][i] = rng.randint(wmin, wmax)
    for _ in range(rng.randint(0, 2 * n)):
        i, j = rng.randrange(n), rng.randrange(n)
        if i != j:
            w = rng.randint(wmin, wmax)
            if w < D[i][j]:
                D[i][j] = D[j][i] = w
    for m in range(n):
        Dm = D[m]
        for i in range(n):
            dim = D[i][m]
            Di = D[i]
            for j in range(n):
                if dim + Dm[j] < Di[j]:
                    Di[j] = dim + Dm[j]
    return D, "graph"


def gen_ultra(rng, nmax):
    n = rng.randint(2, nmax)
    D = [[0] * n for _ in range(n)]

    def rec(idx, h):
        if len(idx) <= 1:
            return
        if h <= 0:
            return  # coincident group
        cut = rng.randint(1, len(idx) - 1)
        a, b = idx[:cut], idx[cut:]
        for i in a:
            for j in b:
                D[i][j] = D[j][i] = h
        rec(a, h - rng.randint(1, 2))
        rec(b, h - rng.randint(1, 2))
    idx = list(range(n))
    rng.shuffle(idx)
    rec(idx, rng.randint(1, 7))
    return D, "ultra"


def gen_coincident(rng, nmax):
    n = rng.randint(2, min(nmax, 24))
    m = rng.randint(1, max(1, n // 3))
    base = [[rng.randint(0, 6), rng.randint(0, 6)] for _ in range(m)]
    pts = [list(rng.choice(base)) for _ in range(n)]
    return pts, "coincident"


def gen_wide(rng, nmax, dup):
    """1-D points spread over many binary orders of magnitude (all differences exact in binary64)"""
    n = rng.randint(3, min(nmax, 20))
    top = rng.choice([30, 36, 40, 44, 50]) if dup else rng.choice([20, 30, 36])
    pts = []
    for _ in range(n):
        e = rng.randint(0, top)
        pts.append([rng.choice([0, 1, 3]) + (1 << e) * rng.choice([0, 1, 1, -1])])
    pts[0] = [1 << top]
    if dup:
        for _ in range(rng.randint(1, 3)):
            pts[rng.randrange(1, n)] = list(pts[rng.randrange(1, n)])
    return pts, ("wide_dup" if dup else "wide")


def gen_copy_radius(rng):
    """aimed at the query-side slack of copy_zero_set / copy_cover_sets (defect F46): a node point c, a query leaf q' at
    distance m behind it, several witnesses at distance v from c in directions away from q' (so that they are exactly
    v + m from q' and the bound of c is tight), and a sample x beyond q' at distance v + m - 1 (or - 2) from q', i.e.
    about v + 2m from c; L1 in the plane, every k.  With ONE query max_dist in the copy tests about 1 such set in 100
    gives a wrong row; random lattice sets hit it once in 3e6."""
    m = rng.randint(2, 12)
    v = rng.randint(2 * m, 4 * m)
    sc = 1 << rng.randint(0, 3)
    nw = rng.randint(3, 6)
    P = [[0, 0], [-m, 0]]
    for _ in range(nw):
        a = rng.randint(0, v)
        b = v - a
        if rng.random() < 0.5:
            b = -b
        if rng.randrange(6) == 0 and a > 0:
            a -= 1
        P.append([a, b])
    s = v + m - rng.randint(1, 2)
    P.append([-m - s, 0 if rng.random() < 0.5 else rng.randint(-1, 1)])
    if rng.random() < 0.5:
        P.append([-m - s - rng.randint(1, m), rng.randint(-2, 2)])
    for _ in range(rng.randint(0, 3)):
        P.append([rng.randint(-3 * v, 3 * v), rng.randint(-3 * v, 3 * v)])
    P = [[x * sc, y * sc] for x, y in P]
    rng.shuffle(P)
    return make_case(rng, "copy_radius", "D", len(P), None, l1(P), "copy_radius", full_ks=True, structural=False)


def gen_ultrawide(rng, nmax):
    """a small integer cluster plus outliers at 2^e, e up to 600: distance ratios far above 1.3^188 (the physical
    size of the 101-slot cover_sets array).  The distances go to the harness as hex floats (every one is exactly
    representable: the far distances are the powers of two themselves, |2^e - x| rounds to 2^e and the table stays a
    metric); the model gets the same table with the distinct values replaced by their ranks (is_knn only compares)."""
    n = rng.randint(3, min(nmax, 10))
    pts = [rng.randint(0, 6) for _ in range(n)]
    exps = sorted(rng.sample(range(60, 600), rng.randint(1, 3)))
    far = {}
    for e in exps:
        far[rng.randrange(n)] = e
    def dist(i, j):
        if i == j:
            return 0.0
        ei, ej = far.get(i), far.get(j)
        if ei is None and ej is None:
            return float(abs(pts[i] - pts[j]))
        if ei is not None and ej is not None and ei == ej:
            return 0.0
        return float(2 ** max(ei or 0, ej or 0))
    F = [[dist(i, j) for j in range(n)] for i in range(n)]
    vals = sorted({v for row in F for v in row})
    rank = {v: i for i, v in enumerate(vals)}
    c = {"gen": "ultrawide", "kind": "D", "N": n, "tseed": rng.randrange(1 << 30), "structural": False,
         "order_only": True, "M": [[rank[v] for v in row] for row in F],
         "Mhex": [[v.hex() for v in row] for row in F]}
    c["ks"] = pick_ks(rng, n, c["M"], True)
    return c


def pick_ks(rng, n, D, full):
    if n - 1 <= 0:
        return []
    if full or n <= 12:
        return list(range(1, n))
    # the boundaries k = N-1 (every other sample) and k = N-2 (all but one: the k+1 the tree wrappers ask for is
    # the whole tree) are in every k-set of every generator
    ks = {1, n - 1, max(1, n - 2), rng.randint(1, n - 1), rng.randint(1, min(n - 1, 8))}
    # aim at a tie: k = number of samples at distance <= some value from a random query (+-1)
    q = rng.randrange(n)
    row = sorted(D[q][j] for j in range(n) if j != q)
    t = rng.randrange(len(row))
    c = sum(1 for x in row if x <= row[t])
    for kk in (c - 1, c, c + 1):
        if 1 <= kk <= n - 1 and len(ks) < 7:
            ks.add(kk)
    return sorted(ks)


def isqrt_exact(v):
    r = math.isqrt(v)
    return r if r * r == v else None


def make_case(rng, gen, kind, n, payload, D, label, full_ks=False, structural=True):
    c = {"gen": label, "kind": kind, "N": n, "tseed": rng.randrange(1 << 30), "structural": structural}
    if kind == "D":
        c["M"] = D
    else:
        c["X"] = payload
    c["ks"] = pick_ks(rng, n, D, full_ks)
    return c


def gen_case(rng, nmax, which=None):
    g = which or rng.choice(["grid", "grid", "grid_dup", "line", "line", "graph", "ultra", "coincident", "wide",
                             "wide_dup", "kernel", "kernel1", "generic", "clustered", "kernel_scaled"])
    if g == "kernel_scaled":
        return gen_kernel_scaled(rng, nmax)
    if g == "generic":
        # tie-free data in 1..50 dimensions: random integer coordinates, L1 (exact)
        n = rng.randint(2, nmax)
        dim = rng.choice([1, 2, 3, 5, 10, 20, 50])
        pts = [[rng.randrange(1 << 20) for _ in range(dim)] for _ in range(n)]
        return make_case(rng, g, "D", n, None, l1(pts), "generic%dd" % dim)
    if g == "clustered":
        # tight clusters far apart (deep trees, ties inside the clusters), L1 in 2 dimensions
        n = rng.randint(3, nmax)
        nc = rng.randint(1, max(1, min(6, n // 2)))
        spread = rng.choice([1 << 10, 1 << 20, 1 << 30])
        centres = [[rng.randrange(spread), rng.randrange(spread)] for _ in range(nc)]
        tight = rng.choice([1, 2, 8])
        pts = []
        for _ in range(n):
            c = rng.choice(centres)
            pts.append([c[0] + rng.randint(0, tight), c[1] + rng.randint(0, tight)])
        return make_case(rng, g, "D", n, None, l1(pts), "clustered")
    if g in ("grid", "grid_dup"):
        pts, label = gen_grid(rng, nmax if g == "grid" else max(4, nmax - 8))
        if g == "grid_dup":
            pts = add_copies(rng, pts, nmax)
            label += "+copies"
        return make_case(rng, g, "D", len(pts), None, l1(pts), label)
    if g == "line":
        pts, label = gen_line(rng, nmax)
        return make_case(rng, g, "D", len(pts), None, l1(pts), label)
    if g == "graph":
        D, label = gen_graph(rng, nmax)
        return make_case(rng, g, "D", len(D), None, D, label)
    if g == "ultra":
        D, label = gen_ultra(rng, nmax)
        return make_case(rng, g, "D", len(D), None, D, label)
    if g == "coincident":
        pts, label = gen_coincident(rng, nmax)
        return make_case(rng, g, "D", len(pts), None, l1(pts), label)
    if g in ("wide", "wide_dup"):
        pts, label = gen_wide(rng, nmax, g == "wide_dup")
        return make_case(rng, g, "D", len(pts), None, l1(pts), label)
    # kernel flavour: integer feature vectors, kernel = dot product
    n = rng.randint(2, min(nmax, 30))
    dim = 1 if g == "kernel1" else rng.choice([1, 2, 3])
    r = rng.choice([2, 4, 9])
    X = [[rng.randint(-r, r) for _ in range(dim)] for _ in range(n)]
    if rng.random() < 0.4:
        X = add_copies(rng, X, min(nmax, 34))
        n = len(X)
    D2 = [[sum((a - b) ** 2 for a, b in zip(p, q)) for q in X] for p in X]
    return make_case(rng, g, "K", n, X, D2, "kernel%dd" % dim)


def model_table(c):
    """(table for the extracted model, exact?)  exact = the table holds the true distances (not only their order)"""
    if c["kind"] == "D":
        return c["M"], not c.get("order_only", False)
    X = c["X"]
    D2 = [[sum((a - b) ** 2 for a, b in zip(p, q)) for q in X] for p in X]
    R = [[isqrt_exact(v) for v in row] for row in D2]
    s = c.get("kscale", 0)
    if all(v is not None for row in R for v in row) and s % 2 == 0:
        # kernel scaled by 2^s: the induced distances are 2^(s/2) * R exactly (sqrt of an exact square)
        if s > 0:
            return [[v << (s // 2) for v in row] for row in R], True
        return R, True          # s < 0: the dumps are divided by dscale = 2^(s/2) before they meet the model
    return D2, False


def dscale(c):
    s = c.get("kscale", 0)
    return 2.0 ** (s // 2) if (c["kind"] == "K" and s < 0 and s % 2 == 0) else 1.0


def gen_kernel_scaled(rng, nmax):
    """PSD integer kernel tables G = X X^T at tiny and huge scales: the callback serves G * 2^s, s in [-60, 60]
    (every entry exact in binary64).  KernelDistance::distance = sqrt(k(l,l) - 2k(l,r) + k(r,r)) and the VP-tree's
    kernel comparator -2k(p,a)+k(a,a) are scale-equivariant, so rows must be the same k nearest sets as at s = 0."""
    n = rng.randint(2, min(nmax, 30))
    dim = rng.choice([1, 1, 1, 2, 3])
    r = rng.choice([2, 4, 9, 30])
    X = [[rng.randint(-r, r) for _ in range(dim)] for _ in range(n)]
    if rng.random() < 0.4:
        X = add_copies(rng, X, min(nmax, 34))
        n = len(X)
    if dim == 1:
        s = 2 * rng.choice([-30, -30, -25, -11, -1, 1, 9, 26, 30, 30])
    else:
        s = rng.choice([-60, -59, -33, -2, -1, 1, 2, 31, 59, 60])
    G = [[sum(a * b for a, b in zip(p, q)) for q in X] for p in X]
    D2 = [[sum((a - b) ** 2 for a, b in zip(p, q)) for q in X] for p in X]
    c = make_case(rng, "kernel_scaled", "K", n, X, D2, "kernel%dd*2^%s" % (dim, "tiny" if s < 0 else "huge"))
    c["kscale"] = s
    c["Ghex"] = [[(float(v) * 2.0 ** s).hex() for v in row] for row in G]
    return c


def is_metric(D):
    n = len(D)
    for i in range(n):
        if D[i][i] != 0:
            return False
        for j in range(n):
            if D[i][j] != D[j][i] or D[i][j] < 0:
                return False
    for m in range(n):
        Dm = D[m]
        for i in range(n):
            dim = D[i][m]
            Di = D[i]
            for j in range(n):
                if Di[j] > dim + Dm[j]:
                    return False
    return True


# ----------------------------------------------------------------------------- running the implementation
def case_text(c, cmds):
    n = c["N"]
    if c["kind"] == "D":
        t = ["CASE %d D" % n] + [" ".join(str(v) for v in row) for row in (c.get("Mhex") or c["M"])]
    elif c.get("Ghex"):
        t = ["CASE %d KM" % n] + [" ".join(row) for row in c["Ghex"]]
    else:
        dim = len(c["X"][0]) if c["X"] else 0
        t = ["CASE %d K %d" % (n, dim)] + [" ".join(str(v) for v in row) for row in c["X"]]
    if c.get("ids"):
        i = c["ids"]
        t.append("IDS %d %d %s" % (i["pf"], i["pb"], " ".join(str(v) for v in i["ids"])))
    return "\n".join(t + cmds + ["END"]) + "\n"


def add_ids(rng, c):
    """non-identity index range: the iterators run over a window [pf, pf+N) of a longer vector whose entries are
    distinct arbitrary ids (offset and permuted); the matrix stays positional, so nothing else changes: neighbour
    indices returned by the library must be POSITIONS in [begin,end), never ids"""
    n = c["N"]
    base = rng.choice([0, 1, 5, 1000, -50, 10 ** 6, -(10 ** 6)])
    span = n + rng.choice([0, 0, 3, n, 8 * n])
    ids = rng.sample(range(base, base + span), n)
    if rng.random() < 0.3:
        ids.sort(reverse=rng.random() < 0.5)
    c["ids"] = {"pf": rng.choice([0, 0, 1, 3]), "pb": rng.choice([0, 0, 1, 2]), "ids": ids}
    return c


def commands_for(c, structural=True):
    cmds = []
    n = c["N"]
    for k in c["ks"]:
        for m in METHODS:
            cmds.append("F %s %d" % (m, k))
        if structural and c.get("structural", True):
            cmds.append("Q %d" % (k + 1))
            cmds.append("T %d %d" % (k + 1, c["tseed"] + k))
            for row in sorted({0, n - 1, (c["tseed"] + k) % n}):
                cmds.append("O %d %d" % (k, row))
    if structural and c.get("structural", True) and c["ks"]:
        cmds.append("D")
    if c.get("conn_k"):
        for m in METHODS:
            cmds.append("G %s %d" % (m, c["conn_k"]))
    if c.get("deque_k"):
        for m in METHODS:
            cmds.append("E %s %d" % (m, c["deque_k"]))
    if c.get("wrap_k"):
        for m in ("V", "C"):
            cmds.append("W %s %d" % (m, c["wrap_k"]))
    return cmds


def ints(tokens):
    out = []
    for t in tokens:
        out.append(int(t))       # ValueError on garbage: caught by the caller
    return out


def hexf(tok):
    try:
        return float.fromhex(tok)
    except ValueError:
        return float("nan")


def parse_case_output(lines):
    """-> dict: F[(m,k)] = rows (dict q -> list) ; O[(k,row)] = list ; T[k] = {"nodes":[...], "rows":{q:[..]}} ;
    Q[k] = {q: cands} ; CT = {"nodes": [...]} ; bad = [messages]"""
    res = {"F": {}, "G": {}, "E": {}, "O": {}, "T": {}, "Q": {}, "CT": None, "bad": [], "exc": [], "W": {}, "P": None}
    i = 0
    n = len(lines)
    while i < n:
        w = lines[i].split()
        i += 1
        try:
            if not w:
                continue
            if w[0] in ("F", "G", "E"):
                m, k, nrows = w[1], int(w[2]), int(w[3])
                rows = []
                for _ in range(nrows):
                    r = lines[i].split()
                    i += 1
                    if len(r) < 3 or r[0] != "r" or r[2] != ":":
                        raise ValueError("row line " + " ".join(r)[:60])
                    rows.append((int(r[1]), ints(r[3:])))
                res[w[0]][(m, k)] = rows
            elif w[0] == "W":
                m, k, logged, nr, nraw = w[1], int(w[2]), int(w[3]), int(w[4]), int(w[5])
                if not (0 <= nr <= n and 0 <= nraw <= n):
                    raise ValueError("W header " + " ".join(w)[:60])
                rows, raw = [], []
                for tag, cnt, dst in (("r", nr, rows), ("w", nraw, raw)):
                    for _ in range(cnt):
                        r = lines[i].split()
                        i += 1
                        if len(r) < 3 or r[0] != tag or r[2] != ":":
                            raise ValueError("W row line " + " ".join(r)[:60])
                        dst.append((int(r[1]), ints(r[3:])))
                res["W"][(m, k)] = {"logged": logged, "rows": rows, "raw": raw}
            elif w[0] == "P":
                nn = int(w[1])
                tabl = []
                for _ in range(nn):
                    r = lines[i].split()
                    i += 1
                    if not r or r[0] != "p" or len(r) != nn + 1:
                        raise ValueError("P row line")
                    tabl.append([hexf(x) for x in r[1:]])
                res["P"] = tabl
            elif w[0] == "O":
                if w[3] == "R":
                    res["O"][(int(w[1]), int(w[2]))] = ints(w[5:])
            elif w[0] == "T":
                k, nn = int(w[1]), int(w[2])
                i += 1  # the P line
                nodes = []
                for _ in range(nn):
                    r = lines[i].split()
                    i += 1
                    if r[0] != "n" or len(r) != 5:
                        raise ValueError("node line")
                    nodes.append((int(r[1]), float.fromhex(r[2]), int(r[3]), int(r[4])))
                rows = {}
                while i < n and lines[i].startswith("s "):
                    r = lines[i].split()
                    i += 1
                    rows[int(r[1])] = ints(r[3:])
                res["T"][k] = {"nodes": nodes, "rows": rows}
            elif w[0] == "Q":
                k, nr = int(w[1]), int(w[2])
                rows = []
                for _ in range(nr):
                    r = lines[i].split()
                    i += 1
                    if r[0] != "c" or r[2] != ":":
                        raise ValueError("cand line")
                    rows.append((int(r[1]), ints(r[3:])))
                res["Q"][k] = rows
            elif w[0] == "D":
                nn = int(w[1])
                nodes = []
                for _ in range(nn):
                    nodes.append(lines[i])
                    i += 1
                res["CT"] = nodes
            elif w[0] == "X":
                res["exc"].append(" ".join(w[1:])[:200])
            else:
                raise ValueError("unexpected line " + " ".join(w)[:80])
        except (ValueError, IndexError) as ex:
            res["bad"].append(str(ex)[:200])
    return res


def run_impl(ctx, exe, cases, cmdlists, timeout=150):
    """returns list of dicts {lines, crashed, sanitizer, ended} aligned with cases."""
    results = [None] * len(cases)
    start = 0
    aborts = 0
    while start < len(cases):
        inp = "".join(case_text(c, cm) for c, cm in zip(cases[start:], cmdlists[start:]))
        r = ctx.run(exe, inp, timeout=timeout)
        cur = None
        for line in r.out.splitlines():
            if line.startswith("C "):
                try:
                    cur = start + int(line[2:])
                except ValueError:
                    continue
                if cur >= len(cases):
                    cur = None
                    continue
                results[cur] = {"lines": [], "crashed": False, "sanitizer": None, "ended": False}
            elif cur is None:
                continue
            elif line == "END":
                results[cur]["ended"] = True
            else:
                results[cur]["lines"].append(line)
        if r.rc == 0 and not r.timed_out:
            break
        if cur is None:
            cur = start
            results[cur] = {"lines": [], "crashed": True, "sanitizer": None, "ended": False}
        results[cur]["crashed"] = True
        results[cur]["sanitizer"] = (r.sanitizer or ("timeout" if r.timed_out else "") + r.err[-600:]
                                     or "rc=%d" % r.rc)
        aborts += 1
        if aborts >= 3 and len(cases) > 3:
            # the library aborts / hangs again and again: three concrete cases are enough, do not burn the budget
            for j in range(cur + 1, len(cases)):
                results[j] = {"lines": [], "crashed": True, "sanitizer": "skipped after repeated aborts",
                              "ended": False, "skipped": True}
            break
        start = cur + 1
    for i, x in enumerate(results):
        if x is None:
            results[i] = {"lines": [], "crashed": True, "sanitizer": "no output", "ended": False}
    return results


# ----------------------------------------------------------------------------- running the extracted model / spec
def run_model(ctx, mexe, text, timeout=900):
    r = ctx.run(mexe, text, timeout=timeout)
    if r.rc != 0 or r.timed_out:
        raise vlib.BuildError("extracted model driver failed: rc=%s %s" % (r.rc, r.err[-500:]))
    return r.out.splitlines()


def table_text(T):
    return "CASE %d\n" % len(T) + "".join(" ".join(str(v) for v in row) + "\n" for row in T)


def rows_text(k, rows):
    return "ROWS %d %d\n" % (k, len(rows)) + "".join("%d : %s\n" % (q, " ".join(str(j) for j in r)) for q, r in rows)


def sane_rows(rows, n):
    """rows usable by the driver: indices are small ints"""
    out = []
    for q, r in rows:
        if not (0 <= q < n) or len(r) > 4 * n + 8 or any(abs(j) > 10 ** 6 for j in r):
            return None
        out.append((q, r))
    return out


def spec_rows(ctx, mexe, T, k, rows):
    """[(q, ok, dists)] from the extracted is_knn_b / dists_sorted"""
    out = run_model(ctx, mexe, table_text(T) + rows_text(k, rows) + "END\n")
    res = []
    for line in out:
        if line.startswith("R "):
            head, _, tail = line.partition("|")
            w = head.split()
            res.append((w[1], w[2] == "1", tail.split()))
    if len(res) != len(rows):
        raise vlib.BuildError("spec driver output truncated")
    return res


def dyn_signature(c, method, why=""):
    """signatures of the two cover-tree findings made by this check: F25 distance ratio >= ~1.3^100 together with
    coincident samples; F26 every sample coincident (signed overflow of max_scale - 1)"""
    if method != "C" or c["kind"] != "D":
        return None
    if c.get("Mhex"):
        fv = [float.fromhex(v) for row in c["Mhex"] for v in row]
        pos = [v for v in fv if v > 0]
        if pos and max(pos) / min(pos) >= 1.3 ** 186 and "aborts" in why:
            return "F27-covertree-cover-sets-size"
        return None
    vals = [v for row in c["M"] for v in row if v > 0]
    if not vals:
        return "F26-covertree-all-coincident-overflow" if "signed integer overflow" in why else None
    dup = any(c["M"][i][j] == 0 for i in range(c["N"]) for j in range(i))
    if dup and max(vals) / min(vals) >= SCALE100:
        return "F25-covertree-scale100-duplicates"
    return None


def sub_case(c, idx):
    d = dict(c)
    d["N"] = len(idx)
    if c["kind"] == "D":
        d["M"] = [[c["M"][i][j] for j in idx] for i in idx]
        if c.get("Mhex"):
            d["Mhex"] = [[c["Mhex"][i][j] for j in idx] for i in idx]
    else:
        d["X"] = [c["X"][i] for i in idx]
        if c.get("Ghex"):
            d["Ghex"] = [[c["Ghex"][i][j] for j in idx] for i in idx]
    if c.get("ids"):
        d["ids"] = dict(c["ids"], ids=[c["ids"]["ids"][i] for i in idx])
    return d


def conn_rows_k(rows, k, n):
    """find_neighbors(.., k, check_connectivity = true) may return more than k neighbours per row (2k, 4k, .. clamped
    to N-1): the number it settled on, or None when the rows are not all of one admissible length"""
    lens = {len(r) for _, r in rows}
    if len(lens) != 1:
        return None
    k2 = lens.pop()
    return k2 if k <= k2 <= n - 1 else None


def fails_spec(ctx, exe, mexe, c, method, k, conn=False):
    """does find_neighbors(method, k) violate is_knn_b (or crash) on case c?  -> None | why"""
    if conn == "wrap":
        return fails_wrap(ctx, exe, mexe, c, method, k)
    if not (1 <= k <= c["N"] - 1):
        return None
    tag = "E" if conn == "deque" else "G" if conn else "F"
    r = run_impl(ctx, exe, [c], [["%s %s %d" % (tag, method, k)]], timeout=20 if c["N"] <= 200 else 120)[0]
    cc = ", over std::deque iterators" if conn == "deque" else ", check_connectivity=true" if conn else ""
    if conn == "deque":
        conn = False
    if r["crashed"]:
        return "find_neighbors(%s, k=%d%s) aborts: %s" % (MNAME[method], k, cc, str(r["sanitizer"])[:400])
    p = parse_case_output(r["lines"])
    if p["bad"] or p["exc"]:
        return "find_neighbors(%s, k=%d%s): %s" % (MNAME[method], k, cc, (p["bad"] + p["exc"])[0])
    rows = p[tag].get((method, k))
    if rows is None:
        return "find_neighbors(%s, k=%d) printed no result" % (MNAME[method], k)
    if sorted(q for q, _ in rows) != list(range(c["N"])):
        return "find_neighbors(%s, k=%d) returned %d rows for %d samples" % (MNAME[method], k, len(rows), c["N"])
    if conn:
        k0, k = k, conn_rows_k(rows, k, c["N"])
        if k is None:
            return ("find_neighbors(%s, k=%d, check_connectivity=true) returned rows of lengths %s (admissible: one "
                    "length between k and N-1=%d)" % (MNAME[method], k0, sorted({len(r) for _, r in rows}), c["N"] - 1))
    srows = sane_rows(rows, c["N"])
    if srows is None:
        return "find_neighbors(%s, k=%d) returned out-of-range sample indices" % (MNAME[method], k)
    T, _ = model_table(c)
    for (q, ok, dists), (_, row) in zip(spec_rows(ctx, mexe, T, k, srows), srows):
        if not ok:
            want = sorted(T[int(q)][j] for j in range(c["N"]) if j != int(q))[:k]
            return ("%s%s, k=%d, query %s: returned %s (distances %s) but the k smallest distances to the other "
                    "samples are %s" % (MNAME[method], cc, k, q, row, [T[int(q)][j] if 0 <= j < c["N"] else None
                                                                     for j in row], want))
    return None


_REPORTED = {}


def report_violation(ctx, exe, mexe, c, method, k, why, conn=False):
    """shrink (drop samples) and record; at most two reports per (method, kind of failure)"""
    key = (method, "abort" if "aborts" in why else "spec", dyn_signature(c, method, why), conn)
    _REPORTED[key] = _REPORTED.get(key, 0) + 1
    if _REPORTED[key] > 2:
        return
    idx = list(range(c["N"]))
    if c["N"] <= 80 and "timeout" not in why:      # a hang is reported unshrunk: every probe would cost a timeout
        def still(sub):
            if len(sub) <= k:
                return False
            return fails_spec(ctx, exe, mexe, sub_case(c, sub), method, k, conn) is not None
        try:
            idx = vlib.shrink_list(idx, still, max_steps=150)
        except vlib.BuildError:
            idx = list(range(c["N"]))
    small = sub_case(c, idx)
    why2 = fails_spec(ctx, exe, mexe, small, method, k, conn) or why
    rep = {"gen": c["gen"], "kind": c["kind"], "N": small["N"], "method": method, "k": k}
    if conn == "wrap":
        rep["wrap"] = True
        if c.get("raw_metric"):
            rep["raw_metric"] = True
    elif conn == "deque":
        rep["deque"] = True
    elif conn:
        rep["conn"] = True
    rep["M" if c["kind"] == "D" else "X"] = small["M"] if c["kind"] == "D" else small["X"]
    if small.get("Mhex"):
        rep["Mhex"] = small["Mhex"]
        rep["order_only"] = True
    if small.get("Ghex"):
        rep["Ghex"], rep["kscale"] = small["Ghex"], small["kscale"]
    if small.get("ids"):
        rep["ids"] = small["ids"]
    ctx.violation(rep, why2, signature=dyn_signature(small, method, why2))


# ----------------------------------------------------------------------------- evaluation of a batch
def evaluate(ctx, exe, mexe, cases, stats, structural=True):
    cmdlists = [commands_for(c, structural) for c in cases]
    impl = run_impl(ctx, exe, cases, cmdlists)
    nrows = 0
    for c, cm, r in zip(cases, cmdlists, impl):
        n = c["N"]
        T, exact = model_table(c)
        ds = dscale(c)
        if r.get("skipped"):
            stats["skipped_cases"] = stats.get("skipped_cases", 0) + 1
            continue
        if r["crashed"] or not r["ended"]:
            stats["aborted_cases"] = stats.get("aborted_cases", 0) + 1
            if stats["aborted_cases"] > 3 and ctx.has_violation():
                continue            # enough concrete replays of aborts; do not spend the budget on attribution
            # attribute the abort to one call of find_neighbors if possible
            hit = False
            for k in c["ks"]:
                for m in METHODS:
                    why = fails_spec(ctx, exe, mexe, c, m, k)
                    if why:
                        report_violation(ctx, exe, mexe, c, m, k, why)
                        hit = True
                        break
                if hit:
                    break
            if not hit and c.get("deque_k"):
                for m in METHODS:
                    why = fails_spec(ctx, exe, mexe, c, m, c["deque_k"], "deque")
                    if why:
                        report_violation(ctx, exe, mexe, c, m, c["deque_k"], why, "deque")
                        hit = True
                        break
            if not hit and c.get("conn_k"):
                for m in METHODS:
                    why = fails_spec(ctx, exe, mexe, c, m, c["conn_k"], True)
                    if why:
                        report_violation(ctx, exe, mexe, c, m, c["conn_k"], why, True)
                        hit = True
                        break
            if not hit:
                ctx.mismatch({"gen": c["gen"], "N": n, "kind": c["kind"], "M": c.get("M"), "X": c.get("X"), "ids": c.get("ids"), "kscale": c.get("kscale"),
                              "ks": c["ks"]},
                             "a structural probe (tree dump / candidate dump / oracle probe) aborts although "
                             "find_neighbors does not: " + str(r["sanitizer"])[:300])
            continue
        p = parse_case_output(r["lines"])
        if p["bad"] or p["exc"]:
            hit = False
            for k in c["ks"]:
                for m in METHODS:
                    why = fails_spec(ctx, exe, mexe, c, m, k)
                    if why and not hit:
                        report_violation(ctx, exe, mexe, c, m, k, why)
                        hit = True
            if not hit:
                ctx.mismatch({"gen": c["gen"], "N": n}, "unparsable harness output: " + (p["bad"] + p["exc"])[0])
            continue
        # ---- the dispatcher on a metric: the tree table is exact, so (theorem wrapper_tree_exact_unchanged) the fallback must
        #      not fire, nothing is logged at level warning and the table returned is the tree's own
        for (m, k), w in sorted(p["W"].items()):
            stats["wrap_metric_calls"] = stats.get("wrap_metric_calls", 0) + 1
            short = [q for q, r_ in w["raw"] if len(r_) != k]
            if short:
                cm_ = dict(c, raw_metric=True)
                why = fails_wrap(ctx, exe, mexe, cm_, m, k)
                if why:
                    report_violation(ctx, exe, mexe, cm_, m, k, why, "wrap")
            if w["logged"] or short or w["rows"] != w["raw"]:
                ctx.mismatch({"gen": c["gen"], "N": n, "kind": c["kind"], "M": c.get("M"), "X": c.get("X"), "ids": c.get("ids"),
                              "kscale": c.get("kscale"), "method": m, "k": k},
                             "dispatcher on an exact metric, %s k=%d: %d warnings logged, raw tree rows of the wrong size: %s, "
                             "returned table %s the raw tree table" % (MNAME[m], k, w["logged"], short[:5],
                                                                       "equals" if w["rows"] == w["raw"] else "differs from"))
        # ---- one model-driver conversation for the whole case
        text = [table_text(T)]
        plan = []          # what each answer block means
        if n <= 40 and exact:
            text.append("METRIC\n")
            plan.append(("M",))
        for k in c["ks"]:
            for m in METHODS:
                rows = p["F"].get((m, k))
                if rows is None or sorted(q for q, _ in rows) != list(range(n)) or sane_rows(rows, n) is None:
                    why = fails_spec(ctx, exe, mexe, c, m, k) or "find_neighbors(%s,k=%d) output malformed" % (m, k)
                    report_violation(ctx, exe, mexe, c, m, k, why)
                    continue
                text.append(rows_text(k, rows))
                plan.append(("R", m, k, rows))
            if k == c.get("deque_k"):
                for m in METHODS:
                    rows = p["E"].get((m, k))
                    if rows is None or sorted(q for q, _ in rows) != list(range(n)) or sane_rows(rows, n) is None:
                        why = fails_spec(ctx, exe, mexe, c, m, k, "deque") or \
                            "find_neighbors(%s,k=%d) over std::deque iterators: output malformed" % (m, k)
                        report_violation(ctx, exe, mexe, c, m, k, why, "deque")
                        continue
                    text.append(rows_text(k, rows))
                    plan.append(("E", m, k, rows))
            if k == c.get("conn_k"):
                for m in METHODS:
                    rows = p["G"].get((m, k))
                    k2 = conn_rows_k(rows, k, n) if rows is not None and sane_rows(rows, n) is not None and \
                        sorted(q for q, _ in rows) == list(range(n)) else None
                    if k2 is None:
                        why = fails_spec(ctx, exe, mexe, c, m, k, True) or \
                            "find_neighbors(%s,k=%d,check_connectivity=true) output malformed" % (m, k)
                        report_violation(ctx, exe, mexe, c, m, k, why, True)
                        continue
                    text.append(rows_text(k2, rows))
                    plan.append(("G", m, k, rows))
            for (kk, row), sel in p["O"].items():
                if kk == k and sel and all(0 <= j < n for j in sel):
                    text.append("NTH %d %d : %s\n" % (k, row, " ".join(str(j) for j in sel)))
                    plan.append(("N", k, row))
            tq = p["T"].get(k + 1)
            if tq is not None and exact:
                nodes = [(it, th / ds, a, b) for it, th, a, b in tq["nodes"]]
                if all(th == int(th) and abs(th) < 2 ** 62 for _, th, _, _ in nodes):
                    text.append("TREE %d %d\n" % (k, len(nodes)) +
                                "".join("n %d %d %d %d\n" % (it, int(th), a, b) for it, th, a, b in nodes))
                    plan.append(("T", k, tq))
                else:
                    ctx.mismatch({"gen": c["gen"], "N": n, "k": k}, "VP-tree threshold is not the (integer) distance "
                                 "between two samples: %r" % [th for _, th, _, _ in nodes if th != int(th)][:3])
            cq = p["Q"].get(k + 1)
            if cq is not None and sane_rows(cq, n) is not None:
                text.append("CAND %d %d\n" % (k, len(cq)) +
                            "".join("%d : %s\n" % (q, " ".join(str(j) for j in cs)) for q, cs in cq))
                plan.append(("K", k, cq))
        if p["CT"] is not None and exact:
            ctl = []
            try:
                for l in p["CT"]:
                    w = l.split()
                    md, pd = float.fromhex(w[2]) / ds, float.fromhex(w[3]) / ds
                    if w[0] != "t" or md != int(md) or pd != int(pd) or int(w[5]) != int(w[6]) or int(w[4]) < 0:
                        raise ValueError(l)
                    ctl.append("t %d %d %d %d %d\n" % (int(w[1]), int(md), int(pd), int(w[4]), int(w[5])))
            except (ValueError, IndexError, OverflowError) as ex:
                ctl = None
                ctx.mismatch({"gen": c["gen"], "N": n, "kind": c["kind"], "M": c.get("M"), "X": c.get("X"), "ids": c.get("ids"), "kscale": c.get("kscale")},
                             "cover-tree dump has a node whose max_dist / parent_dist is not an integer distance, "
                             "a negative scale or num_children != children.size(): %s" % str(ex)[:120])
            if ctl is not None and n <= 200 and ds == 1.0:
                text.append("BUILD\n")
                plan.append(("BT", ctl))
            if ctl is not None:
                for kk in c["ks"]:
                    text.append("CT %d %d\n" % (kk + 1, len(ctl)) + "".join(ctl))
                    plan.append(("CT", kk, p["Q"].get(kk + 1)))
        text.append("END\n")
        out = run_model(ctx, mexe, "".join(text))
        pos = 0
        implF = {}

        def take(prefix, count):
            nonlocal pos
            got = out[pos:pos + count]
            pos += count
            if len(got) != count or any(not g.startswith(prefix) for g in got):
                raise vlib.BuildError("model driver protocol error near %r" % (got[:1],))
            return got
        for item in plan:
            if item[0] == "M":
                if take("M ", 1)[0] != "M 1":
                    raise vlib.BuildError("generator produced a non-metric table (%s)" % c["gen"])
            elif item[0] == "R":
                _, m, k, rows = item
                got = take("R ", len(rows))
                bad = None
                d = {}
                for g, (q, row) in zip(got, rows):
                    head, _, tail = g.partition("|")
                    w = head.split()
                    d[q] = tail.split()
                    nrows += 1
                    if w[2] != "1" and bad is None:
                        bad = q
                implF[(m, k)] = d
                stats["rows_" + m] = stats.get("rows_" + m, 0) + len(rows)
                if bad is not None:
                    why = fails_spec(ctx, exe, mexe, c, m, k) or (
                        "%s k=%d query %d: returned row %s is not a set of k nearest other samples"
                        % (MNAME[m], k, bad, dict(rows)[bad]))
                    report_violation(ctx, exe, mexe, c, m, k, why)
            elif item[0] == "E":
                _, m, k, rows = item
                got = take("R ", len(rows))
                nrows += len(rows)
                stats["rows_deque"] = stats.get("rows_deque", 0) + len(rows)
                if any(g.partition("|")[0].split()[2] != "1" for g in got):
                    why = fails_spec(ctx, exe, mexe, c, m, k, "deque") or (
                        "%s k=%d over std::deque iterators (a non-contiguous random-access range): a returned row is not "
                        "a set of k nearest other samples" % (MNAME[m], k))
                    report_violation(ctx, exe, mexe, c, m, k, why, "deque")
            elif item[0] == "G":
                _, m, k, rows = item
                got = take("R ", len(rows))
                nrows += len(rows)
                stats["rows_conn"] = stats.get("rows_conn", 0) + len(rows)
                if any(g.partition("|")[0].split()[2] != "1" for g in got):
                    why = fails_spec(ctx, exe, mexe, c, m, k, True) or (
                        "%s k=%d check_connectivity=true: a returned row is not a set of nearest other samples"
                        % (MNAME[m], k))
                    report_violation(ctx, exe, mexe, c, m, k, why, True)
            elif item[0] == "N":
                _, k, row = item
                g = take("N ", 1)[0]
                parts = [x.strip() for x in g[2:].split("|")]
                stats["nth_calls"] = stats.get("nth_calls", 0) + 1
                if parts[0] != "1":
                    ctx.mismatch({"gen": c["gen"], "N": n, "k": k, "row": row},
                                 "observed std::nth_element result violates the oracle contract nth_ok")
                elif ("B", k) in implF and implF[("B", k)].get(row) != parts[2].split():
                    ctx.mismatch({"gen": c["gen"], "N": n, "k": k, "row": row, "M": c.get("M"), "X": c.get("X"), "ids": c.get("ids"), "kscale": c.get("kscale")},
                                 "brute force row %d k=%d: model distances %s, implementation %s"
                                 % (row, k, parts[2], implF[("B", k)].get(row)))
            elif item[0] == "T":
                _, k, tq = item
                g = take("T ", 1)[0].split()
                srows = take("S ", n)
                stats["vp_trees"] = stats.get("vp_trees", 0) + 1
                where = {"gen": c["gen"], "N": n, "k": k, "kind": c["kind"], "M": c.get("M"), "X": c.get("X"), "ids": c.get("ids"), "kscale": c.get("kscale"),
                         "tseed": c["tseed"] + k}
                if g[1] != "1" or g[2] != "1":
                    ctx.mismatch(where, "the real VP-tree violates the invariant the search is proved under "
                                        "(vp_inv_b=%s vp_holds_b=%s)" % (g[1], g[2]))
                    continue
                if len(g) > 4 and g[4] != "1":
                    # not needed by any theorem (vp_inv_b is): recorded, not a verdict
                    stats["vp_shape_differs"] = stats.get("vp_shape_differs", 0) + 1
                    if stats["vp_shape_differs"] == 1:
                        ctx.note("the real VP-tree is no longer built the way Knn_VpTree_Model.build does (inner child "
                                 "size s/2 - 1, threshold = distance to the closest outer item); vp_inv_b still holds")
                for line in srows:
                    parts = [x.strip() for x in line[2:].split("|")]
                    q = int(parts[0])
                    raw = tq["rows"].get(q)
                    if raw is None or any(not (0 <= j < n) for j in raw):
                        ctx.mismatch(where, "VP-tree search(%d) printed %r" % (q, raw))
                        break
                    rawd = [str(T[q][j]) for j in raw]
                    stats["vp_searches"] = stats.get("vp_searches", 0) + 1
                    if rawd != parts[1].split():
                        ctx.mismatch(where, "VP-tree search(query %d, k=%d) on the real tree: model distances %s, "
                                            "implementation %s" % (q, k + 1, parts[1], " ".join(rawd)))
                        break
                    if ("V", k) in implF and implF[("V", k)].get(q) != parts[3].split():
                        ctx.mismatch(where, "VP-tree wrapper row %d k=%d: model distances %s, implementation %s"
                                     % (q, k, parts[3], implF[("V", k)].get(q)))
                        break
            elif item[0] == "K":
                _, k, cq = item
                got = take("K ", len(cq))
                for g, (q, cs) in zip(got, cq):
                    parts = [x.strip() for x in g[2:].split("|")]
                    w = parts[0].split()
                    stats["ct_queries"] = stats.get("ct_queries", 0) + 1
                    if w[2] != "1":
                        stats["ct_not_exact"] = stats.get("ct_not_exact", 0) + 1
                    where = {"gen": c["gen"], "N": n, "k": k, "kind": c["kind"], "M": c.get("M"), "X": c.get("X"), "ids": c.get("ids"), "kscale": c.get("kscale")}
                    if w[1] != "1":
                        ctx.mismatch(where, "cover-tree batch query (k+1=%d) for query %d returned the candidate list "
                                            "%s which is not complete (cand_complete_b false)" % (k + 1, q, cs))
                        break
                    if ("C", k) in implF and implF[("C", k)].get(q) != parts[2].split():
                        ctx.mismatch(where, "cover-tree wrapper row %d k=%d: model distances %s, implementation %s"
                                     % (q, k, parts[2], implF[("C", k)].get(q)))
                        break
            elif item[0] == "BT":
                _, ctl = item
                g = take("BT ", 1)[0].split()
                mt = take("bt ", int(g[1]))
                stats["ct_builds"] = stats.get("ct_builds", 0) + 1
                real = [l.split()[1:] for l in ctl]
                model = [l.split()[1:] for l in mt]
                if real != model:
                    # no theorem depends on the construction model (the theorems need ct_inv_b of the REAL tree, which is
                    # checked): a different but valid construction is recorded, it is not a verdict
                    stats["ct_build_differs"] = stats.get("ct_build_differs", 0) + 1
                    if stats["ct_build_differs"] == 1:
                        j = next((i for i, (a, b) in enumerate(zip(real, model)) if a != b), min(len(real), len(model)))
                        ctx.note("cover-tree construction: CoverTree_Build_Model.batch_create no longer builds the tree the "
                                 "library builds (case %s N=%d, first difference at preorder node %d: real (sample max_dist "
                                 "parent_dist scale children) %s, model %s)"
                                 % (c["gen"], n, j, real[j] if j < len(real) else None,
                                    model[j] if j < len(model) else None))
            elif item[0] == "CT":
                _, kk, cq = item
                g = take("CT ", 1)[0].split()
                stats["ct_trees"] = stats.get("ct_trees", 0) + 1
                where = {"gen": c["gen"], "N": n, "k": kk, "kind": c["kind"], "M": c.get("M"), "X": c.get("X"), "ids": c.get("ids"), "kscale": c.get("kscale")}
                if g[1] != "1":
                    ctx.mismatch(where, "the real cover tree violates the invariant ct_inv_b the batch query is "
                                        "proved under (%s)" % " ".join(g[2:]))
                    continue
                mrows = take("CQ ", int(g[2]))
                if "audit=0" in g:
                    # ct_query_audit_true proves the flag true on every tree satisfying ct_inv_b with distinct leaves
                    # (both were just checked): a false flag means the extracted model and the theorem disagree
                    stats["ct_audit_false"] = stats.get("ct_audit_false", 0) + 1
                    ctx.mismatch(where, "audit flag false on a tree that satisfies ct_inv_b and ct_holds_b: "
                                        "contradicts theorem ct_query_audit_true (model / extraction fault)")
                if cq is not None:
                    real = {q: sorted(cs) for q, cs in cq}
                    for line in mrows:
                        w = line.split()
                        q = int(w[1])
                        mc = sorted(int(x) for x in w[3:])
                        stats["ct_model_queries"] = stats.get("ct_model_queries", 0) + 1
                        if real.get(q) != mc:
                            ctx.mismatch(where, "cover-tree batch query (k+1=%d), query %d: model of the query on the "
                                                "real tree gives candidates %s, implementation %s"
                                         % (kk + 1, q, mc, real.get(q)))
                            break
    return nrows


def evaluate_fast(ctx, exe, mexe, cases, stats):
    """spec only, batched: one harness process and one model-driver process for all the cases; the harness output of a
    case is handed to the driver as it is (command F of the driver).  Any case that is not perfectly clean (abort,
    garbage, a row failing is_knn_b) goes through the ordinary path, which attributes, shrinks and records."""
    cmdlists = [["F %s %d" % (m, k) for k in c["ks"] for m in ("V", "C")] for c in cases]
    impl = run_impl(ctx, exe, cases, cmdlists)
    text, sent = [], []
    redo = []
    for c, cm, r in zip(cases, cmdlists, impl):
        if r.get("skipped"):
            stats["skipped_cases"] = stats.get("skipped_cases", 0) + 1
            continue
        if r["crashed"] or not r["ended"] or any(l.startswith("X ") for l in r["lines"]):
            redo.append(c)
            continue
        text.append(table_text(c["M"]))
        text.append("\n".join(r["lines"]))
        text.append("\nEND\n")
        sent.append((c, len(cm)))
    nrows = 0
    if sent:
        out = run_model(ctx, mexe, "".join(text))
        pos = 0
        for c, nf in sent:
            ok, seen = True, 0
            while pos < len(out) and out[pos] != "END":
                w = out[pos].split()
                pos += 1
                if len(w) == 5 and w[0] == "FQ" and w[3] == "0" and w[4] == str(c["N"]):
                    seen += 1
                    nrows += c["N"]
                else:
                    ok = False
            pos += 1
            if not ok or seen != nf:
                redo.append(c)
    stats["scatter_rows"] = stats.get("scatter_rows", 0) + nrows
    if redo:
        nrows += evaluate(ctx, exe, mexe, redo[:40], stats, structural=False)
    return nrows


# ----------------------------------------------------------------------------- the dispatcher and its fallback (wave 4)
NONMETRIC = ["nm_sym", "nm_sym", "nm_sq", "nm_pert", "nm_pert", "nm_asym", "nm_koff", "nm_koff"]


def gen_nonmetric(rng, which=None, nmax=30):
    """callbacks that are NOT metrics (legal dissimilarities all the same): the tree searches promise nothing on them, the
    dispatcher find_neighbors does - whenever a tree comes back with a row of the wrong size the exhaustive search, which
    is exact for ANY callback (theorem brute_exact), must replace the WHOLE table (theorem wrapper_fired_exact).
      nm_sym   arbitrary symmetric integer tables, zero diagonal
      nm_sq    squared Euclidean distances of integer points (no triangle inequality)
      nm_pert  an L1 lattice metric with a few entries moved (nearly a metric: most rows of the trees are right, a few are
               short, a few are complete but wrong - all three kinds in one table)
      nm_asym  asymmetric integer tables
      nm_koff  kernel-induced distance sqrt(k(x,x) - 2k(x,y) + k(y,y)) of a linear kernel on features with a large
               common offset (2e6 .. 1e7, spread 1, 3-10 features): noisy through cancellation; the Gram table is served
               as hex floats, the distance table is taken from the library's own KernelDistance (command P)"""
    g = which or rng.choice(NONMETRIC)
    c = {"gen": g, "tseed": rng.randrange(1 << 30), "structural": False, "nonmetric": True}
    if g == "nm_koff":
        n = rng.randint(8, max(8, min(2 * nmax, 60)))
        dim = rng.choice([3, 5, 10, 10])
        off = rng.choice([2e6, 5e6, 7e6, 7e6, 1e7])
        X = [[off + rng.random() for _ in range(dim)] for _ in range(n)]
        G = [[math.fsum(a * b for a, b in zip(p, q)) for q in X] for p in X]
        c.update(kind="K", N=n, X=X, Ghex=[[v.hex() for v in row] for row in G], kscale=0)
    else:
        n = rng.randint(4, nmax)
        if g == "nm_sym":
            r = rng.choice([3, 8, 30, 1000])
            lo = 0 if rng.random() < 0.2 else 1
            M = [[0] * n for _ in range(n)]
            for i in range(n):
                for j in range(i):
                    M[i][j] = M[j][i] = rng.randint(lo, r)
        elif g == "nm_asym":
            r = rng.choice([3, 8, 30])
            M = [[0 if i == j else rng.randint(1, r) for j in range(n)] for i in range(n)]
        elif g == "nm_sq":
            dim = rng.choice([1, 2, 3])
            r = rng.choice([5, 20, 100])
            P = [[rng.randint(0, r) for _ in range(dim)] for _ in range(n)]
            M = [[sum((a - b) ** 2 for a, b in zip(p, q)) for q in P] for p in P]
        else:
            dim = rng.choice([1, 2])
            r = rng.choice([8, 20, 60])
            P = [[rng.randint(0, r) for _ in range(dim)] for _ in range(n)]
            M = l1(P)
            for _ in range(rng.randint(1, max(1, n // 2))):
                i, j = rng.randrange(n), rng.randrange(n)
                if i != j:
                    M[i][j] = M[j][i] = max(0, M[i][j] + rng.choice([-1, 1]) * rng.randint(1, max(1, r // 2)))
        c.update(kind="D", N=n, M=M)
    n = c["N"]
    c["ks"] = sorted({1, 2, min(5, n - 1), n - 2, n - 1, rng.randint(1, n - 1)} - {0})
    return c


def wrap_table(c, p):
    """the table of the callback's values as the library sees them (integers for the extracted spec: the rank of every
    value - is_knn only compares) or None when it holds a NaN / infinity (sqrt of a negative radicand: no order)"""
    if c["kind"] == "D" and not c.get("Mhex"):
        return c["M"]
    F = p.get("P")
    n = c["N"]
    if F is None or len(F) != n or any(len(r) != n for r in F):
        return None
    vals = sorted({v for row in F for v in row if v == v})
    if any(v != v or v in (float("inf"), float("-inf")) for row in F for v in row):
        return None
    rank = {v: i for i, v in enumerate(vals)}
    return [[rank[v] for v in row] for row in F]


def judge_wrap(ctx, mexe, c, T, obs, stats=None):
    """obs: [(method, k, W-observation)] of one case.  -> (violations [(method, k, why)], mismatches [text])
    The extracted find_neighbors_core decides from the RAW tree table whether the fallback must fire; then every row of
    the returned table goes through the extracted is_knn_b on the callback's table as it is (no metric assumption)."""
    n = c["N"]
    text, plan, viol, mism = [table_text(T)], [], [], []
    for m, k, w in obs:
        rows, raw = w["rows"], w["raw"]
        if sorted(q for q, _ in rows) != list(range(n)) or sane_rows(rows, n) is None:
            viol.append((m, k, "find_neighbors(%s, k=%d) returned %d rows for %d samples or out-of-range indices"
                         % (MNAME[m], k, len(rows), n)))
            continue
        if m != "B" and ([q for q, _ in raw] != list(range(n)) or sane_rows(raw, n) is None):
            mism.append("raw %s search (k=%d) returned %d rows for %d samples" % (MNAME[m], k, len(raw), n))
            continue
        text.append("WRAP %s %d %d\n" % (m, k, len(raw)) +
                    "".join("%d : %s\n" % (q, " ".join(str(j) for j in r)) for q, r in raw))
        text.append(rows_text(k, rows))
        plan.append((m, k, w))
    text.append("END\n")
    out = run_model(ctx, mexe, "".join(text))
    pos = 0
    for m, k, w in plan:
        head = out[pos].split() if pos < len(out) else []
        pos += 1
        if len(head) != 5 or head[0] != "W" or head[1] != "1":
            raise vlib.BuildError("model driver protocol error (WRAP): %r" % (head,))
        fired = head[2] == "1"
        pos += int(head[3])
        got = out[pos:pos + n]
        pos += n
        if len(got) != n or any(not g.startswith("R ") for g in got):
            raise vlib.BuildError("model driver protocol error (WRAP rows)")
        rows, raw = w["rows"], w["raw"]
        if stats is not None:
            stats["wrap_calls"] = stats.get("wrap_calls", 0) + 1
            if fired:
                stats["wrap_fired_" + m] = stats.get("wrap_fired_" + m, 0) + 1
        if m == "B" or fired:
            short = next(((q, len(r)) for q, r in raw if len(r) != k), None)
            wrongraw = 0
            for g, (q, row) in zip(got, rows):
                if g.partition("|")[0].split()[2] != "1":
                    want = sorted(T[q][j] for j in range(n) if j != q)[:k]
                    viol.append((m, k, "%s, k=%d on a callback that is not a metric: %s, but the returned row of query %d "
                                 "is %s (callback values %s) and the k smallest values to the other samples are %s"
                                 % (MNAME[m], k, "the exhaustive search needs no metric" if m == "B" else
                                    "the tree search left query %d with %d neighbours, so the exhaustive-search fallback "
                                    "fired and every row must be exact" % (short or (-1, -1)), q, row,
                                    [T[q][j] if 0 <= j < n else None for j in row], want)))
                    break
            if stats is not None and fired:
                stats["wrap_rows_judged"] = stats.get("wrap_rows_judged", 0) + n
                for q, r in raw:
                    if len(r) == k and sorted(T[q][j] for j in r) != sorted(T[q][j] for j in range(n) if j != q)[:k]:
                        wrongraw += 1
                if wrongraw:
                    # a fired call whose raw table ALSO holds complete-but-wrong rows: where a partial fallback shows
                    stats["wrap_fired_with_wrong_complete_rows"] = stats.get("wrap_fired_with_wrong_complete_rows", 0) + 1
        elif rows != raw:
            mism.append("%s k=%d: no row of the raw tree table has a size other than k, yet find_neighbors returned another "
                        "table than the tree search (theorem wrapper_exact: rows = tree_rows)" % (MNAME[m], k))
        if (w["logged"] > 0) != (fired and m != "B"):
            mism.append("%s k=%d: the library logged %d warnings, the model of the dispatcher says fallback fired = %s"
                        % (MNAME[m], k, w["logged"], fired))
    return viol, mism


def fails_wrap(ctx, exe, mexe, c, method, k):
    """find_neighbors(method, k) through the dispatcher on an arbitrary callback table: None | why"""
    n = c["N"]
    if not (1 <= k <= n - 1):
        return None
    cmds = (["P"] if c["kind"] != "D" else []) + ["W %s %d" % (method, k)]
    r = run_impl(ctx, exe, [c], [cmds], timeout=30 if n <= 200 else 120)[0]
    if r["crashed"]:
        return "find_neighbors(%s, k=%d) on a callback that is not a metric aborts: %s" % (
            MNAME[method], k, str(r["sanitizer"])[:400])
    p = parse_case_output(r["lines"])
    if p["bad"] or p["exc"]:
        return "find_neighbors(%s, k=%d) on a callback that is not a metric: %s" % (MNAME[method], k,
                                                                                    (p["bad"] + p["exc"])[0])
    T = wrap_table(c, p)
    w = p["W"].get((method, k))
    if T is None or w is None:
        return None
    if c.get("raw_metric") and method != "B":
        # a METRIC case: the tree search itself (find_neighbors_<tree>_impl, before the dispatcher's fallback can hide it)
        # must return exactly k nearest others for every sample
        raw = w["raw"]
        if [q for q, _ in raw] != list(range(n)) or sane_rows(raw, n) is None:
            return "the raw %s search (k=%d) on an exact metric returned %d rows for %d samples" % (MNAME[method], k, len(raw), n)
        for (q, ok, dists), (_, row) in zip(spec_rows(ctx, mexe, T, k, raw), raw):
            if not ok:
                want = sorted(T[int(q)][j] for j in range(n) if j != int(q))[:k]
                return ("%s, k=%d on an exact metric: the tree search itself (find_neighbors_%s_impl) returns for query %s the row "
                        "%s (distances %s) but the k smallest distances to the other samples are %s; the exhaustive-search "
                        "fallback of find_neighbors %s" % (MNAME[method], k, "vptree" if method == "V" else "covertree", q, row,
                                                           [T[int(q)][j] if 0 <= j < n else None for j in row], want,
                                                           "hides it (fired)" if w["logged"] else "did not fire"))
    viol, _ = judge_wrap(ctx, mexe, c, T, [(method, k, w)])
    return viol[0][2] if viol else None


def evaluate_wrap(ctx, exe, mexe, cases, stats):
    """the dispatcher stream: every case is a NON-metric callback table; B, V, C through command W for every k"""
    cmdlists = [(["P"] if c["kind"] != "D" else []) + ["W %s %d" % (m, k) for k in c["ks"] for m in METHODS]
                for c in cases]
    impl = run_impl(ctx, exe, cases, cmdlists)
    nrows = 0
    for c, r in zip(cases, impl):
        n = c["N"]
        if r.get("skipped"):
            stats["skipped_cases"] = stats.get("skipped_cases", 0) + 1
            continue
        p = None if (r["crashed"] or not r["ended"]) else parse_case_output(r["lines"])
        if p is None or p["bad"] or p["exc"]:
            stats["wrap_aborted_cases"] = stats.get("wrap_aborted_cases", 0) + 1
            if stats["wrap_aborted_cases"] > 3 and ctx.has_violation():
                continue
            hit = False
            for k in c["ks"]:
                for m in METHODS:
                    why = fails_wrap(ctx, exe, mexe, c, m, k)
                    if why:
                        report_violation(ctx, exe, mexe, c, m, k, why, "wrap")
                        hit = True
                        break
                if hit:
                    break
            if not hit:
                ctx.mismatch({"gen": c["gen"], "N": n, "kind": c["kind"], "M": c.get("M"), "Ghex": c.get("Ghex"), "ks": c["ks"]},
                             "the dispatcher probe (W) aborts or prints garbage although no single call does: "
                             + str(r["sanitizer"] or (p and (p["bad"] + p["exc"])[:1]))[:300])
            continue
        T = wrap_table(c, p)
        if T is None:
            stats["wrap_tables_with_nan"] = stats.get("wrap_tables_with_nan", 0) + 1
            continue
        if c["kind"] == "D" and n <= 40 and is_metric(T):
            stats["wrap_tables_metric_after_all"] = stats.get("wrap_tables_metric_after_all", 0) + 1
        obs = [(m, k, p["W"][(m, k)]) for k in c["ks"] for m in METHODS if (m, k) in p["W"]]
        if len(obs) != 3 * len(c["ks"]):
            ctx.mismatch({"gen": c["gen"], "N": n}, "the dispatcher probe printed %d of %d results" % (len(obs), 3 * len(c["ks"])))
        viol, mism = judge_wrap(ctx, mexe, c, T, obs, stats)
        nrows += n * len(obs)
        for m, k, why in viol[:1]:
            why = fails_wrap(ctx, exe, mexe, c, m, k) or why
            report_violation(ctx, exe, mexe, c, m, k, why, "wrap")
        for text in mism[:1]:
            ctx.mismatch({"gen": c["gen"], "N": n, "kind": c["kind"], "M": c.get("M"), "Ghex": c.get("Ghex"), "X": c.get("X")}, text)
    return nrows


# ----------------------------------------------------------------------------- tie statistics (evidence only)
def tie_stats(c, stats):
    T, _ = model_table(c)
    n = c["N"]
    for k in c["ks"]:
        for q in range(n):
            row = sorted(T[q][j] for j in range(n) if j != q)
            if k < len(row) and row[k - 1] == row[k]:
                stats["rows_with_tie_at_k"] = stats.get("rows_with_tie_at_k", 0) + 1
            if sum(1 for x in row if x == 0) >= k + 1:
                stats["rows_with_k+1_coincident"] = stats.get("rows_with_k+1_coincident", 0) + 1
            stats["rows_total"] = stats.get("rows_total", 0) + 1


def float_observation(ctx, exe, rng, stats, runs):
    """OBSERVATION stream (never a verdict unless the callback table is an exact metric): 1-D coordinates spread
    log-uniformly over 23 decades, callback = fl(|x - y|) served as hex floats.  Such a table violates the triangle
    inequality by an ulp on many (collinear, hence tight) triples, which is outside the property's hypothesis; the two
    tree methods then occasionally return a short or farther row (mechanism verified with the exact model on the real
    tree: no rounding inside tapkee is involved).  Counted and labelled in the evidence."""
    from fractions import Fraction
    for _ in range(runs):
        n = rng.randint(8, 24)
        xs = [rng.choice([-1, 1]) * math.exp(rng.uniform(math.log(1e-12), math.log(1e11))) for _ in range(n)]
        F = [[abs(a - b) for b in xs] for a in xs]
        k = rng.choice([rng.randint(1, min(6, n - 1)), rng.randint(1, min(6, n - 1)), n - 2, n - 1])
        vals = sorted({v for row in F for v in row})
        rank = {v: i for i, v in enumerate(vals)}
        c = {"gen": "float-line-23-decades", "kind": "D", "N": n, "order_only": True, "structural": False,
             "M": [[rank[v] for v in row] for row in F], "Mhex": [[v.hex() for v in row] for row in F], "ks": [k]}
        r = run_impl(ctx, exe, [c], [["F %s %d" % (m, k) for m in METHODS]], timeout=60)[0]
        stats["float_runs"] = stats.get("float_runs", 0) + 1
        den = max(Fraction(v).denominator for v in vals)
        I = [[int(Fraction(v) * den) for v in row] for row in F]
        metric = all(I[i][l] <= I[i][j] + I[j][l] for i in range(n) for j in range(n) for l in range(n))
        if not metric:
            stats["float_tables_not_metric"] = stats.get("float_tables_not_metric", 0) + 1
        if r["crashed"] or not r["ended"]:
            if metric:
                ctx.violation(dict(c, method="C", k=k), "abort on an exact-metric floating-point table: "
                              + str(r["sanitizer"])[:300])
            else:
                stats["float_aborts"] = stats.get("float_aborts", 0) + 1
            if stats.get("float_aborts", 0) >= 3:
                break
            continue
        p = parse_case_output(r["lines"])
        for m in METHODS:
            rows = dict(p["F"].get((m, k)) or [])
            bad = 0
            for q in range(n):
                row = rows.get(q)
                want = sorted(F[q][j] for j in range(n) if j != q)[:k]
                if row is None or q in row or len(set(row)) != len(row) or \
                        any(not (0 <= j < n) for j in row) or sorted(F[q][j] for j in row) != want:
                    bad += 1
            if bad:
                stats["float_bad_rows_" + m] = stats.get("float_bad_rows_" + m, 0) + bad
                if metric or m == "B":
                    # brute force needs no metric; the tree methods are only judged on exact-metric tables
                    ctx.violation({"gen": c["gen"], "kind": "D", "N": n, "method": m, "k": k, "M": c["M"],
                                   "Mhex": c["Mhex"], "order_only": True},
                                  "%s returns a row that is not the k nearest on a floating-point table%s"
                                  % (MNAME[m], " that is an exact metric" if metric else ""))


def boundary_large(ctx, exe, c, stats):
    """k = N-2 and k = N-1 on the large thorough cases (N = 400, 1000, 2000), where the extracted is_knn_b (quadratic in
    k per row) is too slow: a row is judged here by comparing its sorted distances with the k smallest distances to the others, plus
    distinctness / range / query-not-in-row.  Supplementary to the extracted judge, used only for these two k."""
    n = c["N"]
    T, _ = model_table(c)
    rows_judged = 0
    for k in (n - 2, n - 1):
        # the cover tree at k+1 = N costs O(N^3) (update() shifts the whole k-vector): above N = 1000 only k = N-2
        methods = [m for m in METHODS if not (m == "C" and n > 1000 and k == n - 1)]
        r = run_impl(ctx, exe, [c], [["F %s %d" % (m, k) for m in methods]], timeout=600)[0]
        if r["crashed"] or not r["ended"]:
            ctx.violation({"gen": c["gen"], "kind": c["kind"], "N": n, "k": k, "M": c.get("M"), "ids": c.get("ids")},
                          "find_neighbors aborts at k=%d on N=%d: %s" % (k, n, str(r["sanitizer"])[:300]))
            continue
        p = parse_case_output(r["lines"])
        for m in methods:
            rows = dict(p["F"].get((m, k)) or [])
            for q in range(n):
                row = rows.get(q)
                want = sorted(T[q][j] for j in range(n) if j != q)[:k]
                rows_judged += 1
                if row is None or q in row or len(set(row)) != len(row) or any(not (0 <= j < n) for j in row) \
                        or sorted(T[q][j] for j in row) != want:
                    ctx.violation({"gen": c["gen"], "kind": c["kind"], "N": n, "method": m, "k": k, "M": c.get("M"),
                                   "ids": c.get("ids")},
                                  "%s, k=%d (N=%d), query %d: the returned row is not a set of k nearest other samples"
                                  % (MNAME[m], k, n, q))
                    break
    stats["rows_boundary_large"] = stats.get("rows_boundary_large", 0) + rows_judged
    return rows_judged


def corpus_case(cj):
    c = {"gen": "corpus:" + cj.get("gen", "?"), "kind": cj["kind"], "N": cj["N"], "tseed": cj.get("tseed", 7),
         "structural": True}
    if cj["kind"] == "D":
        c["M"] = cj["M"]
        if cj.get("Mhex"):
            c["Mhex"], c["order_only"], c["structural"] = cj["Mhex"], True, False
    else:
        c["X"] = cj["X"]
        if cj.get("Ghex"):
            c["Ghex"], c["kscale"] = cj["Ghex"], cj.get("kscale", 0)
    if cj.get("ids"):
        c["ids"] = cj["ids"]
    n = c["N"]
    ks = cj.get("ks") or ([cj["k"]] if "k" in cj else [])
    c["ks"] = sorted({k for k in ks if 1 <= k <= n - 1})
    return c


def search_phase(ctx, exe, mexe, rng, budget, stats, hist):
    """spec only (find_neighbors + is_knn_b) on many small tie-heavy cases"""
    cases = []
    for _ in range(budget):
        c = gen_case(rng, rng.choice([6, 9, 12, 16, 30]))
        c["structural"] = False
        if c["ks"]:
            cases.append(c)
            hist["search:" + c["gen"]] = hist.get("search:" + c["gen"], 0) + 1
    n = 0
    # the dispatcher on callbacks that are not metrics first (cheap, and the only stream that sees the fallback)
    wcases = [gen_nonmetric(rng) for _ in range(max(100, budget // 3))]
    for c in wcases:
        hist["search:" + c["gen"]] = hist.get("search:" + c["gen"], 0) + 1
    for i in range(0, len(wcases), 100):
        n += evaluate_wrap(ctx, exe, mexe, wcases[i:i + 100], stats)
        if ctx.has_violation():
            return n, cases
    for i in range(0, len(cases), 200):
        n += evaluate(ctx, exe, mexe, cases[i:i + 200], stats, structural=False)
        if ctx.has_violation():
            break
    return n, cases


def translate_shape(ctx):
    """T: translate/t_knn_wrapper.py reads the shape of the dispatcher find_neighbors (clamp, dispatch, the fallback block)
    from THIS tree; it must be the committed table coq/gen/KnnWrapper.v, which Properties_C02.fn_shape_src_is_model proves
    equal to the shape Knn_Wrapper_Model.find_neighbors_core transcribes.  (Compared as text, the shared coq/gen is not
    rewritten: another run of this check against another tree may be using it.)"""
    import importlib
    import os
    import sys
    sys.path.insert(0, os.path.join(ctx.verif, "translate"))
    try:
        t = importlib.import_module("t_knn_wrapper")
        text = t.emit(t.parse(ctx.repo))
        committed = open(os.path.join(ctx.verif, "coq", "gen", "KnnWrapper.v")).read()
        if text != committed:
            a, b = text.splitlines(), committed.splitlines()
            d = next((i for i, (x, y) in enumerate(zip(a, b)) if x != y), min(len(a), len(b)))
            ctx.unshown("translator t_knn_wrapper: the shape of find_neighbors (neighbors.hpp) is no longer the one the model "
                        "of the dispatcher transcribes; first difference: source %r, model %r"
                        % (a[d].strip()[:160] if d < len(a) else None, b[d].strip()[:160] if d < len(b) else None))
        bad = t.self_test(ctx.repo) if text == committed else []
        if bad:
            ctx.unshown("translator t_knn_wrapper self-test: seeded edits not detected: %s" % bad)
        ctx.note("t_knn_wrapper: table %s" % ("unchanged" if text == committed else "CHANGED"))
    except OSError as ex:
        ctx.unshown("translator t_knn_wrapper: cannot read the source: %s" % ex)
    except Exception as ex:      # TranslateError
        ctx.unshown("translator t_knn_wrapper: find_neighbors (neighbors.hpp) is no longer understood (%s): %s"
                    % (type(ex).__name__, str(ex)[:300]))


def run(ctx):
    rng = ctx.rng
    translate_shape(ctx)
    ctx.coq()
    exe = ctx.cpp("harness/c02.cpp")
    mexe = ctx.extract()
    stats, hist = {}, {}
    cases = []
    wcorpus = []
    import os
    for name, cj in ([] if os.environ.get("C02_NO_CORPUS") else ctx.corpus()):   # developer switch: generators only
        try:
            c = corpus_case(cj)
        except (KeyError, TypeError) as ex:
            ctx.note("corpus file %s unusable: %s" % (name, ex))
            continue
        if cj.get("wrap"):
            # a witness of the dispatcher stream: a callback that is NOT a metric, judged by evaluate_wrap only
            c.update(nonmetric=True, structural=False)
            if c["ks"]:
                wcorpus.append(c)
            continue
        if c["ks"]:
            cases.append(c)
    quick = ctx.quick
    ngen = 700 if quick else 4500
    nmax = 60 if quick else 120
    # exhaustive tiny part: every multiset of <= 5 points on {0,1,2} (line with multiplicities), all k
    tiny = []
    for n in (2, 3, 4) if quick else (2, 3, 4, 5, 6):
        def rec(prefix):
            if len(prefix) == n:
                tiny.append(list(prefix))
                return
            for v in range(prefix[-1] if prefix else 0, 3):
                rec(prefix + [v])
        rec([])
    for pts in tiny:
        P = [[v] for v in pts]
        cases.append(make_case(rng, "tiny", "D", len(P), None, l1(P), "tiny-line-multiset", full_ks=True))
    for _ in range(ngen):
        big = rng.random() < 0.15
        cases.append(gen_case(rng, nmax if big else rng.choice([5, 8, 12, 16, 24, 36])))
    for _ in range(25 if quick else 300):
        cases.append(gen_ultrawide(rng, 10))
    # scatter stream: small random point sets on coarse 1-D / 2-D integer lattices, every k, find_neighbors +
    # is_knn_b only (the geometry where a too small pruning radius of the cover tree shows, about 1 case in 8000)
    for _ in range(8000 if quick else 50000):
        n = rng.randint(4, 9)
        r = rng.choice([8, 12, 20, 40])
        if rng.random() < 0.5:
            P = [[rng.randint(0, r)] for _ in range(n)]
        else:
            P = [[rng.randint(0, r // 2), rng.randint(0, r // 2)] for _ in range(n)]
        c = make_case(rng, "scatter", "D", n, None, l1(P), "scatter", full_ks=True, structural=False)
        cases.append(c)
    for _ in range(1500 if quick else 5000):
        cases.append(gen_copy_radius(rng))
    if not quick:
        for n in (400, 1000, 2000):
            side = int(math.isqrt(n))
            pts = [[i, j] for i in range(side) for j in range(n // side)]
            rng.shuffle(pts)
            c = make_case(rng, "grid", "D", len(pts), None, l1(pts), "grid2d-large")
            c["ks"] = [1, 5, 20]
            c["structural"] = n <= 400
            cases.append(c)
            pts = [[rng.randint(0, n // 3)] for _ in range(n)]
            c = make_case(rng, "line", "D", n, None, l1(pts), "line-large")
            c["ks"] = [3, 12]
            c["structural"] = n <= 400
            cases.append(c)
    cases = [c for c in cases if c["ks"] and c["N"] >= 2]
    # non-identity index ranges: about a third of the cases of every generator run over a window of a longer vector
    # holding offset / permuted ids (the corpus keeps the identity range its replays were recorded with)
    for c in cases:
        if not c["gen"].startswith("corpus") and rng.random() < 0.34:
            add_ids(rng, c)
            stats["cases_with_id_range"] = stats.get("cases_with_id_range", 0) + 1
    # one probe per non-batched case of find_neighbors(.., check_connectivity = true) (the retry path doubles k and clamps it)
    for c in cases:
        if c["gen"] not in FAST and c["N"] <= 150 and c["ks"]:
            c["conn_k"] = rng.choice(c["ks"][:3])
    # one k per non-batched case over a NON-CONTIGUOUS random-access range (std::deque iterators), all three methods
    for c in cases:
        if c["gen"] not in FAST and c["N"] <= 150 and c["ks"]:
            c["deque_k"] = rng.choice(c["ks"])
    # one probe per non-batched case of the dispatcher with the logger observed (command W), tree methods: on a metric the
    # fallback must not fire
    for c in cases:
        if c["gen"] not in FAST and c["N"] <= 150 and c["ks"] and c.get("structural", True):
            c["wrap_k"] = rng.choice(c["ks"])
    # the dispatcher stream: callbacks that are NOT metrics (see gen_nonmetric), every method, 5-6 k each
    wcases = wcorpus + [gen_nonmetric(rng) for _ in range(260 if quick else 1500)]
    for nbig in ([120] if quick else [120, 200, 200]):
        # the shape of the demo of seeded change C02_4: 10 features, common offset 7e6, spread 1, k = 5
        X = [[7e6 + rng.random() for _ in range(10)] for _ in range(nbig)]
        G = [[math.fsum(a * b for a, b in zip(p_, q_)) for q_ in X] for p_ in X]
        wcases.append({"gen": "nm_koff", "tseed": 1, "structural": False, "nonmetric": True, "kind": "K", "N": nbig, "X": X,
                       "Ghex": [[v.hex() for v in row] for row in G], "kscale": 0, "ks": [5]})
    for c in wcases:
        hist[c["gen"]] = hist.get(c["gen"], 0) + 1
    for c in cases:
        hist[c["gen"]] = hist.get(c["gen"], 0) + 1
        if c["gen"] not in FAST:
            tie_stats(c, stats)
        if c["N"] <= 60 and not c["gen"].startswith("corpus"):
            T, exact = model_table(c)
            if exact and not c.get("order_only") and not is_metric(T):
                raise vlib.BuildError("generator bug: non-metric table from " + c["gen"])
    n = 0
    scatter = [c for c in cases if c["gen"] in FAST]
    small = [c for c in cases if c["N"] <= 150 and c["gen"] not in FAST]
    large = [c for c in cases if c["N"] > 150]

    for i in range(0, len(small), 150):
        n += evaluate(ctx, exe, mexe, small[i:i + 150], stats)
        if stats.get("aborted_cases", 0) >= 3 and ctx.has_violation():
            ctx.note("stopped after %d aborted cases (hang / crash of the library)" % stats["aborted_cases"])
            break
    for i in range(0, len(wcases), 100):
        if (stats.get("aborted_cases", 0) >= 3 or stats.get("wrap_aborted_cases", 0) >= 3) and ctx.has_violation():
            break
        n += evaluate_wrap(ctx, exe, mexe, wcases[i:i + 100], stats)
    for c in large:
        if stats.get("aborted_cases", 0) >= 3 and ctx.has_violation():
            break
        n += evaluate(ctx, exe, mexe, [c], stats)
        n += boundary_large(ctx, exe, c, stats)
    if not (stats.get("aborted_cases", 0) >= 3 and ctx.has_violation()):
        # (a library that hangs or crashes again and again already has its verdict: do not spend 30 timeouts here)
        float_observation(ctx, exe, rng, stats, 30 if quick else 200)
    for i in range(0, len(scatter), 2000):
        if ctx.has_violation():
            break
        n += evaluate_fast(ctx, exe, mexe, scatter[i:i + 2000], stats)
    if ctx.is_unshown():
        m, extra = search_phase(ctx, exe, mexe, rng, 1500 if quick else 6000, stats, hist)
        n += m
    distinct = set()
    for c in cases:
        if c["N"] >= 3:
            distinct.add(hashlib.sha1(json.dumps([c["kind"], c.get("M"), c.get("X"), c["ks"]]).encode()).hexdigest())
    sizes = {}
    for c in cases:
        b = "N<=4" if c["N"] <= 4 else "N<=12" if c["N"] <= 12 else "N<=36" if c["N"] <= 36 else \
            "N<=150" if c["N"] <= 150 else "N>150"
        sizes[b] = sizes.get(b, 0) + 1
    ctx.finish(
        evaluations=n, distinct_nontrivial=len(distinct),
        rule="evaluation = one row returned by find_neighbors (method, k, query) judged by the extracted is_knn_b; "
             "cases are exact metrics served as matrices (L1 lattices in 1-3 dimensions with copies, integer lines, "
             "shortest-path metrics of random integer-weighted graphs, ultrametrics, coincident sets, wide binary "
             "ranges incl. ratios up to 2^600 as hex floats, tie-free integer points in 1..50 dimensions, tight clusters "
             "far apart, small scattered lattice sets, integer feature vectors under the dot-product kernel), every k "
             "for N<=12 and 4-6 aimed k above; "
             "non-trivial = N>=3; distinct by hash of (matrix, ks).  Structural probes per (case,k): real VP-tree dump "
             "+ model search on it, cover-tree candidate lists + completeness, cover-tree dump + model query, observed "
             "nth_element calls (counts in histogram.stats).  float_* in histogram.stats is an OBSERVATION stream outside "
             "the property's hypothesis: 1-D coordinates over 23 decades, callback fl(|x-y|) - a table that violates the "
             "triangle inequality by an ulp on tight (collinear) triples; float_tables_not_metric counts such tables, "
             "float_bad_rows_V/C the short or farther rows the tree methods then return (no verdict; a verdict only if the "
             "table is an exact metric, or for brute force).  Dispatcher stream (wrap_* in histogram.stats): callbacks that "
             "are NOT metrics (nm_sym arbitrary symmetric integer tables, nm_asym asymmetric ones, nm_sq squared Euclidean, "
             "nm_pert lattice metrics with a few entries moved, nm_koff linear-kernel distances of features with a common "
             "offset 2e6..1e7), 5-6 k each, three methods: evaluation = one row of the table find_neighbors returned; rows "
             "are JUDGED (is_knn_b, no metric assumed) for brute force always and for a tree method when the raw tree "
             "table has a row of size != k (fallback must fire: wrap_fired_*, wrap_rows_judged; "
             "wrap_fired_with_wrong_complete_rows counts the fired calls whose raw table also held complete but wrong "
             "rows); otherwise the returned table must be the raw tree table.",
        samples=[{"gen": c["gen"], "N": c["N"], "ks": c["ks"][:6],
                  "first_row": (c.get("M") or c.get("X"))[0][:12]} for c in cases[:2] + cases[len(tiny) + 2:len(tiny) + 7]],
        histogram={"generators": hist, "sizes": sizes, "stats": stats},
        trusted_base=TRUSTED,
        assumptions=["the callback is a metric (symmetric, triangle inequality; zero distances between distinct samples "
                     "allowed) — brute force needs no assumption, and neither does the dispatcher's clause 'a fired "
                     "fallback returns exact rows' (any callback whose values are not NaN)", "1 <= k <= N-1", "distances are finite and far "
                     "below DBL_MAX", "cover tree: distance ratio below 1.3^188 (101-slot cover_sets array physically "
                     "holds 189 entries)"],
        extra={"cases": len(cases) + len(wcases), "dispatcher_cases_nonmetric": len(wcases)})


def replay(ctx, case):
    exe = ctx.cpp("harness/c02.cpp")
    mexe = ctx.extract()
    c = {"gen": case.get("gen", "replay"), "kind": case["kind"], "N": case["N"]}
    if c["kind"] == "D":
        c["M"] = case["M"]
        if case.get("Mhex"):
            c["Mhex"], c["order_only"] = case["Mhex"], True
    else:
        c["X"] = case["X"]
        if case.get("Ghex"):
            c["Ghex"], c["kscale"] = case["Ghex"], case.get("kscale", 0)
    if case.get("ids"):
        c["ids"] = case["ids"]
    if case.get("raw_metric"):
        c["raw_metric"] = True
    ks = [case["k"]] if "k" in case else case.get("ks", [])
    methods = [case["method"]] if "method" in case else METHODS
    rc = 0
    for k in ks:
        for m in methods:
            r = run_impl(ctx, exe, [c], [["%s %s %d" % ("W" if case.get("wrap") else "E" if case.get("deque") else "F", m, k)]], timeout=60)[0]
            print("\n".join(r["lines"][:40]))
            why = fails_spec(ctx, exe, mexe, c, m, k, "wrap" if case.get("wrap") else "deque" if case.get("deque") else bool(case.get("conn")))
            if why:
                print("replay: property C02 FAILS: " + why[:1200])
                rc = 1
    if rc == 0:
        print("replay: property C02 holds on this case")
    return rc
