"""C20 — the CLI writes exactly what the library computes for the options given.

proof  : coq/Cli_Model.v (executable model of src/cli/main.cpp + util.hpp: option table interpreter
         cli_decide, read_data / write_matrix / transposeInPlace on file contents, main() around a
         library oracle, matrix_from_callback), coq/Cli_Spec.v (documented tables + the documented
         behaviour as a direct function spec_decide), coq/Cli_Proof_*.v, coq/Properties_C20.v.
tie    : (T) translate/t_cli.py regenerates coq/gen/Cli.v from src/cli/main.cpp and src/cli/util.hpp of
         the working tree on every run; the theorems are stated over the generated tables, so an edit
         of an option, default, alias, name map, early exit, kwargs line, transposition or read loop
         re-opens the obligations.
         (C) harness/c20.cpp includes src/cli/main.cpp verbatim (main renamed) = the command line tool
         rebuilt from the working tree, plus an in-process library driver.  Streams:
           wiring : abstract command lines -> argv; exit status and --debug parameter echo of the
                    tool against the extracted model (generated tables) and the extracted
                    specification (obs_ok); every option and every spelling once, then random mixes,
                    malformed values, unknown names;
           files  : token matrices (delimiters, blanks, empty tokens, garbage tokens, empty lines,
                    CRLF, missing final newline, unequal rows, both transposition flags) through
                    `-m passthru` against the extracted cli_main and an independent reading of
                    "one sample per line"; ragged files of every shape (deviations that cancel out,
                    first / last / middle row, only shorter / only longer, permutations, rows without
                    a number) and EVERY ragged length vector of <= 3 (thorough: 4) lines x 0..3 values;
           library: deterministic and (seeded) randomised methods with option mixes, --precompute,
                    transposition flags and projection files against in-process library calls with the
                    parameters the specification names, EXACT text; every case is also run with the
                    --precompute flag toggled and both runs must write the same text ("changes nothing
                    but speed"); data geometries: dyadic lattice, common / per-column offsets 1e3..1e9
                    (thorough 1e12) times the spread, huge / tiny magnitudes (1e+-100 .. 1e+-300), exact
                    duplicates, tie lattices scaled by non-powers-of-two, more features than samples,
                    separated clusters; a sweep runs every deterministic method over every geometry.
search : when an obligation or the correspondence breaks: the same streams at a larger budget.
"""
import hashlib
import importlib.util
import json
import os
import re
import shutil
import threading
from decimal import Decimal
from fractions import Fraction

import vlib

PROPERTY = "C20"

TRUSTED = [
    "translate/t_cli.py (tokenizer + statement-level reader of main.cpp/util.hpp; self-test mutates a scratch "
    "copy and must see the tables change; unreadable expressions become WOther/XOther and fail the obligations)",
    "hand-written model Cli_Model.v of cxxopts' behaviour (last occurrence wins, count(), default values, "
    "exceptions -> main()'s handlers) tied by differential testing against the rebuilt tool",
    "option values: the integer reading is the extracted model int_parse of cxxopts' integer_parser<int> and the "
    "double reading is supplied by checks/c20.py; both are compared with the real cxxopts parsers "
    "(harness/c20_ip.cpp) on thousands of tokens on every run and validated through the --debug echo;",
    "oracles: `istream >> double` on file tokens (recogniser in "
    "c20_driver.ml for the generated token classes), `ostream << double` (%g, 6 digits) applied to both sides",
    "the library itself is an oracle of cli_main (the theorems say what reaches it and what is written)",
    "--precompute vs direct: proved for the VALUES of the tables (exact arithmetic; the expanded formula "
    "|a|^2+|b|^2-2<a,b> is proved equal to |a-b|^2 over Z and refuted in binary64 by a PrimFloat witness); real runs "
    "are compared as exact text, single-threaded (OMP_NUM_THREADS=1: under several threads the DIRECT path of "
    "ltsa/npe/lltsa is itself not reproducible run to run, which is not this property's business)",
    "extraction (ExtrOcamlBasic only) + OCaml 4.13.1 + coq/extract/c20_driver.ml (hex transport, printing)",
    "translate/t_cli.py shape tables: read_data and matrix_from_callback are compared as canonical token text "
    "(layout, comments, qualifiers, names of locals, literal text, ++i/i++, braces around one statement, integer "
    "type of a loop counter are free) with the reviewed shapes the Coq model mirrors (gen_read_check, gen_mfc)",
    "harness/c20.cpp: includes src/cli/main.cpp with main renamed; srand() is interposed so that a case's seed "
    "answers the tool's srand(time(NULL)) (only when C20_SEED is set: the library stream); quick tier is built -O0 with AddressSanitizer and "
    "_GLIBCXX_ASSERTIONS (no UBSan: that build takes twice as long and runs twice as slow), thorough tier -O1 -g "
    "with ASan + UBSan",
]

ASSUMPTIONS = [
    "flags are given without =value; option values are single argv tokens",
    "number printing/parsing of the C++ streams is not modelled: parse(print v) = v and 'a printed number "
    "contains neither the delimiter nor a newline' are hypotheses of cli_roundtrip",
    "the delimiter is not the newline character",
    "methods that draw random numbers (fa, spe, ra, t-sne, manifold_sculpting, landmark variants, randomized "
    "eigensolver, VP-tree neighbours) are compared on their output under a fixed seed: the harness answers the "
    "tool's srand(time(NULL)) with the case's seed (srand interposed in the harness executable, src/cli unedited) "
    "and seeds tapkee::random_shuffle through hook H1; the in-process reference is seeded the same way; "
    "OMP_NUM_THREADS=1",
]

DET_METHODS = ["lle", "locally_linear_embedding", "ltsa", "hlle", "mds", "multidimensional_scaling", "isomap",
               "dm", "diffusion_map", "kpca", "kernel_pca", "pca", "la", "laplacian_eigenmaps", "lpp", "npe",
               "lltsa", "passthru"]
LINEAR = {"pca", "lpp", "npe", "lltsa", "ra", "random_projection"}
# methods that draw random numbers (std::rand / tapkee::random_shuffle): compared on their OUTPUT under a fixed
# seed (harness: C20_SEED answers the tool's srand(time(NULL)) and seeds hook H1; `c20 lib` does the same)
RANDOM_METHODS = ["spe", "stochastic_proximity_embedding", "ra", "random_projection", "fa", "factor_analysis",
                  "t-sne", "t-stochastic_proximity_embedding", "manifold_sculpting", "l-mds",
                  "landmark_multidimensional_scaling", "l-isomap", "landmark_isomap"]


# ----------------------------------------------------------------------------- source tables
def load_translator(ctx):
    spec = importlib.util.spec_from_file_location("t_cli", os.path.join(ctx.verif, "translate", "t_cli.py"))
    mod = importlib.util.module_from_spec(spec)
    spec.loader.exec_module(mod)
    return mod


def keyword_labels(repo):
    """library keyword -> label printed by the --debug echo (include/tapkee/defines/keywords.hpp)"""
    txt = open(os.path.join(repo, "include/tapkee/defines/keywords.hpp")).read()
    out = {}
    for m in re.finditer(r"ParameterKeyword<[^;]*?>\s+(\w+)\s*\(\s*\"([^\"]*)\"", txt, re.S):
        out[m.group(1)] = m.group(2)
    return out


def enum_names(repo):
    """display name -> enumerator (include/tapkee/defines/methods.hpp)"""
    txt = open(os.path.join(repo, "include/tapkee/defines/methods.hpp")).read()
    out = {}
    for m in re.finditer(r"static\s+const\s+(\w+)\s+(\w+)\s*\(\s*\"([^\"]*)\"", txt):
        out[(m.group(1), m.group(3))] = m.group(2)
    return out


ENUM_TYPE = {"method": "DimensionReductionMethod", "neighbors_method": "NeighborsMethod",
             "eigen_method": "EigenMethod", "computation_strategy": "ComputationStrategy"}


# ----------------------------------------------------------------------------- oracles for option values
INT_RE = re.compile(r"(-)?(0x)?([0-9a-zA-Z]+)|((0x)?0)")
FLT_PREFIX = re.compile(r"[ \t\r\n]*[+-]?(\d+\.?\d*|\.\d+)([eE][+-]?\d+)?")


def int_reading(raw):
    """cxxopts 3.1.1 integer_parser<int>, the algorithm of coq/Cli_IntParse_Model.v (which is what the model
    uses; this copy only has to agree with it: oracle_contract checks that on every run); None = throws"""
    neg, r = (True, raw[1:]) if raw[:1] == "-" else (False, raw)
    if r == "" or not all(c.isascii() and c.isalnum() for c in r):
        return None
    hexa, v = (True, r[2:]) if (r[:2] == "0x" and len(r) > 2) else (False, r)
    res = 0
    for c in v:
        if c in "0123456789":
            d = ord(c) - 48
        elif hexa and "a" <= c <= "f":
            d = ord(c) - 97 + 10
        elif hexa and "A" <= c <= "F":
            d = ord(c) - 65 + 10
        else:
            return None
        nxt = (res * (16 if hexa else 10) + d) % 2 ** 32          # unsigned int arithmetic
        if nxt < res:                                              # `if (result > next) throw` (misses some wraps)
            return None
        res = nxt
    if neg:
        return None if res > 2 ** 31 else -res
    return None if res > 2 ** 31 - 1 else res


def canon(x):
    """the rational standing for a double: its shortest round-trip decimal"""
    return Fraction(Decimal(repr(float(x))))


def dbl_value(raw):
    """libstdc++ `stringstream(raw) >> double; if (!in) throw`: blanks, then the longest prefix
    [+-] digits [. digits] [(e|E) [+-] digits] is handed to strtod, which must consume all of it"""
    i, n = 0, len(raw)
    while i < n and raw[i] in " \t\n\r\v\f":
        i += 1
    j = i
    if j < n and raw[j] in "+-":
        j += 1
    digits = False
    while j < n and raw[j] in "0123456789":
        j, digits = j + 1, True
    if j < n and raw[j] == ".":
        j += 1
        while j < n and raw[j] in "0123456789":
            j, digits = j + 1, True
    if not digits:
        return None
    if j < n and raw[j] in "eE":
        j += 1
        if j < n and raw[j] in "+-":
            j += 1
        k = j
        while j < n and raw[j] in "0123456789":
            j += 1
        if j == k:
            return None
    v = float(raw[i:j])
    return None if v in (float("inf"), float("-inf")) else v


def dbl_reading(raw):
    v = dbl_value(raw)
    return None if v is None else canon(v)


def hexs(s):
    return s.encode("latin-1").hex()


def enc_args(args):
    toks = ["["]
    for name, val in args:
        if val is None:
            toks.append("%s:F" % name)
        else:
            zi, qd = int_reading(val), dbl_reading(val)
            toks.append("%s:V:%s:%s:%s" % (name, hexs(val), "-" if zi is None else zi,
                                           "-" if qd is None else "%d/%d" % (qd.numerator, qd.denominator)))
    toks.append("]")
    return " ".join(toks)


def argv_of(args, rng=None):
    out = []
    for name, val in args:
        dash = "-" + name if len(name) == 1 else "--" + name
        if val is None:
            out.append(dash)
        elif len(name) > 1 and rng is not None and rng.random() < 0.3:
            out.append(dash + "=" + val)
        else:
            out += [dash, val]
    return out


def parse_outcome(line):
    line = line.strip()
    if line.startswith("EXIT"):
        return ("exit", int(line.split()[1]))
    if line.startswith("RUN"):
        ps, io = line[4:].split(" | ")
        return ("run", dict(kv.split("=", 1) for kv in ps.split()), dict(kv.split("=", 1) for kv in io.split()))
    return ("stuck",)


def model_batch(ctx, mexe, lines):
    if not lines:
        return []
    r = ctx.run(mexe, "\n".join(lines) + "\n", timeout=600)
    out = r.out.splitlines()
    if r.rc != 0 or len(out) != len(lines):
        raise vlib.BuildError("model driver failed: rc=%s %s" % (r.rc, (r.err or r.out)[-400:]))
    return out


# ----------------------------------------------------------------------------- running the tool
class Tool:
    def __init__(self, ctx, exe):
        self.ctx, self.exe = ctx, exe
        self.dir = os.path.join(ctx.build, "work")
        shutil.rmtree(self.dir, ignore_errors=True)
        os.makedirs(self.dir)
        self.n = 0
        self.timeouts = 0
        self.env = {"OMP_NUM_THREADS": "1"}

    def path(self, name):
        return os.path.join(self.dir, name)

    def cli(self, argv, content, extra_files=(), seed=None):
        """run the tool on a fresh input file; returns dict(rc, out, err, output, timed_out, files)"""
        self.n += 1
        fin, fout = self.path("in.txt"), self.path("out.txt")
        with open(fin, "wb") as f:
            f.write(content.encode("latin-1"))
        for p in [fout] + [self.path(x) for x in extra_files]:
            if os.path.exists(p):
                os.remove(p)
        self.last_argv = ["-i", fin, "-o", fout] + list(argv)
        env = self.env if seed is None else dict(self.env, C20_SEED=str(seed))
        if self.timeouts >= 3:
            # a tool that hung three times is not run again (each hang costs the full timeout): the remaining
            # cases are reported as hung without waiting
            return {"rc": -9, "err": "not run: the tool hung on 3 earlier inputs", "out": "", "timed_out": True,
                    "output": None, "files": {}}
        r = self.ctx.run([self.exe, "cli"] + self.last_argv, "", timeout=30, env=env)
        if r.timed_out:
            self.timeouts += 1
        res = {"rc": r.rc, "err": r.err, "out": r.out, "timed_out": r.timed_out, "output": None, "files": {},
               "sanitizer": r.sanitizer}
        if os.path.exists(fout):
            res["output"] = open(fout, "rb").read().decode("latin-1")
        for x in extra_files:
            if os.path.exists(self.path(x)):
                res["files"][x] = open(self.path(x), "rb").read().decode("latin-1")
        return res


def crashed(res):
    """killed by a signal, hung, or stopped by a sanitizer / libstdc++ assertion (those exit with status 1)"""
    return res["timed_out"] or res["rc"] < 0 or res["rc"] > 128 or bool(res.get("sanitizer"))


def echo_of(res, labels, enums):
    """--debug echo -> {keyword: encoded value}"""
    inv = {v: k for k, v in labels.items()}
    out = {}
    for m in re.finditer(r"Parameter (.+?) = \[(.*?)\]\s*$", res["err"] + "\n" + res["out"], re.M):
        kw = inv.get(m.group(1))
        if kw is not None:
            out[kw] = m.group(2)
    return out


def encode_echo(echo, spec_params, enums):
    """typed by the specification's value for the keyword; None if the text is not of that type"""
    toks = []
    for kw, text in sorted(echo.items()):
        sv = spec_params.get(kw)
        if sv is None:
            continue
        t = sv[0]
        try:
            if t == "b":
                toks.append("%s=b%d" % (kw, 1 if text.strip() == "1" else 0 if text.strip() == "0" else 7))
            elif t == "i":
                toks.append("%s=i%d" % (kw, int(text)))
            elif t == "q":
                # the echo prints 6 significant digits (ostream << double): a value that prints like the
                # documented one IS the documented one as far as the echo can tell
                q = Fraction(sv[1:])
                if fmt(float(q)) != text.strip():
                    q = canon(float(text))
                toks.append("%s=q%d/%d" % (kw, q.numerator, q.denominator))
            elif t == "e":
                en = enums.get((ENUM_TYPE.get(kw, ""), text))
                toks.append("%s=e%s" % (kw, en if en else "UNKNOWN_" + re.sub(r"\W", "_", text)))
        except ValueError:
            toks.append("%s=eUNPARSABLE" % kw)
    return "{ " + " ".join(toks) + " }"


# ----------------------------------------------------------------------------- generators
INT_OPTS = {"td": "target-dimension", "k": "num-neighbors", "timesteps": None, "spe-num-updates": None,
            "max-iters": None}
DBL_OPTS = {"gw": "gaussian-width", "eigenshift": None, "landmark-ratio": None, "spe-tolerance": None,
            "fa-epsilon": None, "sne-perplexity": None, "sne-theta": None, "squishing-rate": None}
STR_OPTS = {"m": "method", "nm": "neighbors-method", "em": "eigen-method", "cs": "computation-strategy"}
FLAGS = ["spe-local", "precompute", "transpose-input", "transpose-output", "verbose", "benchmark"]
INT_BAD = ["12abc", "1.5", "+5", "abc", "", "0x1g", "2147483648", "0x"]
INT_TOKENS = {          # values the library accepts quickly on 12 samples, boundary values, malformed text
    "td": ["1", "2", "3", "0", "-1", "0x2", "-2147483648", "2147483647"] + INT_BAD,
    "k": ["3", "4", "5", "7", "10", "2", "0", "-7", "0x5", "4772185890", "2147483647", "-2147483649"] + INT_BAD,
    "timesteps": ["0", "1", "2", "3", "-1", "0x2"] + INT_BAD,
    "spe-num-updates": ["1", "5", "20", "100", "0x10"] + INT_BAD,
    "max-iters": ["0", "1", "2", "5", "0x3"] + INT_BAD,
}
DBL_TOKENS = ["0", "0.5", "1", "1.5", "2", "1e-3", "1e-9", "0.1", "0.2", "0.30000000000000004", ".25", "5.",
              "-0.5", "-1e-7", "1000", "2.5x", "abc", "", "-"]
SMALL_DATA = "0,0,1\n1,0,0\n0,1,0\n1,1,1\n2,0,1\n0,2,1\n2,2,0\n1,2,2\n3,1,0\n1,3,1\n2,3,2\n3,3,3\n"


def spellings(tables):
    return [names for names, _ in tables["options"]]


def gen_single_option_cases(tables):
    """every option, every spelling, one non-default value (and one malformed value for typed options)"""
    cases = []
    maps = dict(tables["maps"])
    for names, dflt in tables["options"]:
        for n in names:
            if n in ("i", "input-file", "o", "output-file"):
                continue
            kind = dflt[0]
            if kind == "DFlag":
                cases.append([(n, None)])
            elif kind == "DInt":
                # special values: 0, and the documented default written out (must act as the option left unset)
                cases += [[(n, "7")], [(n, "x7")], [(n, "-2")], [(n, "0")], [(n, str(dflt[1]))]]
            elif kind == "DDbl":
                cases += [[(n, "0.75")], [(n, "zz")], [(n, "-0.25")], [(n, "0")], [(n, str(dflt[2]))]]
            else:
                if n in ("m", "method"):
                    for key, _ in maps.get("DIMENSION_REDUCTION_METHODS", []):
                        cases.append(bounded([(n, key)]))
                    cases += [[(n, "llle")], [(n, "PCA")], [(n, "")]]
                elif n in ("nm", "neighbors-method"):
                    cases += [[(n, k)] for k, _ in maps.get("NEIGHBORS_METHODS", [])] + [[(n, "kdtree")]]
                elif n in ("em", "eigen-method"):
                    cases += [[(n, k)] for k, _ in maps.get("EIGEN_METHODS", [])] + [[(n, "arpack")]]
                elif n in ("cs", "computation-strategy"):
                    cases += [[(n, k)] for k, _ in maps.get("COMPUTATION_STRATEGIES", [])] + [[(n, "opencl")]]
                elif n in ("d", "delimiter"):
                    cases += [[(n, ";")], [(n, " ")]]
                else:
                    cases.append([(n, "/dev/null")])
    cases.append([("bogus-option", None)])
    cases.append([("k", "5"), ("k", "2")])
    cases.append([("k", "2"), ("num-neighbors", "6")])
    cases.append([])
    return cases


def gen_random_args(rng, tables):
    maps = dict(tables["maps"])
    args = []
    for _ in range(rng.choice([0, 1, 1, 2, 2, 3, 4, 6])):
        c = rng.random()
        if c < 0.25:
            short, long_ = rng.choice(list(INT_OPTS.items()))
            n = rng.choice([short, long_ or short])
            args.append((n, rng.choice(INT_TOKENS[short])))
        elif c < 0.55:
            short, long_ = rng.choice(list(DBL_OPTS.items()))
            n = rng.choice([short, long_ or short])
            args.append((n, rng.choice(DBL_TOKENS)))
        elif c < 0.75:
            args.append((rng.choice(FLAGS), None))
        elif c < 0.97:
            short, long_ = rng.choice(list(STR_OPTS.items()))
            n = rng.choice([short, long_])
            mp = {"m": "DIMENSION_REDUCTION_METHODS", "nm": "NEIGHBORS_METHODS", "em": "EIGEN_METHODS",
                  "cs": "COMPUTATION_STRATEGIES"}[short]
            keys = [k for k, _ in maps.get(mp, [])] or ["x"]
            v = rng.choice(keys) if rng.random() < 0.85 else rng.choice(["", "xx", keys[0].upper(), keys[0] + " "])
            args.append((n, v))
        else:
            args.append((rng.choice(["h", "help", "bogus"]), None))
    if not any(n in ("m", "method") for n, _ in args) and rng.random() < 0.8:
        args.append(("m", "passthru"))
    return bounded(args)


ITERATIVE = {"manifold_sculpting", "spe", "stochastic_proximity_embedding", "t-sne",
             "t-stochastic_proximity_embedding", "fa", "factor_analysis"}


def bounded(args):
    """iterative methods get a small iteration budget (ManifoldSculpting does not terminate on some inputs:
    finding F20 of property C01; not this property's business)"""
    meth = [v for n, v in args if n in ("m", "method")]
    if meth and meth[-1] in ITERATIVE and not any(n == "max-iters" for n, _ in args):
        return list(args) + [("max-iters", "2")]
    return list(args)


QUIRK_ARGVS = [
    ["-td", "2"], ["--td", "2"], ["--k", "5"], ["-k5"], ["-k", "5"], ["--num-neighbors=5"], ["-x"], ["-"], [""],
    ["stray"], ["--", "--bogus"], ["-k"], ["--method"], ["-mpca"], ["-m=pca"], ["--td=0"], ["--td", "-1"],
    ["--gw", "-0.5"], ["--gw=-0.5"], ["--spe-local=true"], ["--spe-local=false"], ["--spe-local=maybe"],
    ["--precompute=1", "-m", "pca"], ["--debug=0"], ["-hk", "5"], ["-m", "pca", "stray", "-k", "4"],
    ["--transpose-output", "5"], ["-d;", "-m", "passthru"], ["--eigenshift=", "-m", "pca"], ["--m", "pca"],
    ["-m", "pca", "--"], ["--nm=brute", "--em", "dense"], ["-kk"], ["--k=5"], ["---k", "5"], ["--spe_local"],
]


def gen_raw_argv(rng, tables):
    """argv vectors in all the spellings cxxopts understands, and some it does not"""
    maps = dict(tables["maps"])
    methods = [k for k, _ in maps.get("DIMENSION_REDUCTION_METHODS", [])] or ["pca"]
    out = []
    for _ in range(rng.choice([1, 1, 2, 2, 3, 4])):
        c = rng.random()
        if c < 0.2:
            v = rng.choice(INT_TOKENS["k"])
            out += rng.choice([["-k", v], ["-k" + v], ["--num-neighbors", v], ["--num-neighbors=" + v], ["--k", v]])
        elif c < 0.4:
            short, long_ = rng.choice([x for x in DBL_OPTS.items()])
            n = rng.choice([short, long_ or short])
            v = rng.choice(DBL_TOKENS)
            out += rng.choice([["--" + n, v], ["--" + n + "=" + v], ["-" + n, v]])
        elif c < 0.6:
            v = rng.choice(methods) if rng.random() < 0.85 else rng.choice(["", "xx", "=pca"])
            out += rng.choice([["-m", v], ["-m" + v], ["--method", v], ["--method=" + v], ["-m=" + v]])
        elif c < 0.8:
            f = rng.choice(FLAGS + ["debug"])
            out += rng.choice([["--" + f], ["--" + f], ["--" + f + "=" + rng.choice(["true", "false", "1", "0", "T", "yes", ""])],
                               ["-" + f]])
        elif c < 0.9:
            short, long_ = rng.choice(list(INT_OPTS.items()))
            v = rng.choice(INT_TOKENS[short])
            n = rng.choice([short, long_ or short])
            out += rng.choice([["--" + n, v], ["--" + n + "=" + v]])
        else:
            out += rng.choice([["stray"], ["--"], ["-"], ["-x"], ["--bogus=1"], ["-k"], ["--td"], ["-dk"], [""]])
    return out


def readings_for(argv):
    """the numeric readings of every string the scanner may take for an option value"""
    cands = set()
    for t in argv:
        cands.add(t)
        if "=" in t:
            cands.add(t.split("=", 1)[1])
        if t.startswith("-") and not t.startswith("--"):
            for i in range(2, len(t)):
                cands.add(t[i:])
    toks = []
    for c in sorted(cands):
        try:
            h = hexs(c)
        except UnicodeEncodeError:
            continue
        zi, qd = int_reading(c), dbl_reading(c)
        toks.append("%s:%s:%s" % (h or "-", "-" if zi is None else zi,
                                  "-" if qd is None else "%d/%d" % (qd.numerator, qd.denominator)))
    return "{ " + " ".join(toks) + " }"


VALID_TOKENS = ["0", "1", "2", "3", "-1", "0.5", "-2.25", "10", "1e2", "007", "+4", ".5", "5.", "100000", "1e-3",
                " 6", "8 ", "-0.125", "12345.5", "3.75"]
GARBAGE_TOKENS = ["", "abc", "x1", "-", ".", "e5", "+", " "]
DELIMS = [",", ",", ",", " ", ";", "\t", "|", ":"]


def valid_token(t):
    """`istringstream(t) >> double` succeeds (a numeric PREFIX is enough: "2.5x" is 2.5, "1e" fails); the same
    reading as for option values, compared with the real stream on every run (oracle_contract)"""
    return dbl_value(t) is not None


# tokens with a numeric prefix and trailing junk (read as the prefix) or with a broken exponent (rejected)
SUFFIXES = ["x", ";", "e", "e+", "E-", ".5.5", "-2", "abc", "e2z", "%", "e999"]


def gen_file_case(rng):
    d = rng.choice(DELIMS)
    # the library wants target_dimension < #samples even for pass-through: --td 1 and at least 2 rows and columns
    nrows, ncols = rng.choice([2, 3, 3, 4, 5]), rng.choice([2, 3, 3, 4])
    mode = rng.choice(["clean", "clean", "clean", "garbage", "unequal", "blank", "crlf", "nonl", "nonl", "suffix"] +
                      (["nonumbers"] if rng.random() < 0.35 else []))
    rows = []
    for i in range(nrows):
        toks = [rng.choice([t for t in VALID_TOKENS if d not in t]) for _ in range(ncols)]
        rows.append(toks)
    if mode == "nonumbers":
        # no line holds a number: every row is empty, the matrix has zero columns
        rows = [[rng.choice([g for g in GARBAGE_TOKENS if d not in g and g.strip()])
                 for _ in range(rng.choice([1, 2, 3]))] for _ in range(nrows)]
    if mode == "suffix":
        # trailing junk after a number is ignored by `>>`; a broken exponent makes the whole token fail
        for r in rows:
            for j in range(len(r)):
                if rng.random() < 0.4:
                    suf = rng.choice([x for x in SUFFIXES if d not in x])
                    r[j] = r[j].rstrip() + suf
    if mode == "garbage":
        # garbage tokens are skipped silently: keep the number of valid tokens per row equal or not
        for r in rows:
            if rng.random() < 0.6:
                r.insert(rng.randrange(len(r) + 1), rng.choice([g for g in GARBAGE_TOKENS if d not in g]))
        if rng.random() < 0.4:
            j = rng.randrange(nrows)
            rows[j][rng.randrange(len(rows[j]))] = rng.choice(["abc", "x1"])
    if mode == "unequal" and nrows > 1:
        j = rng.randrange(1, nrows) if rng.random() < 0.8 else 0
        if rng.random() < 0.5 and len(rows[j]) > 1:
            rows[j].pop()
        else:
            rows[j].append("9")
    lines = [d.join(r) for r in rows]
    if mode == "blank":
        lines.insert(rng.randrange(len(lines) + 1), "")
        if rng.random() < 0.5:
            lines.append("")
    eol = "\r\n" if mode == "crlf" else "\n"
    content = eol.join(lines) + (eol if mode != "nonl" else "")
    # a file without any valid token is N samples of dimension 0 (the model carries the sample count)
    flags = [f for f in ("transpose-input", "transpose-output") if rng.random() < 0.4]
    dopt = [("d", d)] if d != "," or rng.random() < 0.3 else []
    if rng.random() < 0.04:
        # -d "": delimiter[0] is the terminating NUL, every line is one token
        dopt, mode = [("d", "")], mode + "+nul"
    args = [("m", "passthru"), ("td", "1")] + dopt + [(f, None) for f in flags]
    return {"kind": "file", "mode": mode, "args": args, "content": content}


# ---- malformed files: rows of unequal length in every shape -----------------------------------------
# The property: "rows of unequal length make it exit non-zero".  A length vector (l_0 .. l_{n-1}) = numbers of
# parsable tokens on the non-empty lines; it is ragged when not all l_i are equal.  Shapes aimed at the ways a
# length test can be weakened: the deviations cancel out (sum = n * l_0: an aggregate test passes), only the
# first / last / one middle row deviates, only shorter / only longer rows, a permutation of a multiset of
# lengths, a row without any number (length 0, realised by a garbage-only line), two blocks of different width.
RAGGED_KINDS = ["compensating", "compensating", "compensating", "first_short", "first_long", "last_short",
                "last_long", "middle", "permutation", "random", "zero_row", "two_blocks", "only_shorter",
                "only_longer", "compensating_mean"]


def ragged(lengths):
    return any(l != lengths[0] for l in lengths)


def compensating_vector(rng, n, c):
    """l_0 = c, the others deviate but sum to (n - 1) * c"""
    ls = [c] * n
    for _ in range(rng.choice([1, 1, 2, 3])):
        i, j = rng.sample(range(1, n), 2)
        k = rng.randint(1, max(1, ls[i]))
        if ls[i] - k >= 0:
            ls[i] -= k
            ls[j] += k
    return ls


def gen_length_vector(rng):
    for _ in range(100):
        kind = rng.choice(RAGGED_KINDS)
        n, c = rng.choice([2, 3, 3, 4, 5, 6, 8]), rng.choice([1, 2, 3, 3, 4, 5])
        ls = [c] * n
        if kind == "compensating" and n >= 3:
            ls = compensating_vector(rng, n, c)
        elif kind == "compensating_mean" and n >= 3:
            # the mean is the common length of the OTHER rows, the first row deviates too
            ls = compensating_vector(rng, n, c)
            rng.shuffle(ls)
        elif kind == "first_short" and c > 1:
            ls[0] = c - rng.randint(1, c - 1)
        elif kind == "first_long":
            ls[0] = c + rng.randint(1, 2)
        elif kind == "last_short":
            ls[-1] = c - rng.randint(1, c)
        elif kind == "last_long":
            ls[-1] = c + rng.randint(1, 2)
        elif kind == "middle" and n >= 3:
            ls[rng.randrange(1, n - 1)] = max(0, c + rng.choice([-2, -1, 1, 2]))
        elif kind == "permutation":
            ls = [c] * (n - 2) + [c + 1, max(0, c - 1)] if rng.random() < 0.6 else [c + (i % 3) - 1 for i in range(n)]
            ls = [max(0, l) for l in ls]
            rng.shuffle(ls)
        elif kind == "random":
            ls = [rng.randint(0, c + 1) for _ in range(n)]
        elif kind == "zero_row":
            ls[rng.randrange(n)] = 0
        elif kind == "two_blocks" and n >= 3:
            k = rng.randrange(1, n)
            ls = [c] * k + [c + rng.choice([-1, 1, 2])] * (n - k)
            ls = [max(0, l) for l in ls]
        elif kind == "only_shorter":
            ls = [c] + [max(0, c - rng.choice([0, 0, 1, 2])) for _ in range(n - 1)]
        elif kind == "only_longer":
            ls = [c] + [c + rng.choice([0, 0, 1, 2]) for _ in range(n - 1)]
        if ragged(ls):
            return kind, ls
    return "first_long", [3, 2]


def content_of_lengths(rng, ls, d, garbage=0.0, eol="\n", final_nl=True, blank=0.0):
    """a file whose i-th non-empty line has ls[i] parsable tokens; every number distinct, so that a
    re-wrapped matrix differs from the one the lines denote"""
    lines, v = [], 1
    for l in ls:
        toks = []
        for _ in range(l):
            toks.append(str(v) if rng.random() < 0.75 else "%g" % (v + 0.5))
            v += 1
        junk = [g for g in ("x", "abc", "x1", "e5") if d not in g]
        if l == 0:
            toks = [rng.choice(junk)]
        elif rng.random() < garbage:
            toks.insert(rng.randrange(len(toks) + 1), rng.choice(junk))
        lines.append(d.join(toks))
        if rng.random() < blank:
            lines.append("")
    return eol.join(lines) + (eol if final_nl else "")


RAGGED_METHODS = ["passthru", "passthru", "passthru", "pca", "mds", "kpca"]


def ragged_case(rng, kind, ls, plain=False):
    d = "," if plain else rng.choice(DELIMS)
    content = content_of_lengths(
        rng, ls, d, garbage=0.0 if plain else rng.choice([0.0, 0.0, 0.3]),
        eol="\n" if plain else rng.choice(["\n", "\n", "\n", "\r\n"]),
        final_nl=True if plain else rng.random() < 0.8, blank=0.0 if plain else rng.choice([0.0, 0.0, 0.2]))
    m = "passthru" if plain else rng.choice(RAGGED_METHODS)
    flags = [] if plain else [f for f in ("transpose-input", "transpose-output") if rng.random() < 0.3]
    if m != "passthru" and not plain and rng.random() < 0.3:
        flags.append("precompute")
    args = [("m", m), ("td", "1")] + ([("d", d)] if d != "," else []) + [(f, None) for f in flags]
    return {"kind": "file", "mode": "ragged:" + kind, "lengths": list(ls), "args": args, "content": content}


def gen_ragged_case(rng):
    kind, ls = gen_length_vector(rng)
    return ragged_case(rng, kind, ls)


def all_length_vectors(nmax, lmax, only_sum_fits=False):
    """every ragged length vector with 2..nmax rows of 0..lmax values (model-guided small exhaustive
    enumeration: the domain on which any weakened length test must differ from the per-row test)"""
    import itertools
    out = []
    for n in range(2, nmax + 1):
        for ls in itertools.product(range(lmax + 1), repeat=n):
            if ragged(ls) and (not only_sum_fits or sum(ls) == n * ls[0]):
                out.append(list(ls))
    return out


def gen_ragged_exhaustive(rng, big):
    vs = all_length_vectors(4 if big else 3, 3)
    if not big:
        vs += [v for v in all_length_vectors(4, 3, only_sum_fits=True) if len(v) == 4]
        vs += [v for v in all_length_vectors(5, 2, only_sum_fits=True) if len(v) == 5]
    return [ragged_case(rng, "exhaustive", v, plain=True) for v in vs]


def py_read(content, d):
    """independent reading of 'one row per line' (the documented meaning; final newline optional)"""
    rows = []
    for line in content.split("\n"):
        if line == "":
            continue
        toks = line.split(d)
        if toks and toks[-1] == "":
            toks = toks[:-1]
        rows.append([dbl_value(t) for t in toks if valid_token(t)])
    if rows and any(len(r) != len(rows[0]) for r in rows):
        return None
    return rows


def py_rows(content, d):
    """the parsable numbers of every non-empty line (ragged or not)"""
    rows = []
    for line in content.split("\n"):
        if line == "":
            continue
        toks = line.split(d)
        if toks and toks[-1] == "":
            toks = toks[:-1]
        rows.append([dbl_value(t) for t in toks if valid_token(t)])
    return rows


def d_of(c):
    return dict((n, v) for n, v in [tuple(a) for a in c["args"]] if v is not None).get("d", ",")[:1] or "\0"


def transpose(m):
    return [list(c) for c in zip(*m)] if m else []


def fmt(x):
    return "%g" % x


def write_text(rows, d):
    return "".join(d.join(fmt(x) for x in r) + "\n" for r in rows)


# ---- geometry of the data handed to the library ------------------------------------------------------
# "--precompute changes nothing but speed" (and "the tool writes what the library computes") must hold for
# every input file, not only for data of ordinary magnitude around the origin.  A tabulation that replaces the
# direct difference by an expanded / hoisted formula (|a|^2 + |b|^2 - 2<a,b>, differences of cached norms, float
# tables) agrees with the callback on such data and cancels catastrophically when the samples sit far from the
# origin relative to their mutual distances; squares overflow for huge magnitudes and underflow for tiny ones.
#   lattice        distinct points on a coarse dyadic lattice around the origin (double arithmetic exact)
#   offset_common  a cloud of spread 4 translated by c*(1,..,1), c = 4 * 10^e, e = 3..9 (thorough: ..12)
#   offset_percol  a different offset per column (magnitudes 1 .. 10^e, both signs, some columns untouched)
#   huge / tiny    the cloud scaled by 10^e, e in 100..300 / -300..-20 (squares overflow / underflow)
#   dups           generic data with exact duplicate samples
#   ties_scaled    an integer lattice (many exact ties) scaled by a non-power-of-two, samples permuted
#   wide           more features than samples
#   clusters       two clusters 10^3 .. 10^12 apart (weakly coupled neighbourhood graph)
GEOMETRIES = ["lattice", "offset_common", "offset_percol", "huge", "tiny", "dups", "ties_scaled", "wide", "clusters"]
OFFSET_EXPONENTS = [3, 4, 5, 6, 7, 8, 9]


def gen_points(rng, geom, big=False, exponent=None):
    n, dim = rng.choice([10, 12, 16]), rng.choice([3, 4])
    if geom == "wide":
        n, dim = rng.choice([5, 6, 8]), rng.choice([9, 12])
    if geom == "ties_scaled":
        s = rng.choice([3.0, 0.1, 1e-3, 7e5, 1.0 / 3.0])
        return [[float(rng.randrange(0, 4)) * s for _ in range(dim)] for _ in range(n)], {"scale": s}
    if rng.random() < 0.5 or geom == "lattice":
        pts = [[rng.randrange(0, 17) / 4.0 for _ in range(dim)] for _ in range(n)]
        # distinct points on a coarse dyadic lattice
        seen, base = set(), []
        for p in pts:
            while tuple(p) in seen:
                p = [x + 0.25 * rng.randrange(1, 8) for x in p]
            seen.add(tuple(p))
            base.append(p)
    else:
        base = [[rng.uniform(0.0, 4.0) for _ in range(dim)] for _ in range(n)]
    info = {}
    if geom == "offset_common":
        e = exponent if exponent is not None else rng.choice(OFFSET_EXPONENTS + ([10, 12] if big else []))
        c = 4.0 * 10.0 ** e * rng.choice([1, 1, -1])
        base = [[x + c for x in p] for p in base]
        info = {"offset_over_spread": "1e%d" % e}
    elif geom == "offset_percol":
        e = exponent if exponent is not None else rng.choice(OFFSET_EXPONENTS + ([10, 12] if big else []))
        off = [4.0 * 10.0 ** rng.choice([0, e, max(0, e - 2), e]) * rng.choice([1, -1, 0.37, 0]) for _ in range(dim)]
        if all(abs(o) < 4.0 * 10.0 ** e for o in off):
            off[rng.randrange(dim)] = 4.0 * 10.0 ** e
        base = [[x + o for x, o in zip(p, off)] for p in base]
        info = {"offset_over_spread": "1e%d" % e, "offsets": off}
    elif geom in ("huge", "tiny"):
        e = exponent if exponent is not None else \
            rng.choice([100, 150, 153, 155, 200, 300] if geom == "huge" else [-300, -200, -150, -100, -20])
        base = [[x * 10.0 ** e for x in p] for p in base]
        info = {"scale": "1e%d" % e}
    elif geom == "dups":
        for _ in range(rng.choice([1, 2, 4])):
            base[rng.randrange(n)] = list(base[rng.randrange(n)])
    elif geom == "clusters":
        gap = 10.0 ** rng.choice([3, 6, 9, 12])
        base = [[x + (gap if i % 2 else 0.0) for x in p] for i, p in enumerate(base)]
        info = {"gap": gap}
    return base, info


def num_text(x):
    """a file token that reads back as exactly this double: %g when that is lossless (the old spelling), else repr"""
    s = fmt(x)
    return s if float(s) == x else repr(float(x))


def gen_lib_case(rng, tables, geom=None, method=None, big=False, exponent=None, plain=False):
    if geom is None:
        geom = "lattice" if rng.random() < 0.4 else rng.choice(GEOMETRIES[1:])
    uniq, ginfo = gen_points(rng, geom, big, exponent)
    randomised = rng.random() < 0.4
    m = method or rng.choice(RANDOM_METHODS if randomised else DET_METHODS)
    randomised = m in RANDOM_METHODS
    if plain:
        # the --precompute sweep: one method, default-ish options, the geometry is what varies
        args = [("method", m), ("num-neighbors", str(rng.choice([4, 5, 6]))), ("target-dimension", "2")]
        if m in ("dm", "diffusion_map"):
            args.append(("timesteps", "2"))
        return {"kind": "lib", "geom": geom, "ginfo": ginfo, "args": bounded(args), "pair": True, "proj": False,
                "content": "".join(",".join(num_text(x) for x in r) + "\n" for r in uniq), "points": uniq,
                "seed": rng.randrange(1, 2 ** 31 - 1)}
    args = [(rng.choice(["m", "method"]), m)]
    args.append((rng.choice(["k", "num-neighbors"]), str(rng.choice([4, 5, 6, 8]))))
    if rng.random() < 0.6:
        args.append((rng.choice(["td", "target-dimension"]), str(rng.choice([1, 2, 2, 3]))))
    if randomised:
        args.append(("max-iters", str(rng.choice([1, 2, 5, 10]))))
        if m.startswith("t-s"):
            args.append(("sne-perplexity", rng.choice(["2", "3", "2.5"])))
            if rng.random() < 0.7:
                args.append(("sne-theta", rng.choice(["0", "0", "0.5", "0.25"])))
        if m.startswith("l-") or m.startswith("landmark"):
            args.append(("landmark-ratio", rng.choice(["0.5", "0.75", "0.4"])))
        if m in ("spe", "stochastic_proximity_embedding"):
            if rng.random() < 0.5:
                args.append(("spe-local", None))
            if rng.random() < 0.5:
                args.append(("spe-num-updates", rng.choice(["5", "20", "100"])))
            if rng.random() < 0.3:
                args.append(("spe-tolerance", rng.choice(["1e-3", "0.1"])))
        if m == "manifold_sculpting" and rng.random() < 0.5:
            args.append(("squishing-rate", rng.choice(["0.9", "0.5"])))
        if m in ("fa", "factor_analysis") and rng.random() < 0.5:
            args.append(("fa-epsilon", rng.choice(["1e-3", "0.1"])))
    if rng.random() < 0.4:
        args.append((rng.choice(["gw", "gaussian-width"]), rng.choice(["0.5", "2", "4"])))
    if rng.random() < 0.3:
        args.append(("timesteps", rng.choice(["1", "2", "3"])))
    if rng.random() < 0.3:
        args.append(("eigenshift", rng.choice(["1e-6", "1e-3", "0"])))
    if rng.random() < 0.4:
        args.append((rng.choice(["nm", "neighbors-method"]), rng.choice(["brute", "covertree", "vptree"])))   # the VP-tree draws vantage points with rand()
    if rng.random() < 0.15:
        args.append((rng.choice(["em", "eigen-method"]), rng.choice(["dense", "randomized"])))
    # --precompute: the tables hold cb(min, max), bit for bit what the direct callbacks return (norm(a-b) and dot(a,b)
    # are symmetric in binary64 too), so the random stream is consumed identically and randomised methods agree as well
    flags = [f for f in ("transpose-input", "transpose-output", "precompute") if rng.random() < 0.35]
    args += [(f, None) for f in flags]
    d = rng.choice([",", ",", " ", ";"])
    if d != ",":
        args.append(("d", d))
    # projection files: both requested (written for linear methods), or only one of them (documented: the
    # projection is written "when both files are requested": nothing must be written)
    proj = rng.choice(["both", "both", "mat", "mean"]) if (rng.random() < 0.6 and m in LINEAR) else False
    file_rows = transpose(uniq) if "transpose-input" in flags else uniq
    content = "".join(d.join(num_text(x) for x in r) + "\n" for r in file_rows)
    # pair: the tool is also run with the --precompute flag toggled; both runs must write the same text
    return {"kind": "lib", "geom": geom, "ginfo": ginfo, "args": args, "content": content, "points": uniq,
            "proj": proj, "pair": True, "seed": rng.randrange(1, 2 ** 31 - 1)}


def gen_precompute_sweep(rng, tables, big):
    """every deterministic method (each spelling) x every data geometry, plain options: the tool with and
    without --precompute (and the in-process library) on offsets 1e3 .. 1e9 times the spread, per-column
    offsets, huge / tiny magnitudes, duplicates, scaled tie lattices, wide data, separated clusters"""
    cases = []
    names = [["lle", "locally_linear_embedding"], ["ltsa"], ["hlle"], ["mds", "multidimensional_scaling"], ["isomap"],
             ["dm", "diffusion_map"], ["kpca", "kernel_pca"], ["pca"], ["la", "laplacian_eigenmaps"], ["lpp"], ["npe"],
             ["lltsa"]]
    for spell in names:
        m = rng.choice(spell)
        exps = OFFSET_EXPONENTS if big else rng.sample(OFFSET_EXPONENTS[:3], 1) + rng.sample(OFFSET_EXPONENTS[3:], 2)
        for e in exps:
            cases.append(gen_lib_case(rng, tables, "offset_common", m, big, exponent=e, plain=True))
        cases.append(gen_lib_case(rng, tables, "offset_percol", m, big, plain=True))
        for g in (["huge", "tiny", "dups", "ties_scaled", "wide", "clusters"] if big
                  else [rng.choice(["huge", "tiny"]), rng.choice(["dups", "ties_scaled", "wide", "clusters"])]):
            cases.append(gen_lib_case(rng, tables, g, m, big, plain=True))
    return cases


# ----------------------------------------------------------------------------- evaluation
def case_id(c):
    return hashlib.sha1(json.dumps(c, sort_keys=True).encode()).hexdigest()


class Checker:
    def __init__(self, ctx, tool, mexe, labels, enums):
        self.ctx, self.tool, self.mexe, self.labels, self.enums = ctx, tool, mexe, labels, enums
        self.evals = 0
        self.nontrivial = set()
        self.hist = {}
        self.samples = []

    def count(self, key):
        self.hist[key] = self.hist.get(key, 0) + 1

    # ---------------- wiring / exit codes
    def wiring(self, batch, rng=None):
        ctx = self.ctx
        encs = [enc_args(c) for c in batch]
        outs = model_batch(ctx, self.mexe, ["D " + e for e in encs] + ["S " + e for e in encs])
        dm, ds = outs[:len(batch)], outs[len(batch):]
        obs_req, obs_idx, runs = [], [], []
        for i, args in enumerate(batch):
            case = {"kind": "wiring", "args": [list(a) for a in args]}
            argv = argv_of(args, rng) + ["--debug"]
            res = self.tool.cli(argv, SMALL_DATA)
            self.evals += 1
            model, spec = parse_outcome(dm[i]), parse_outcome(ds[i])
            self.count("wiring:" + spec[0])
            runs.append((case, res, model, spec))
            if crashed(res):
                ctx.violation(case, "the tool crashed or hung (rc=%s timed_out=%s): %s" % (
                    res["rc"], res["timed_out"], res["err"][-300:]))
                continue
            echo = echo_of(res, self.labels, self.enums) if spec[0] == "run" else {}
            if spec[0] == "run" and echo:
                self.nontrivial.add(case_id(case))
            if spec[0] == "run" and not echo:
                # the echo is printed by the library before it validates anything: no echo = the tool gave up
                # (or went on) without handing the documented command line to the library
                ctx.violation(dict(case, argv=argv), "documented: this command line is valid and reaches the library; "
                              "the tool returned %d without calling it: %s" % (res["rc"], (res["err"] + res["out"])[-200:]))
                continue
            obs_req.append("O %d %s %s" % (res["rc"], encode_echo(echo, spec[1] if spec[0] == "run" else {},
                                                                   self.enums), encs[i]))
            obs_idx.append(i)
        verdicts = model_batch(ctx, self.mexe, obs_req)
        for v, i in zip(verdicts, obs_idx):
            case, res, model, spec = runs[i]
            echo = echo_of(res, self.labels, self.enums)
            if v.strip() != "OK":
                if spec[0] == "exit":
                    why = "documented: exit status non-zero for this command line; the tool returned %d" % res["rc"]
                    sig = None
                else:
                    bad = self.diff_echo(echo, spec[1])
                    why = "the library did not receive the documented parameter values: " + "; ".join(bad)
                    sig = "F40-cli-to_string-default" if bad and all(b.startswith("nullspace_shift") for b in bad) \
                        and not any(a[0] == "eigenshift" for a in case["args"]) else None
                ctx.violation(dict(case, argv=argv_of([tuple(a) for a in case["args"]]), echo=echo), why,
                              signature=sig)
            # model of the CURRENT tables against the tool
            if model[0] == "stuck":
                ctx.mismatch(case, "the model cannot interpret the generated tables (Stuck)")
            elif model[0] == "exit" and res["rc"] == 0:
                ctx.mismatch(case, "model: exit %d, tool: exit 0" % model[1])
            elif model[0] == "run" and echo:
                bad = self.diff_echo(echo, model[1])
                if bad:
                    ctx.mismatch(case, "model of the generated tables vs tool echo: " + "; ".join(bad))
        if len(self.samples) < 3 and batch:
            self.samples.append({"kind": "wiring", "argv": argv_of(batch[-1])})

    # ---------------- raw argv: cxxopts' scanner + wiring
    def rawargv(self, batch):
        ctx = self.ctx
        fin, fout = self.tool.path("in.txt"), self.tool.path("out.txt")
        runs = []
        for raw in batch:
            iterative = any(any(m == t or t.endswith(m) for m in ITERATIVE) for t in raw)
            pre = ["--debug"] + (["--max-iters", "2"] if iterative else [])
            full = ["-i", fin, "-o", fout] + pre + list(raw)
            case = {"kind": "argv", "argv": list(raw)}
            res = self.tool.cli(pre + list(raw), SMALL_DATA)
            self.evals += 1
            runs.append((case, full, res))
        enc = [readings_for(full) + " " + " ".join(hexs(t) or "-" for t in full) for _, full, _ in runs]
        outs = model_batch(ctx, self.mexe, ["A " + e for e in enc] + ["T " + e for e in enc])
        am, at = outs[:len(runs)], outs[len(runs):]
        reqs, idx = [], []
        for i, (case, full, res) in enumerate(runs):
            spec = parse_outcome(at[i])
            self.count("argv:" + spec[0])
            if crashed(res):
                ctx.violation(case, "the tool crashed or hung (rc=%s timed_out=%s): %s" % (
                    res["rc"], res["timed_out"], res["err"][-300:]))
                continue
            echo = echo_of(res, self.labels, self.enums) if spec[0] == "run" else {}
            if spec[0] == "run" and not echo:
                ctx.violation(case, "documented: this argv is valid and reaches the library; the tool returned %d "
                              "without calling it: %s" % (res["rc"], (res["err"] + res["out"])[-200:]))
                continue
            if spec[0] == "run":
                self.nontrivial.add(case_id(case))
            reqs.append("B %d %s %s" % (res["rc"], encode_echo(echo, spec[1] if spec[0] == "run" else {}, self.enums),
                                        enc[i]))
            idx.append(i)
        for v, i in zip(model_batch(ctx, self.mexe, reqs), idx):
            case, full, res = runs[i]
            spec, model = parse_outcome(at[i]), parse_outcome(am[i])
            echo = echo_of(res, self.labels, self.enums)
            if v.strip() != "OK":
                if spec[0] == "exit":
                    why = "documented: exit status non-zero for this argv; the tool returned %d" % res["rc"]
                else:
                    why = "the library did not receive the documented parameter values: " + \
                          "; ".join(self.diff_echo(echo, spec[1]))
                ctx.violation(dict(case, echo=echo), why)
            if model[0] == "stuck":
                ctx.mismatch(case, "the model cannot interpret the generated tables (Stuck)")
            elif model[0] == "exit" and (model[1] != 0) != (res["rc"] != 0):
                ctx.mismatch(case, "argv model: exit %d, tool: exit %d" % (model[1], res["rc"]))
            elif model[0] == "run" and echo:
                bad = self.diff_echo(echo, model[1])
                if bad:
                    ctx.mismatch(case, "argv model of the generated tables vs tool echo: " + "; ".join(bad))
            elif model[0] == "run" and not echo:
                ctx.mismatch(case, "argv model: the library is called; the tool printed no parameter echo (rc=%d)"
                             % res["rc"])
        if batch and len(self.samples) < 8:
            self.samples.append({"kind": "argv", "argv": batch[-1]})

    def diff_echo(self, echo, params):
        bad = []
        for kw, text in sorted(echo.items()):
            sv = params.get(kw)
            if sv is None:
                continue
            t = sv[0]
            ok = True
            try:
                if t == "b":
                    ok = text.strip() == sv[1:]
                elif t == "i":
                    ok = int(text) == int(sv[1:])
                elif t == "q":
                    ok = fmt(float(Fraction(sv[1:]))) == text.strip()
                elif t == "e":
                    ok = self.enums.get((ENUM_TYPE.get(kw, ""), text)) == sv[1:]
            except ValueError:
                ok = False
            if not ok:
                bad.append("%s: expected %s, echo [%s]" % (kw, sv, text))
        return bad

    # ---------------- files through passthru
    def files(self, cases):
        ctx = self.ctx
        reqs = ["M %s %s" % (hexs(c["content"]) or "-", enc_args([tuple(a) for a in c["args"]])) for c in cases]
        outs = model_batch(ctx, self.mexe, reqs)
        for c, mo in zip(cases, outs):
            args = [tuple(a) for a in c["args"]]
            res = self.tool.cli(argv_of(args), c["content"])
            self.evals += 1
            self.count("file:" + c.get("mode", "?"))
            if crashed(res):
                ctx.violation(c, "the tool crashed or hung on this file (rc=%s): %s" % (res["rc"], res["err"][-300:]))
                continue
            d = d_of(c)
            ti = any(n == "transpose-input" for n, _ in args)
            to = any(n == "transpose-output" for n, _ in args)
            rows = py_read(c["content"], d)
            if (rows is not None and len(rows) >= 2) or (rows is None and c.get("mode", "").startswith("ragged")):
                self.nontrivial.add(case_id(c))
            # specification: one sample per line; pass-through returns the samples
            if rows is None:
                if res["rc"] == 0:
                    small, sres = self.shrink_ragged(c, res)
                    ctx.violation(small, "rows of unequal length (%s values on the non-empty lines) but the tool exits 0 "
                                  "(output %r)" % (",".join(str(len(r)) for r in py_rows(small["content"], d_of(small))),
                                                   (sres["output"] or "")[:200]))
            elif (len(rows[0]) if (ti and rows) else len(rows)) < 2:
                # fewer than 2 samples: the library's documented range check (target_dimension in [1, N), here
                # --td 1) throws and the tool must report it
                if res["rc"] == 0:
                    ctx.violation(c, "a matrix with fewer than 2 samples is rejected by the library "
                                  "(target dimension range) but the tool exits 0: %r" % (res["output"] or "")[:200])
            else:
                want = write_text(rows if ti == to else transpose(rows), d)
                if res["rc"] != 0:
                    ctx.violation(c, "well-formed file rejected: rc=%d %s" % (res["rc"], res["err"][-200:]))
                elif res["output"] != want:
                    sig = None
                    if not c["content"].endswith("\n") and rows:
                        dup = rows + [rows[-1]]
                        if res["output"] == write_text(dup if ti == to else transpose(dup), d):
                            sig = "F41-cli-last-line-twice"
                    ctx.violation(dict(c, argv=argv_of(args), expected=want, got=res["output"]),
                                  "the output is not the matrix the file denotes (one sample per line%s%s): "
                                  "expected %r got %r" % (", --transpose-input" if ti else "",
                                                          ", --transpose-output" if to else "",
                                                          want[:120], (res["output"] or "")[:120]), signature=sig)
            # model of the current source against the tool
            mo = mo.strip()
            meth = [v for n, v in args if n in ("m", "method")]
            if mo == "STUCK":
                # the translator could not name the shape of read_data (or a table is unreadable): the
                # obligations about it are open (reported once by the Coq build); nothing to compare
                ctx.unshown("the model cannot interpret the tables generated from src/cli (cli_main is Stuck)")
            elif meth and meth[-1] != "passthru":
                # only the pass-through library is modelled: compare the exit status of the reading phase
                if mo.startswith("FAIL") and res["rc"] == 0:
                    ctx.mismatch(c, "model: %s, tool: exit 0" % mo)
            elif mo.startswith("FAIL"):
                if (int(mo.split()[1]) != 0) != (res["rc"] != 0):
                    ctx.mismatch(c, "model: %s, tool: exit %d" % (mo, res["rc"]))
            elif mo.startswith("DONE"):
                h = mo.split()[1]
                text = "" if h == "-" else bytes.fromhex(h).decode("latin-1")
                mlines = text.split("\n")[:-1] if (text.endswith("\n") or text == "") else text.split("\n")
                mrows = [[fmt(dbl_value(t)) for t in l.split(d)] if l != "" else [] for l in mlines]
                mtext = "".join(d.join(r) + "\n" for r in mrows)
                if res["rc"] != 0 or res["output"] != mtext:
                    ctx.mismatch(c, "model output %r vs tool rc=%d output %r" % (mtext[:100], res["rc"],
                                                                                (res["output"] or "")[:100]))
            else:
                ctx.mismatch(c, "model: " + mo)
        if cases and len(self.samples) < 6:
            self.samples.append({"kind": "file", "argv": argv_of([tuple(a) for a in cases[0]["args"]]),
                                 "content": cases[0]["content"]})

    def shrink_ragged(self, c, res):
        """a ragged file the tool accepted: plain spelling first (comma, LF, pass-through, no flags), then drop
        lines and trailing values greedily while the file stays ragged and accepted (at most 60 extra runs)"""
        budget = [60]

        def accepted(content, args):
            if budget[0] <= 0:
                return None
            budget[0] -= 1
            if py_read(content, d_of({"args": args})) is not None:
                return None
            r = self.tool.cli(argv_of([tuple(a) for a in args]), content)
            return r if (r["rc"] == 0 and not crashed(r)) else None

        best, bres = c, res
        rows = py_rows(c["content"], d_of(c))
        plain_args = [("m", "passthru"), ("td", "1")]

        def text(rs):
            return "".join(",".join(fmt(x) for x in r) + "\n" if r else "x\n" for r in rs)
        r = accepted(text(rows), plain_args)
        if r is None:
            return best, bres
        best, bres = {"kind": "file", "mode": "ragged:shrunk", "args": plain_args, "content": text(rows)}, r
        changed = True
        while changed and budget[0] > 0:
            changed = False
            for i in range(len(rows)):
                for cand in (rows[:i] + rows[i + 1:], rows[:i] + [rows[i][:-1]] + rows[i + 1:] if rows[i] else None):
                    if cand is None or len(cand) < 2:
                        continue
                    r = accepted(text(cand), plain_args)
                    if r is not None:
                        rows, changed = cand, True
                        best, bres = dict(best, content=text(cand)), r
                        break
                if changed:
                    break
        best["lengths"] = [len(r) for r in rows]
        return best, bres

    # ---------------- --precompute changes nothing but speed
    def lib_tool_run(self, c, args):
        proj = c.get("proj")
        proj = "both" if proj is True else proj
        extra = ["pm.txt", "pv.txt"] if proj else []
        argv = argv_of(args) + (["--opmat", self.tool.path("pm.txt")] if proj in ("both", "mat") else []) \
            + (["--opmean", self.tool.path("pv.txt")] if proj in ("both", "mean") else [])
        return argv, self.tool.cli(argv, lib_content(c, args), extra_files=extra, seed=c.get("seed"))

    @staticmethod
    def pair_differs(direct, pre):
        """two runs of the tool whose command lines differ only in --precompute: what differs (None = nothing)"""
        for name, r in (("without", direct), ("with", pre)):
            if crashed(r):
                return "the tool crashed or hung %s --precompute (rc=%s): %s" % (name, r["rc"], r["err"][-200:])
        if (direct["rc"] != 0) != (pre["rc"] != 0):
            return "exit status %d without --precompute (%s), %d with it (%s)" % (
                direct["rc"], direct["err"].strip()[-120:], pre["rc"], pre["err"].strip()[-120:])
        if direct["rc"] != 0:
            return None
        if direct["output"] != pre["output"]:
            return "embedding written without --precompute %r, with it %r" % (
                first_difference(direct["output"], pre["output"]))
        for k in sorted(set(direct["files"]) | set(pre["files"])):
            if direct["files"].get(k) != pre["files"].get(k):
                return "projection file %s without --precompute %r, with it %r" % (
                    (k,) + first_difference(direct["files"].get(k), pre["files"].get(k)))
        return None

    def pair_once(self, c, args, first=None):
        """runs the command line (unless `first` is its result already) and its --precompute toggle"""
        has = any(n == "precompute" for n, _ in args)
        other = [a for a in args if a[0] != "precompute"] if has else list(args) + [("precompute", None)]
        r1 = first if first is not None else self.lib_tool_run(c, args)[1]
        r2 = self.lib_tool_run(c, other)[1]
        return self.pair_differs(r2, r1) if has else self.pair_differs(r1, r2)

    def pair_verdict(self, c, res):
        """(why, case): why = None when the two runs agree; otherwise the case is shrunk first (options dropped
        one by one, then samples, while the two runs still differ; at most 30 extra pairs)"""
        args = [tuple(a) for a in c["args"]]
        why = self.pair_once(c, args, res)
        if why is None:
            return None, c
        best, budget = dict(c, args=[list(a) for a in args]), 30
        changed = True
        while changed and budget > 0:
            changed = False
            bargs, pts = [tuple(a) for a in best["args"]], best["points"]
            cands = [dict(best, args=[list(a) for a in bargs[:i] + bargs[i + 1:]]) for i in range(len(bargs))
                     if bargs[i][0] not in ("m", "method", "precompute", "d")]
            if len(pts) > 5:
                step = max(1, len(pts) // 4)
                cands += [dict(best, points=pts[:i] + pts[i + step:]) for i in range(0, len(pts), step)
                          if len(pts) - step >= 5]
            for cand in cands:
                if budget <= 0:
                    break
                budget -= 1
                cand.pop("content", None)
                w = self.pair_once(cand, [tuple(a) for a in cand["args"]])
                if w is not None and "crashed" not in w:
                    best, why, changed = cand, w, True
                    break
        best["content"] = lib_content(best, [tuple(a) for a in best["args"]])
        best["argv"] = argv_of([tuple(a) for a in best["args"]])
        return "--precompute changes more than speed (documented: the tables hold the values the callbacks " \
               "return): " + why, best

    # ---------------- library equivalence
    def library(self, cases):
        ctx = self.ctx
        encs = [enc_args([tuple(a) for a in c["args"]]) for c in cases]
        specs = [parse_outcome(l) for l in model_batch(ctx, self.mexe, ["S " + e for e in encs])]
        lines, idx = [], []
        for i, (c, sp) in enumerate(zip(cases, specs)):
            if sp[0] != "run":
                continue
            kv = []
            for k, v in sorted(sp[1].items()):
                t, body = v[0], v[1:]
                if t == "q":
                    body = repr(float(Fraction(body)))
                kv.append("%s=%s" % (k, body))
            pts = c["points"]
            if c.get("seed") is not None:
                kv.append("seed=%d" % int(c["seed"]))
            lines.append(" ".join(kv) + " data %d %d " % (len(pts), len(pts[0])) +
                         " ".join(float(x).hex() for p in pts for x in p))
            idx.append(i)
        r = ctx.run([self.tool.exe, "lib"], "\n".join(lines) + "\n", timeout=600, env=self.tool.env)
        blocks = re.findall(r"BEGIN \d+\n(.*?)END\n", r.out, re.S)
        if len(blocks) != len(lines):
            raise vlib.BuildError("in-process library driver failed: rc=%s blocks=%d/%d %s" % (
                r.rc, len(blocks), len(lines), r.err[-400:]))
        for b, i in zip(blocks, idx):
            c = cases[i]
            args = [tuple(a) for a in c["args"]]
            proj = c.get("proj")
            proj = "both" if proj is True else proj
            extra = ["pm.txt", "pv.txt"] if proj else []
            argv = argv_of(args) + (["--opmat", self.tool.path("pm.txt")] if proj in ("both", "mat") else []) \
                + (["--opmean", self.tool.path("pv.txt")] if proj in ("both", "mean") else [])
            res = self.tool.cli(argv, c["content"], extra_files=extra, seed=c.get("seed"))
            self.evals += 1
            meth = dict((n, v) for n, v in args if n in ("m", "method")).popitem()[1]
            self.count("lib:" + meth)
            self.count("geom:" + c.get("geom", "lattice"))
            if crashed(res):
                ctx.violation(c, "the tool crashed or hung (rc=%s): %s" % (res["rc"], res["err"][-300:]))
                continue
            d = dict((n, v) for n, v in args if v is not None).get("d", ",")[:1]
            to = any(n == "transpose-output" for n, _ in args)
            pre = any(n == "precompute" for n, _ in args)
            if c.get("pair", True):
                # "--precompute changes nothing but speed": the same command line with the flag toggled
                self.evals += 1
                self.count("pair:" + ("precompute-first" if pre else "direct-first"))
                why, small = self.pair_verdict(c, res)
                if why:
                    ctx.violation(small, why)
            if b.startswith("EXC"):
                if res["rc"] == 0:
                    ctx.violation(dict(c, argv=argv), "the library throws for the documented parameters (%s) but the "
                                  "tool exits 0" % b.strip()[:200])
                continue
            m = re.match(r"EMB (\d+) (\d+)\n", b)
            try:
                nr = int(m.group(1))
                body = b[m.end():].split("\n")
                # the in-process driver prints doubles the way the tool does (ostream, 6 significant digits): the
                # tokens are kept as text (nan / -nan / inf included), only checked to be numbers
                emb = [l.split(",") if l else [] for l in body[:nr]]
                for r in emb:
                    for x in r:
                        float(x)
            except (AttributeError, ValueError):
                ctx.mismatch(c, "in-process library printed an unreadable embedding: %r" % b[:200])
                continue
            rest = "\n".join(body[nr:])
            want = join_text(transpose(emb) if to else emb, d)
            self.nontrivial.add(case_id(c))
            why = None
            if res["rc"] != 0:
                why = "the library embeds this input with the documented parameters, the tool exits %d: %s" % (
                    res["rc"], res["err"][-200:])
            elif res["output"] != want:
                why = "the embedding written is not the one the library returns for the documented parameters: " \
                      "expected %r got %r" % (want[:160], (res["output"] or "")[:160])
            elif proj in ("mat", "mean"):
                leaked = {k: v for k, v in res["files"].items() if v}
                if leaked:
                    why = "only one projection file was requested (documented: written when both are), but the " \
                          "tool wrote %r" % {k: v[:60] for k, v in leaked.items()}
            elif proj == "both":
                pm = re.search(r"PM (\d+) (\d+)\n(.*?)PV (\d+)\n(.*)", rest, re.S)
                if pm:
                    try:
                        wpm = join_text([l.split(",") for l in pm.group(3).split("\n") if l], d)
                        wpv = "".join(l + "\n" for l in pm.group(5).split("\n") if l)
                        for x in (wpm.replace(d, "\n") + wpv).split("\n"):
                            float(x or "0")
                    except ValueError:
                        ctx.mismatch(c, "in-process library printed an unreadable projection: %r" % rest[:200])
                        continue
                    gpm, gpv = res["files"].get("pm.txt"), res["files"].get("pv.txt")
                    if gpm != wpm:
                        why = "projection matrix file: expected %r got %r" % (wpm[:120], (gpm or "")[:120])
                    elif gpv != wpv:
                        why = "projection mean file: expected %r got %r" % (wpv[:120], (gpv or "")[:120])
            if why:
                ctx.violation(dict(c, argv=argv), why)
        if cases and len(self.samples) < 8:
            self.samples.append({"kind": "lib", "argv": argv_of([tuple(a) for a in cases[0]["args"]]),
                                 "content": cases[0]["content"][:200]})


def join_text(rows, d):
    return "".join(d.join(r) + "\n" for r in rows)


def lib_content(c, args):
    """the input file of a library case: the stored text, or (shrunk cases) the points written one sample per
    line (one coordinate per line with --transpose-input) with the case's delimiter"""
    if "content" in c:
        return c["content"]
    d = dict((n, v) for n, v in args if v is not None).get("d", ",")[:1]
    rows = transpose(c["points"]) if any(n == "transpose-input" for n, _ in args) else c["points"]
    return "".join(d.join(num_text(x) for x in r) + "\n" for r in rows)


def first_difference(a, b):
    """the first lines on which two texts differ"""
    la, lb = (a or "").split("\n"), (b or "").split("\n")
    for i in range(max(len(la), len(lb))):
        x, y = la[i] if i < len(la) else None, lb[i] if i < len(lb) else None
        if x != y:
            return ("line %d: %s" % (i + 1, x))[:120], ("line %d: %s" % (i + 1, y))[:120]
    return (a or "")[:80], (b or "")[:80]


def gen_small_files(limit=None):
    """every file of at most 2 lines x 2 tokens over {number, garbage, empty} with/without final newline"""
    alphabet = ["1", "2.5", "x", "", "3z", "4e"]
    out = []
    rows1 = [[a] for a in alphabet] + [[a, b] for a in alphabet for b in alphabet]
    for r1 in rows1:
        for r2 in [None] + rows1:
            for end in ("\n", ""):
                lines = [",".join(r1)] + ([",".join(r2)] if r2 is not None else [])
                content = "\n".join(lines) + end
                out.append({"kind": "file", "mode": "small", "args": [("m", "passthru"), ("td", "1")], "content": content})
    return out if limit is None else out[:: max(1, len(out) // limit)]


def oracle_contract(ctx, ck, ipexe, rng, big, only=None):
    """the readings of option values: the REAL cxxopts parsers (harness/c20_ip.cpp) against the extracted
    int_parse (model of integer_parser<int>) and against the double reading this module supplies"""
    toks = set(DBL_TOKENS + INT_BAD + [t for l in INT_TOKENS.values() for t in l])
    for b in () if only is not None else (2 ** 31 - 1, 2 ** 31, 2 ** 31 + 1, 2 ** 32 - 1, 2 ** 32, 2 ** 32 + 5, 4772185890, 429496729, 429496730,
              477218588, 477218589, 10 ** 12):
        toks |= {str(b), "-" + str(b), hex(b), "-" + hex(b)}
    alph = "0123456789" * 3 + "abcdefABCDEFxX-+. eEgz"
    for _ in range(0 if only is not None else 20000 if big else 3000):
        c = rng.random()
        if c < 0.4:
            toks.add("".join(rng.choice(alph) for _ in range(rng.choice([1, 2, 3, 4, 5, 8, 10, 11, 12]))))
        elif c < 0.6:
            toks.add(rng.choice(["", "-"]) + str(rng.randrange(0, 2 ** 34)))
        elif c < 0.75:
            toks.add(rng.choice(["", "-"]) + "0x%x" % rng.randrange(0, 2 ** 34))
        else:
            toks.add(rng.choice(["", "-", "+", " "]) + rng.choice(["%d" % rng.randrange(0, 1000), ""]) +
                     rng.choice(["", ".", ".%d" % rng.randrange(0, 1000)]) +
                     rng.choice(["", "", "e", "e%d" % rng.randrange(0, 30), "E-%d" % rng.randrange(0, 30), "e+", "x"]))
    toks = sorted(toks) if only is None else list(only)
    hx = [hexs(t) or "-" for t in toks]
    r = ctx.run(ipexe, "\n".join(hx) + "\n", timeout=120)
    real = r.out.splitlines()
    if r.rc != 0 or len(real) != len(toks):
        raise vlib.BuildError("cxxopts oracle driver failed: rc=%s %s" % (r.rc, r.err[-300:]))
    model = model_batch(ctx, ck.mexe, ["I " + h for h in hx])
    bad = 0
    for t, ro, mo in zip(toks, real, model):
        ri, rd = ro.split()
        ck.evals += 1
        ck.count("oracle:" + ("int" if ri != "-" else "dbl" if rd != "-" else "neither"))
        pi, pd = int_reading(t), dbl_value(t)
        if mo.strip() != ri:
            bad += 1
            if bad <= 5:
                ctx.mismatch({"kind": "oracle", "token": t}, "cxxopts integer_parser reads %r as %s, the Coq model "
                             "int_parse as %s" % (t, ri, mo.strip()))
        elif ("-" if pi is None else str(pi)) != ri:
            bad += 1
            if bad <= 5:
                ctx.mismatch({"kind": "oracle", "token": t}, "checks/c20.py int_reading(%r) = %s, cxxopts: %s" % (t, pi, ri))
        elif (pd is None) != (rd == "-") or (pd is not None and float.fromhex(rd) != pd):
            bad += 1
            if bad <= 5:
                ctx.mismatch({"kind": "oracle", "token": t}, "`stringstream >> double` reads %r as %s, the oracle "
                             "of checks/c20.py as %s" % (t, rd, pd))
        elif ri != "-":
            ck.nontrivial.add(case_id({"kind": "oracle", "token": t}))
    if len(ck.samples) < 10:
        ck.samples.append({"kind": "oracle", "tokens": toks[:: max(1, len(toks) // 8)][:8]})


def help_contract(ctx, tool, tables):
    """the option table the translator read against the table cxxopts actually registered (--help):
    every first spelling is listed, flags take no argument, defaults print as the translator says"""
    r = ctx.run([tool.exe, "cli", "--help"], "", timeout=60)
    text = r.out
    if r.rc == 0 or "Usage" not in text:
        return ["--help: rc=%d, no usage text" % r.rc]
    text = re.sub(r"\s*\n\s{20,}", " ", text)            # unwrap continuation lines
    bad = []
    for names, dflt in tables.get("options", []):
        first = names[0]
        pat = (r"^\s+-%s, --%s" % (re.escape(first), re.escape(names[1]))) if len(first) == 1 and len(names) > 1 \
            else r"^\s+--%s" % re.escape(first)
        m = re.search(pat + r"( arg)?\s.*$", text, re.M)
        if not m:
            bad.append("option %s is not listed by --help" % first)
            continue
        line = m.group(0)
        if (dflt[0] == "DFlag") == bool(m.group(1)):
            bad.append("option %s: flag/argument status differs from the translated table" % first)
        dm = re.search(r"\(default: (.*)\)\s*$", line)
        if dflt[0] == "DStr" and (not dm or dm.group(1) != dflt[1]) and dflt[1] != "":
            bad.append("option %s: help default %r, translated %r" % (first, dm and dm.group(1), dflt[1]))
        if dflt[0] in ("DInt", "DDbl"):
            want = Fraction(dflt[1])
            if str(tables.get("numfmt")) .find("FmtToString") >= 0:
                want = Fraction(Decimal("%.6f" % float(want)))
            try:
                got = Fraction(Decimal(dm.group(1))) if dm else None
            except Exception:
                got = None
            if got is None or canon(float(got)) != canon(float(want)):
                bad.append("option %s: help default %r, translated %s" % (first, dm and dm.group(1), want))
    return bad


# ----------------------------------------------------------------------------- entry points
def prepare(ctx):
    """translator, Coq, extraction, C++ (the C++ build runs while Coq builds)"""
    tr = load_translator(ctx)
    gen = os.path.join(ctx.verif, "coq", "gen", "Cli.v")
    tables = None
    try:
        tables = tr.translate(ctx.repo)
        tr.write_if_changed(gen, tr.emit(tables))
    except tr.TranslateError as ex:
        ctx.unshown("translate/t_cli.py cannot read src/cli of the working tree: %s" % ex)
    except OSError as ex:
        raise vlib.BuildError("src/cli is not readable: %s" % ex)
    box = {}

    def build():
        try:
            san = not ctx.quick
            box["ip"] = ctx.cpp("harness/c20_ip.cpp", name="c20_ip", sanitize=False)
            # quick: -O0 with AddressSanitizer and libstdc++ assertions (45 s to build, 27 ms per run);
            # thorough: vlib's -O1 -g ASan + UBSan build (about 4 minutes to build)
            box["exe"] = ctx.cpp("harness/c20.cpp", name="c20", sanitize=san,
                                 extra=["-I", os.path.join(ctx.repo, "src")] + ([] if san else [
                                     "-O0", "-fsanitize=address", "-fno-sanitize-recover=all", "-D_GLIBCXX_ASSERTIONS"]))
        except Exception as ex:          # re-raised in the main thread
            box["err"] = ex

    th = threading.Thread(target=build)
    th.start()
    t0 = ctx.elapsed()
    coq = ctx.coq()
    t1 = ctx.elapsed()
    mexe = None
    try:
        mexe = ctx.extract()
    except vlib.BuildError as ex:
        box.setdefault("merr", ex)
    t2 = ctx.elapsed()
    th.join()
    ctx.note("prepare: translator %.1fs, coq (make + Print Assumptions, incl. waiting for the build lock) %.1fs, "
             "extraction + ocamlopt %.1fs, waiting for g++ %.1fs" % (t0, t1 - t0, t2 - t1, ctx.elapsed() - t2))
    if "err" in box:
        raise box["err"] if isinstance(box["err"], vlib.BuildError) else vlib.BuildError(str(box["err"]))
    if mexe is None:
        raise box["merr"]
    ctx.c20_ip = box.get("ip")
    return tr, tables, coq, mexe, box["exe"]


def restore_generated(ctx):
    """coq/gen/Cli.v is a build product of the tree under test; after a run against a scratch worktree put
    the translation of the default repository back so that the committed development keeps building"""
    default = "/repo"
    if os.path.realpath(ctx.repo) == os.path.realpath(default) or not os.path.exists(
            os.path.join(default, "src/cli/main.cpp")):
        return
    try:
        tr = load_translator(ctx)
        tr.write_if_changed(os.path.join(ctx.verif, "coq", "gen", "Cli.v"), tr.emit(tr.translate(default)))
    except Exception:
        pass


def run(ctx):
    try:
        run_inner(ctx)
    finally:
        restore_generated(ctx)


def run_inner(ctx):
    rng = ctx.rng
    tr, tables, coq, mexe, exe = prepare(ctx)
    if tables is None:
        # the tables of the pristine layout steer the generators; the tool itself is still tested
        tables = tr.translate("/repo") if os.path.exists("/repo/src/cli/main.cpp") else {"options": [], "maps": []}
    if not ctx.quick:
        r = ctx.run(["python3", os.path.join(ctx.verif, "translate", "t_cli.py"), "--self-test", "--repo", ctx.repo],
                    "", timeout=300)
        if r.rc != 0:
            ctx.unshown("translator self-test failed: " + r.out[-300:])
    labels, enums = keyword_labels(ctx.repo), enum_names(ctx.repo)
    tool = Tool(ctx, exe)
    ck = Checker(ctx, tool, mexe, labels, enums)
    times = {"prepare_s": round(ctx.elapsed(), 1)}
    try:
        # corpus first
        for name, c in ctx.corpus():
            replay_case(ck, c)
        big = (not ctx.quick) or ctx.is_unshown()
        for b in help_contract(ctx, tool, tables):
            ctx.mismatch({"kind": "help"}, "translator vs registered option table: " + b)
        oracle_contract(ctx, ck, ctx.c20_ip, rng, big)
        ck.wiring(gen_single_option_cases(tables))
        ck.wiring([gen_random_args(rng, tables) for _ in range(600 if big else 120)], rng)
        ck.rawargv(QUIRK_ARGVS + [gen_raw_argv(rng, tables) for _ in range(500 if big else 100)])
        times["wiring_done_s"] = round(ctx.elapsed(), 1)
        ck.files([gen_file_case(rng) for _ in range(800 if big else 160)])
        ck.files(gen_small_files(None if big else 60))
        # malformed stream: rows of unequal length in every shape, then every small length vector
        ck.files([gen_ragged_case(rng) for _ in range(600 if big else 150)])
        ck.files(gen_ragged_exhaustive(rng, big))
        times["files_done_s"] = round(ctx.elapsed(), 1)
        ck.library([gen_lib_case(rng, tables, big=big) for _ in range(300 if big else 60)])
        # --precompute vs direct (and vs the in-process library): every deterministic method x data geometry
        ck.library(gen_precompute_sweep(rng, tables, big))
        times["library_done_s"] = round(ctx.elapsed(), 1)
        if ctx.is_unshown() and not big:
            # search phase: an obligation or the correspondence broke during the run
            ck.wiring([gen_random_args(rng, tables) for _ in range(500)], rng)
            ck.files([gen_file_case(rng) for _ in range(600)])
            ck.files([gen_ragged_case(rng) for _ in range(600)])
            ck.files(gen_ragged_exhaustive(rng, True))
            ck.library([gen_lib_case(rng, tables, big=True) for _ in range(200)])
            ck.library(gen_precompute_sweep(rng, tables, True))
    finally:
        shutil.rmtree(tool.dir, ignore_errors=True)
    ctx.finish(
        evaluations=ck.evals, distinct_nontrivial=len(ck.nontrivial),
        rule="one evaluation = one run of the rebuilt tool compared with the extracted specification and model "
             "(oracle stream: one token through the real cxxopts parsers, the extracted int_parse and the double "
             "oracle; non-trivial = accepted as an int). "
             "wiring: every option spelling once with a valid and a malformed value, every method name, then "
             "random option mixes (non-trivial = the specification says Run and the --debug echo was compared); "
             "files: random token matrices through passthru (non-trivial = at least 2 rows accepted by the "
             "independent reader, or a ragged file from the malformed stream, which must be rejected); library: deterministic and seeded randomised methods vs in-process calls, exact text, "
             "plus the same command line with --precompute toggled (one more evaluation; the two runs must write the same "
             "text), over the data geometries of the histogram keys geom:* (non-trivial = library returned an embedding). distinct by hash of the case.",
        samples=ck.samples, histogram=ck.hist, trusted_base=TRUSTED, assumptions=ASSUMPTIONS,
        extra={"traces_validated_against_impl": ck.evals, "phase_times": times,
               "translator_tables": {"options": len(tables.get("options", [])), "exits": len(tables.get("exits", [])),
                                     "wiring": len(tables.get("wiring", [])),
                                     "numfmt": str(tables.get("numfmt")), "read_loop": tables.get("read_loop"),
                                     "read_check": str(tables.get("read_check")), "mfc": str(tables.get("mfc"))}})


def replay_case(ck, c):
    kind = c.get("kind")
    if kind == "wiring":
        ck.wiring([[tuple(a) for a in c["args"]]])
    elif kind == "file":
        ck.files([c])
    elif kind == "lib":
        ck.library([c])
    elif kind == "argv":
        ck.rawargv([c["argv"]])
    elif kind == "oracle" and getattr(ck.ctx, "c20_ip", None):
        oracle_contract(ck.ctx, ck, ck.ctx.c20_ip, None, False, only=[c.get("token", "")])


def replay(ctx, case):
    try:
        return replay_inner(ctx, case)
    finally:
        restore_generated(ctx)


def replay_inner(ctx, case):
    tr, tables, coq, mexe, exe = prepare(ctx)
    tool = Tool(ctx, exe)
    ck = Checker(ctx, tool, mexe, keyword_labels(ctx.repo), enum_names(ctx.repo))
    try:
        replay_case(ck, case)
    finally:
        shutil.rmtree(tool.dir, ignore_errors=True)
    for c, why in ctx._violations[:3]:
        print("  " + str(why)[:600])
    for c, d in ctx._mismatches[:3]:
        print("  mismatch: " + str(d)[:600])
    if ctx.has_violation() or ctx._mismatches:
        print("replay: property C20 FAILS on this case")
        return 1
    print("replay: property C20 holds on this case")
    return 0
