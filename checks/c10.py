"""C10 — NPE, LLTSA and LPP solve the full feature-space generalised eigenproblem.

proof  : coq/Pencil_Model.v (executable model of construct_neighborhood_preserving_eigenproblem,
         construct_lltsa_eigenproblem, construct_locality_preserving_eigenproblem with Eigen's
         triangle semantics, of the dense generalised front end's column selection, of compute_mean
         and project), coq/Pencil_Spec.v, coq/Pencil_Proof*.v, coq/Properties_C10.v.
tie    : K  exact stream: the three construct_* routines are called directly on dyadic feature
            matrices and harness-chosen dyadic sparse matrices; the FULL tables they return are
            compared exactly with the extracted model (Qc) and the extracted decision procedures
            spec_construct_b (what the solver reads) and spec_full_b (both triangles) are run on
            the implementation's own tables; every case also "in other units" (W / L, degree
            vector, features times powers of two in 2^-70 .. 2^70: the problem is homogeneous);
         G  oracle contract of Eigen::GeneralizedSelfAdjointEigenSolver as used by
            generalized_eigendecomposition (which triangle is read, A V = B V L, V^T B V = I,
            ascending, columns 0..d-1 selected);
         J  exact stream: compute_mean and project of routines/pca.hpp called directly on dyadic data and
            compared exactly with the extracted model (project_stream_spec: mean = sample mean,
            embedding = P^T (x - mean), columns sum to zero);
         E  public API (tapkee::embed): generalised-eigen residual / Rayleigh quotients against an
            independently built X M X^T, X B X^T (plain loops), B-orthonormality, embedding =
            centred samples projected, rotation pairs X -> R X (embedding unchanged up to column
            sign, projection matrix rotated); LPP over kernel widths spanning 40 decades of heat
            weights; eigen_method Dense / not given / Randomized (refused).
         Wave 3 — large OFFSET relative to the spread (offset / spread 1e3 .. 1e12), common and per feature:
         K: offset a power of two, spread small integers, sizes chosen (k_exact_ok) so that the arithmetic of the code
            (LLTSA: mean first, then everything from x - mean) is EXACT in binary64 while the intermediate sums of an
            expanded / hoisted formula (sum x x^T - N m m^T) exceed 2^53: such a formula shows as an exact mismatch.
            Theorem lltsa_rhs_one_pass_equal: both formulas are EQUAL over an exact field, so the exact model cannot
            tell them apart; the distinction is purely numerical and is decided by these inputs and by
         E: translated features x = x0 + t (exact translation on a dyadic grid, |t| up to 1e8 spreads) with the kernel
            / distance callbacks on x0 (all ratios) or on x0 + t (ratios <= 1e4); the pencil recorded inside embed()
            is compared with the plain-loop reference norm-wise relative to |X| |M| |X|^T (LLTSA: centred features);
            LLTSA: projection matrix and embedding equal those of the untranslated twin up to column sign
            (lltsa_translation_invariant); NPE / LPP (not translation invariant): residual / Rayleigh / Gram against
            the reference pencil of the same translated data, tolerances relative to cond(X B X^T);
         also: exact duplicate samples, embed() called inside an OpenMP parallel region, feature values whose squares
         overflow (an exception or a matrix, never a crash).
search : larger budgets of the same streams (the K stream's spec check is itself exact).
"""
import hashlib
import json
import math
import threading
from fractions import Fraction

import vlib

PROPERTY = "C10"
METHODS = ("npe", "lltsa", "lpp")
NV = 4   # model variants asked per exact case: current, before F42, before F25, before F9

TRUSTED = [
    "translate/t_eig.py (owned by C05; regenerates coq/gen/EigSelect.v from the tree under test) — trusted to report "
    "the selection expressions of generalized_eigendecomposition.hpp; Pencil_Proof_Tie.v ties the model's selector to it",
    "hand-written model Pencil_Model.v tied by exact differential testing on dyadic inputs (not a proof about the C++ text)",
    "Eigen oracles (DESIGN 1.3): selfadjointView<Upper>().rankUpdate writes only entries i<=j; "
    "DenseMatrix(selfadjointView<Upper>()) materialises both triangles; GeneralizedSelfAdjointEigenSolver reads "
    "lower triangles and returns A V = B V diag(l), V^T B V = I, V (V^T B) = I, ascending l — assumed as "
    "`oracle_contract` / `full_contract` in the *_solution and optimality theorems, validated at run time by the "
    "G stream (tolerance 1e-8)",
    "IEEE rounding: models compute in exact rationals; exact stream uses dyadic inputs (every + - * and the "
    "division by N = 2^k is exact in binary64); the public-API stream is compared within stated tolerances",
    "the alignment / weight / Laplacian matrices M, D come from the library's own routines "
    "(linear_weight_matrix, tangent_weight_matrix, compute_laplacian: properties C08/C09), called by the harness",
    "minimality of the selected eigenvalues is proved (generalised Ky Fan, selected_columns_optimal) FROM the "
    "oracle's full contract; that Eigen's answer meets the contract is validated per run (G stream) and the "
    "Rayleigh quotients of the returned columns are compared with a reference spectrum (E stream)",
    "exact stream in other units (+scaled cases): inputs multiplied by powers of two for the implementation and its "
    "tables divided by the corresponding powers of two (Python Fractions, exact) before the extracted decision "
    "procedures judge them on the case in its own units — justified by the theorems npe/lltsa/lpp_scale_equivariant and "
    "generalised_problem_scale_free",
    "Pencil_Model.embed_front (dispatch of generalized_eigendecomposition on eigen method / strategies) is hand-modelled; "
    "tied by: Randomized is refused with unsupported_method_error, Dense / default reach the dense branch with "
    "SmallestEigenvalues (recorded call chain); ARPACK / ViennaCL builds are not modelled",
    "large-offset exact cases: checks/c10.py k_exact_ok (a Python bound: sum of |terms| / common granularity < 2^53 for "
    "every sum the CURRENT formulas form) decides which offsets are exact in binary64; the one-pass and the two-pass "
    "right-hand side of LLTSA are equal over every field (theorem lltsa_rhs_one_pass_equal), so that the exact model "
    "cannot separate them: only binary64 inputs where one is exact and the other is not, and the tolerance stream "
    "(pencil comparison 1e-10 norm-wise relative to |X| |M| |X|^T, translation pairs), do",
    "extraction (ExtrOcamlBasic only) + OCaml 4.13.1 + coq/extract/c10_driver.ml (parsing/printing)",
    "harness/c10.cpp (drivers, plain-loop reference arithmetic in command R); g++ ASan/UBSan/_GLIBCXX_ASSERTIONS",
]
ASSUMPTIONS = [
    "feature values finite; sparse indices < N; N >= 1",
    "public-API stream: N > D (pencil right-hand sides nonsingular), eigenvalue gaps > 1e-3 relative for the "
    "rotation comparison (inside a numerically multiple eigenvalue the basis is free)",
    "public-API comparisons are made for cond(X B X^T) <= 1e9 only, with tolerances growing like 1e4*eps*cond",
    "translated public-API cases: NPE / LPP beyond cond(X B X^T) = 1e9 (offset / spread >~ 1e4) are judged only on "
    "the recorded pencil, the stored mean and embedding = P^T (x - mean); non-finite answers are not judged when "
    "cond(X B X^T) > 1e13 (right-hand side singular in binary64); LLTSA is judged in full at every offset",
    "feature values whose squares overflow binary64: any documented exception or any matrix is accepted",
    "eigen_method: Dense, not given (= Dense in a build without ARPACK) and Randomized (refused by the library for "
    "generalised problems with unsupported_method_error: accepted as a refusal, any returned result is judged like "
    "the others); the ARPACK path is not built here",
]

EM_NAMES = ("", ", eigen_method not given", ", eigen_method = Randomized", ", called inside an OpenMP parallel region")
RES_TOL = 1e-6      # relative generalised-eigen residual (defects F9/F25 give 1e-2 .. 1)
RQ_TOL = 1e-6       # Rayleigh quotient against the reference spectrum, relative to its spread
GRAM_TOL = 1e-6
EMB_TOL = 1e-9
ROT_TOL = 1e-5      # 1 - |cos| between embedding columns of X and R X
GAP_MIN = 1e-3
CHAIN_TOL = 1e-6    # recorded pencil vs the routine called by the harness (observed <= 3e-9: OpenMP triplet order)
COND_MAX = 1e9      # cond(X B X^T) beyond which the public-API spectral comparison is skipped (counted)
SINGULAR_COND = 1e13  # cond(X B X^T) beyond which the rhs is singular in binary64 for a Cholesky-based solver (non-finite answers not judged)
PENCIL_TOL = 1e-10  # recorded pencil vs plain-loop reference, norm-wise relative to |X| |M| |X|^T (direct summation: <= 1e-11)


# ----------------------------------------------------------------------------- numbers
def frac_token(x):
    x = Fraction(x)
    s = "-" if x < 0 else ""
    return "%s%s/%s" % (s, bin(abs(x.numerator))[2:], bin(x.denominator)[2:])


def token_frac(t):
    neg = t.startswith("-")
    if neg:
        t = t[1:]
    a, b = t.split("/")
    v = Fraction(int(a, 2), int(b, 2))
    return -v if neg else v


def fs(x):
    """Fraction -> json string"""
    x = Fraction(x)
    return "%d/%d" % (x.numerator, x.denominator)


def sf(s):
    return Fraction(s)


def hexf(x):
    return float(x).hex()


def parse_hex(tok):
    """hex float token -> float (may be nan/inf)"""
    try:
        return float.fromhex(tok)
    except (ValueError, OverflowError):
        try:
            return float(tok)
        except ValueError:
            return float("nan")


# ----------------------------------------------------------------------------- K stream
def gen_k_case(rng, method, kind):
    if method == "lltsa":
        N = rng.choice([1, 2, 2, 4, 4, 4, 8, 8, 16, 32])
    else:
        N = rng.choice([1, 2, 3, 4, 5, 6, 7, 8, 9, 12, 17, 30])
    D = rng.choice([1, 2, 2, 3, 3, 4, 5, 6, 9, 13])
    if kind == "large":
        # beyond the sizes at which Eigen switches from its small-matrix paths to the blocked / vectorised kernels
        N, D = rng.choice([(32, 17), (32, 24), (64, 17), (16, 33)])
    sh = rng.choice([0, 0, 1, 2])
    off = [Fraction(rng.choice([0, 0, 0, 3, -5, 16]), 1) for _ in range(D)]
    X = [[Fraction(rng.randint(-8, 8), 2 ** sh) + off[f] for _ in range(N)] for f in range(D)]   # feature major
    if kind == "correlated" and D >= 2:
        for f in range(1, D):
            a = rng.choice([1, 2, -1])
            X[f] = [a * X[0][s] + Fraction(rng.randint(-1, 1), 2) for s in range(N)]
    if kind == "zero":
        X = [[Fraction(0)] * N for _ in range(D)]
    W = []
    if kind == "empty":
        nnz = 0
    else:
        nnz = rng.randint(1, 3 * N + 2)
    for _ in range(nnz):
        r, c = rng.randrange(N), rng.randrange(N)
        v = Fraction(rng.randint(-6, 6), 2 ** rng.choice([0, 0, 1, 2]))
        W.append((r, c, v))
    if kind == "symmetric":
        W = W + [(c, r, v) for (r, c, v) in W]
    if kind == "alignment":
        # rows and columns sum to zero: sum of (e_r - e_c)(e_r - e_c)^T
        W2 = []
        for (r, c, v) in W:
            W2 += [(r, r, v), (c, c, v), (r, c, -v), (c, r, -v)]
        W = W2
    dv = [Fraction(rng.randint(0, 9), 2 ** rng.choice([0, 1])) for _ in range(N)] if method == "lpp" else []
    return {"kind": "K", "gen": kind, "method": method, "N": N, "D": D,
            "X": [[fs(v) for v in row] for row in X],
            "W": [[r, c, fs(v)] for (r, c, v) in W], "dv": [fs(v) for v in dv]}


def _gran(vals):
    """granularity of a set of dyadic rationals: every value is an integer multiple of the returned power of two"""
    d = 1
    for v in vals:
        d = max(d, Fraction(v).denominator)
    return Fraction(1, d)


def k_exact_ok(c):
    """is the routine's own arithmetic EXACT in binary64 on this case, whatever the order of its additions?
    Sufficient condition: every sum the code forms is a sum of terms that are integer multiples of a common power of
    two g with sum of absolute values M, and M / g < 2^53 (then every partial sum, in any order, with or without fused
    multiply-add, is a representable number).  NPE / LPP: the terms are dv_s x_is x_js and v (x_ri x_cj + x_ci x_rj)
    on the features as given; LLTSA (fix F42): the feature sums, the mean (N a power of two) and then the same terms
    on the CENTRED features x - mean.  An expanded / hoisted formula (sum x x^T - N m m^T) is NOT covered by this
    bound on purpose: with a large common offset its intermediate sums exceed 2^53 while the centred ones stay small
    integers, so that it shows as an exact mismatch."""
    lim = 2 ** 53
    N, D, m = c["N"], c["D"], c["method"]
    X = [[sf(v) for v in row] for row in c["X"]]
    W = [(r, cc, sf(v)) for r, cc, v in c["W"]]
    if m == "lltsa":
        if N < 1 or N & (N - 1):
            return False
        gx = _gran(v for row in X for v in row)
        for f in range(D):
            if sum(abs(v) for v in X[f]) / gx >= lim:
                return False
            mu = sum(X[f]) / N
            if abs(mu) / (gx / N) >= lim:
                return False
            X[f] = [v - mu for v in X[f]]
    gx = _gran(v for row in X for v in row)
    gw = _gran(v for _, _, v in W)
    dv = [sf(v) for v in c["dv"]] if m == "lpp" else [Fraction(1)] * N
    gd = _gran(dv)
    ax = [[abs(v) for v in row] for row in X]
    for i in range(D):
        for j in range(i, D):
            if sum(abs(dv[t]) * ax[i][t] * ax[j][t] for t in range(N)) / (gd * gx * gx) >= lim:
                return False
            if sum(abs(v) * (ax[i][r] * ax[j][cc] + ax[i][cc] * ax[j][r]) for r, cc, v in W) / (gw * gx * gx) >= lim:
                return False
    return True


def gen_k_offset_case(rng, method, per_feature):
    """exact case with a large OFFSET relative to the spread (Wave 3): every feature value is offset_f + a with
    offset_f = +-m 2^p (m in {1, 3, 5}) and a a small integer (LLTSA: multiple of 1/2 as well), offset / spread about
    1e3 .. 1e12 for LLTSA (which centres the features: p up to 44) and 1e3 .. 1e5 for NPE / LPP (whose tables contain
    offset^2 themselves: p up to about 18), common to all features or per feature (some features not offset).  The
    largest p <= the drawn one for which k_exact_ok holds is used, so model and implementation must agree EXACTLY."""
    if method == "lltsa":
        N = rng.choice([2, 4, 8, 8, 16, 32])
        plo, phi = 10, 44
        sh = rng.choice([0, 0, 1])
    else:
        N = rng.choice([2, 3, 4, 5, 7, 8, 12])
        plo, phi = 10, 20
        sh = 0
    D = rng.choice([1, 2, 2, 3, 3, 4, 5])
    spread = rng.choice([1, 2, 4, 8])
    base = [[Fraction(rng.randint(-spread, spread), 2 ** sh) for _ in range(N)] for _ in range(D)]
    if D >= 2 and rng.random() < 0.3:
        base[1] = [2 * v for v in base[0]]                     # correlated features
    W = []
    for _ in range(rng.randint(1, 2 * N + 2)):
        r, cc = rng.randrange(N), rng.randrange(N)
        W.append((r, cc, Fraction(rng.randint(-3, 3), 2 ** rng.choice([0, 0, 1]))))
    wk = rng.choice(["plain", "symmetric", "alignment"])
    if wk == "symmetric":
        W = W + [(cc, r, v) for (r, cc, v) in W]
    if wk == "alignment":
        W2 = []
        for (r, cc, v) in W:
            W2 += [(r, r, v), (cc, cc, v), (r, cc, -v), (cc, r, -v)]
        W = W2
    dv = [Fraction(rng.randint(0, 9), 2 ** rng.choice([0, 1])) for _ in range(N)] if method == "lpp" else []
    p = rng.randint(plo, phi)
    sg = [rng.choice([1, -1]) * rng.choice([1, 1, 3, 5]) for _ in range(D)]
    dp = [rng.randint(0, 6) for _ in range(D)]
    on = [True] * D
    if per_feature:
        on = [rng.random() < 0.6 for _ in range(D)]
        on[rng.randrange(D)] = True
    while True:
        off = [Fraction(sg[f] * 2 ** max(p - (dp[f] if per_feature else 0), 0)) if on[f] else Fraction(0)
               for f in range(D)]
        X = [[base[f][t] + off[f] for t in range(N)] for f in range(D)]
        c = {"kind": "K", "gen": "offset-per-feature" if per_feature else "offset-common", "method": method,
             "N": N, "D": D, "offset_log2": p, "spread": spread,
             "X": [[fs(v) for v in row] for row in X],
             "W": [[r, cc, fs(v)] for (r, cc, v) in W], "dv": [fs(v) for v in dv]}
        if p <= 0 or k_exact_ok(c):
            return c
        p -= 1


# powers of two by which the stored entries / the degree vector / the features are multiplied (1e-12 ~ 2^-39.9)
K_SCALES_W = (-70, -60, -50, -45, -42, -41, -40, -39, -38, -35, -30, -20, -10, 10, 20, 40, 70)
K_SCALES_X = (0, 0, 0, -70, -30, -20, -8, 8, 20, 30, 70)


def scale_k_case(rng, c):
    """the same exact case in other units: the implementation is given the stored entries of W / L times 2^a, the
    degree vector times 2^b (mostly b = a: a common factor on L and D leaves the generalised problem unchanged) and
    the features times 2^s.  Powers of two keep the binary64 arithmetic exact.  The routines are homogeneous
    (theorems npe/lltsa/lpp_scale_equivariant: tables times 2^(2s+a) and 2^(2s+b) [2^(2s) for the right-hand sides of
    NPE / LLTSA]) and the generalised problem is scale free (generalised_problem_scale_free): the tables the
    implementation returns are divided by these factors (exactly, in Python) and handed to the extracted decision
    procedure together with the case in its original units."""
    a = rng.choice(K_SCALES_W)
    b = a if rng.random() < 0.7 else rng.choice(K_SCALES_W)
    sx = rng.choice(K_SCALES_X)
    c2 = dict(c)
    c2["gen"] = c["gen"] + "+scaled"
    c2["scale"] = {"w": a, "dv": b, "x": sx}
    return c2


def k_scale(c):
    """(factor on the features, on W / L, on the degree vector, on the lhs table, on the rhs table)"""
    sc = c.get("scale") or {}
    try:
        a, b, sx = int(sc.get("w", 0)), int(sc.get("dv", 0)), int(sc.get("x", 0))
    except (TypeError, ValueError):
        a = b = sx = 0
    two = Fraction(2)
    return (two ** sx, two ** a, two ** b, two ** (2 * sx + a),
            two ** (2 * sx + (b if c["method"] == "lpp" else 0)))


def gen_k_malformed(rng, method):
    c = gen_k_case(rng, method, "plain")
    N = c["N"]
    c["W"].append([N + rng.randint(0, 2), 0, "1/1"] if rng.random() < 0.5 else [0, N, "1/2"])
    c["gen"] = "malformed-index"
    return c


def k_line_impl(c):
    N, D = c["N"], c["D"]
    fx, fw, fd, _, _ = k_scale(c)
    X = [[sf(v) * fx for v in row] for row in c["X"]]
    xs = " ".join(hexf(X[f][s]) for s in range(N) for f in range(D))
    w = " ".join("%d %d %s" % (r, cc, hexf(sf(v) * fw)) for r, cc, v in c["W"])
    dv = " ".join(hexf(sf(v) * fd) for v in c["dv"])
    return "K %s %d %d %s %d %s %s" % (c["method"], N, D, xs, len(c["W"]), w, dv)


def k_body_model(c):
    X = " ".join(frac_token(sf(v)) for row in c["X"] for v in row)
    w = " ".join("%d %d %s" % (r, cc, frac_token(sf(v))) for r, cc, v in c["W"])
    dv = " ".join(frac_token(sf(v)) for v in c["dv"])
    return "%s %d %d %s %d %s %d %s" % (c["method"], c["N"], c["D"], X, len(c["W"]), w, len(c["dv"]), dv)


class ImplDied(Exception):
    pass


def run_lines(ctx, exe, lines, timeout):
    """run a driver that prints `C <idx>` before each case; returns (list of result line or None, info)
    where info[i] is None or a crash/timeout description for the case the process died in."""
    results = [None] * len(lines)
    info = [None] * len(lines)
    start = 0
    guard = 0
    while start < len(lines) and guard < 50:
        guard += 1
        try:
            r = ctx.run(exe, "\n".join(lines[start:]) + "\n", timeout=timeout)
        except OSError:
            # the binary cache was cleaned under our feet (a concurrent cold-cache run): build it again
            rebuild = REBUILD.get(exe)
            if rebuild is None:
                raise vlib.BuildError("harness binary %s vanished" % exe)
            exe2 = rebuild()
            REBUILD[exe2] = rebuild
            exe = exe2
            r = ctx.run(exe, "\n".join(lines[start:]) + "\n", timeout=timeout)
        cur = None
        for line in r.out.splitlines():
            if line.startswith("C "):
                try:
                    cur = start + int(line[2:])
                except ValueError:
                    cur = None
                if cur is not None and not (0 <= cur < len(lines)):
                    cur = None
            elif cur is not None and results[cur] is None and line[:2] in ("K ", "G ", "E ", "R ", "J ", "? "):
                results[cur] = line
        if r.rc == 0 and not r.timed_out:
            break
        died = cur if cur is not None else start
        if results[died] is not None and died + 1 < len(lines) and not r.timed_out:
            # finished that case and died before announcing the next one
            died = died + 1
        results[died] = None
        info[died] = ("timeout after %ds" % timeout) if r.timed_out else \
            " ".join((r.sanitizer or r.err[-600:] or "exit code %d" % r.rc).replace("=" * 10, "").split())
        start = died + 1
        if r.timed_out:
            # one hang is a verdict; do not wait for every later case to hang as well
            for k in range(start, len(lines)):
                info[k] = SKIPPED
            break
    for i in range(len(lines)):
        if results[i] is None and info[i] is None:
            info[i] = "no output for this case"
    return results, info


SKIPPED = "skipped: not run after an earlier case of the same batch hung"
REBUILD = {}    # path of a harness binary -> function that builds it again


def mrun(ctx, mexe, text, timeout=600):
    """run the extracted model driver; re-extract once if the build directory was cleaned meanwhile"""
    try:
        return ctx.run(mexe, text, timeout=timeout)
    except OSError:
        rebuild = REBUILD.get(mexe)
        if rebuild is None:
            raise vlib.BuildError("model driver %s vanished" % mexe)
        return ctx.run(rebuild(), text, timeout=timeout)


def parse_tagged(line, tags):
    w = line.split()
    out, cur = {}, None
    for t in w[2:]:
        if t in tags:
            cur = t
            out[cur] = []
        elif cur is not None:
            out[cur].append(t)
    return out


def classify_tables(impl, models):
    for name, m in models.items():
        if m is not None and impl == m:
            return name
    return None


def eval_k(ctx, exe1, mexe, cases, stats, reads="lower"):
    """exact stream. returns number evaluated"""
    if not cases:
        return 0
    lines = [k_line_impl(c) for c in cases]
    res, info = run_lines(ctx, exe1, lines, timeout=60 + len(lines) // 10)
    # model: three variants + spec on the implementation's tables
    minp = []
    for c in cases:
        b = k_body_model(c)
        minp += ["K 3 " + b, "K 2 " + b, "K 1 " + b, "K 0 " + b]
    mr = mrun(ctx, mexe, "\n".join(minp) + "\n", timeout=600)
    mlines = mr.out.splitlines()
    if mr.rc != 0 or len(mlines) != len(minp):
        raise vlib.BuildError("model driver failed: rc=%s %s" % (mr.rc, mr.err[-400:]))
    spec_in, spec_idx = [], []
    parsed = [None] * len(cases)
    for i, c in enumerate(cases):
        D = c["D"]
        malformed = c["gen"].startswith("malformed")
        m25 = mlines[NV * i]
        if info[i] == SKIPPED:
            continue
        if info[i] is not None:
            ctx.violation(c, "construct_%s eigenproblem: the routine crashed / hung on this input: %s"
                          % (c["method"], str(info[i])[:500]))
            continue
        line = res[i]
        if malformed:
            # the harness refuses indices >= N (setFromTriplets would be the harness's own error);
            # the model must report the same site
            if not (line.startswith("K ERR") and m25.startswith("oob 1 ")):
                ctx.mismatch(c, "malformed sparse index: implementation side %r, model %r" % (line[:60], m25[:60]))
            stats["malformed"] += 1
            continue
        if not line.startswith("K ok"):
            ctx.violation(c, "construct_%s eigenproblem failed on a valid input: %s" % (c["method"], line[:300]))
            continue
        t = parse_tagged(line, ("lhs", "rhs"))
        try:
            lhs = [Fraction(parse_hex(x)) for x in t.get("lhs", [])]
            rhs = [Fraction(parse_hex(x)) for x in t.get("rhs", [])]
        except (ValueError, OverflowError):
            lhs = rhs = None
        if lhs is None or len(lhs) != D * D or len(rhs) != D * D:
            ctx.violation(c, "construct_%s eigenproblem returned tables that are not finite %dx%d matrices: %s"
                          % (c["method"], D, D, line[:200]))
            continue
        _, _, _, fl, fr = k_scale(c)
        lhs = [x / fl for x in lhs]
        rhs = [x / fr for x in rhs]
        parsed[i] = (lhs, rhs)
        if reads == "upper":
            tl = [lhs[j * D + k] for k in range(D) for j in range(D)]
            tr = [rhs[j * D + k] for k in range(D) for j in range(D)]
        else:
            tl, tr = lhs, rhs
        spec_in.append("S " + k_body_model(c) + " " + " ".join(frac_token(x) for x in tl) + " "
                       + " ".join(frac_token(x) for x in tr))
        spec_idx.append(i)
    if spec_in:
        sr = mrun(ctx, mexe, "\n".join(spec_in) + "\n", timeout=600)
        sl = sr.out.splitlines()
        if sr.rc != 0 or len(sl) != len(spec_in):
            raise vlib.BuildError("spec driver failed: rc=%s %s" % (sr.rc, sr.err[-400:]))
        for i, verdict in zip(spec_idx, sl):
            c = cases[i]
            D = c["D"]
            models = {}
            for name, off in (("current", 0), ("before-F42", 1), ("before-F25", 2), ("before-F9", 3)):
                ml = mlines[NV * i + off].split()
                models[name] = [token_frac(x) for x in ml[1:]] if ml and ml[0] == "ok" else None
            impl = parsed[i][0] + parsed[i][1]
            cls = classify_tables(impl, models)
            vw = verdict.split()
            seen_ok = len(vw) == 3 and vw[0] == "spec" and vw[1] == "1"
            full_ok = len(vw) == 3 and vw[0] == "spec" and vw[2] == "1"
            if not seen_ok:
                sig, what = None, ""
                if cls == "before-F9" or (models["before-F9"] is not None and cls is None and
                                          lower_only_zero(parsed[i], D)):
                    sig = "F9-pencil-upper-only"
                    what = " (tables equal the model of the tree before fix F9: only the upper triangles are filled)"
                elif cls == "before-F25":
                    sig = "F25-lltsa-lhs-mean-update"
                    what = " (tables equal the model of the tree before fix F25: lhs carries -(X1)(X1)^T/N)"
                elif cls == "before-F42":
                    sig = "F42-lltsa-shift-uncentred"
                    what = " (tables equal the model of the tree before fix F42: lhs built from uncentred features)"
                fd = first_diff(impl, models["current"], D) + scale_note(c)
                if stats["spec_fail"] < 2 and not c["gen"].startswith("corpus"):
                    c = shrink_k(ctx, exe1, mexe, c, reads)
                    fd += " (before shrinking)"
                ctx.violation(c, "construct_%s eigenproblem: what the generalised solver reads (%s triangles) of the "
                                 "returned tables is not (X (W+W^T) X^T, X B X^T) [LLTSA: X centred]%s; first differing entry: %s"
                              % (c["method"], reads, what, fd), signature=sig)
                stats["spec_fail"] += 1
                continue
            if not full_ok:
                # what the solver reads is right, the other triangle is not: the routines are specified to return
                # the FULL symmetric tables (DenseSymmetricMatrixPair, fix F9; theorem returned_tables_symmetric,
                # decision procedure spec_full_b)
                stats["other_triangle_differs"] += 1
                fd = first_diff(impl, models["current"], D) + scale_note(c)
                if stats["other_triangle_differs"] <= 2 and not c["gen"].startswith("corpus"):
                    c = shrink_k(ctx, exe1, mexe, c, reads)
                    fd += " (before shrinking)"
                ctx.violation(c, "construct_%s eigenproblem: the returned tables are not the full symmetric matrices "
                                 "(X (W+W^T) X^T, X B X^T) [LLTSA: X centred]: the triangle the dense solver reads (%s) "
                                 "is right, the other one is not, so any consumer reading it (or the whole table) "
                                 "solves another problem; first differing entry: %s" % (c["method"], reads, fd))
                continue
            stats["spec_ok"] += 1
            if models["current"] is None:
                ctx.mismatch(c, "model reports %s on an input the implementation accepts" % mlines[NV * i][:60])
            elif cls != "current":
                # impossible unless model and decision procedure disagree (model_output_meets_full_spec)
                ctx.mismatch(c, "tables pass spec_full_b but differ from the model: %s %s"
                             % (c["method"], first_diff(impl, models["current"], D)))
    return len(cases)


def k_spec_fails(ctx, exe1, mexe, c, reads="lower"):
    """does the implementation's own output fail the extracted spec on this single exact case?"""
    res, info = run_lines(ctx, exe1, [k_line_impl(c)], timeout=60)
    if info[0] is not None:
        return True
    line = res[0]
    if not line.startswith("K ok"):
        return True
    D = c["D"]
    t = parse_tagged(line, ("lhs", "rhs"))
    try:
        lhs = [Fraction(parse_hex(x)) for x in t.get("lhs", [])]
        rhs = [Fraction(parse_hex(x)) for x in t.get("rhs", [])]
    except (ValueError, OverflowError):
        return True
    if len(lhs) != D * D or len(rhs) != D * D:
        return True
    _, _, _, fl, fr = k_scale(c)
    lhs = [x / fl for x in lhs]
    rhs = [x / fr for x in rhs]
    if reads == "upper":
        lhs = [lhs[j * D + k] for k in range(D) for j in range(D)]
        rhs = [rhs[j * D + k] for k in range(D) for j in range(D)]
    sr = mrun(ctx, mexe, "S " + k_body_model(c) + " " + " ".join(frac_token(x) for x in lhs) + " "
                 + " ".join(frac_token(x) for x in rhs) + "\n", timeout=60)
    return sr.out.split() != ["spec", "1", "1"]


def shrink_k(ctx, exe1, mexe, c, reads="lower"):
    """fewer stored entries, fewer features (samples are kept: LLTSA needs N = 2^k for exactness)"""
    import time
    deadline = time.time() + 45

    def fails(cc):
        return time.time() < deadline and k_spec_fails(ctx, exe1, mexe, cc, reads)
    try:
        W = vlib.shrink_list(c["W"], lambda w: fails(dict(c, W=w)), max_steps=40)
        c2 = dict(c, W=W)
        if not fails(c2):
            c2 = c
        f = c2["D"] - 1
        while f >= 0 and c2["D"] > 1:
            c3 = dict(c2, D=c2["D"] - 1, X=[r for i, r in enumerate(c2["X"]) if i != f])
            if fails(c3):
                c2 = c3
            f -= 1
        c2["gen"] = c["gen"] + "+shrunk"
        return c2
    except Exception:  # noqa  (shrinking is best effort)
        return c


def lower_only_zero(tabs, D):
    lhs, rhs = tabs
    return D >= 2 and all(lhs[i * D + j] == 0 for i in range(D) for j in range(i)) and \
        any(lhs[i * D + j] != 0 for i in range(D) for j in range(i + 1, D))


def scale_note(c):
    sc = c.get("scale")
    if not sc:
        return ""
    return (" [the routine was given W*2^%s, degree vector*2^%s, X*2^%s; its tables are shown divided by the "
            "corresponding powers of two]" % (sc.get("w"), sc.get("dv"), sc.get("x")))


def first_diff(impl, model, D):
    if model is None:
        return "(no model tables)"
    for k, (a, b) in enumerate(zip(impl, model)):
        if a != b:
            t = "lhs" if k < D * D else "rhs"
            k2 = k % (D * D)
            return "%s(%d,%d): implementation %s, model %s" % (t, k2 // D, k2 % D, a, b)
    return "(none)"


# ----------------------------------------------------------------------------- J stream (compute_mean + project, exact)
def gen_j_case(rng):
    N = rng.choice([1, 2, 2, 4, 4, 8, 16, 32])      # a power of two: the mean is exact in binary64
    D = rng.choice([1, 2, 3, 4, 6, 11])
    d = rng.randint(1, D)
    off = [Fraction(rng.choice([0, 0, 7, -12]), 1) for _ in range(D)]
    big = rng.random() < 0.3
    if big:
        # large offset relative to the spread (Wave 3): offset +-m 2^p with the largest p <= the drawn one for which
        # the feature sums, the mean (N = 2^k) and hence x - mean are exact in binary64 (sum |x| / granularity < 2^53):
        # p up to 51.  P^T (x - mean) then has small terms; a hoisted P^T x - P^T mean needs p + 7 bits and more
        sh = rng.choice([0, 1, 2])
        base = [[Fraction(rng.randint(-8, 8), 2 ** sh) for _ in range(N)] for _ in range(D)]
        pw = rng.randint(42, 51)
        mult = [rng.choice([1, -1, 3, 0]) for _ in range(D)]
        if not any(mult):
            mult[0] = 1
        drop = [rng.choice([0, 0, 3, 9]) for _ in range(D)]
        while True:
            off = [Fraction(mult[f] * 2 ** max(pw - drop[f], 0)) for f in range(D)]
            X = [[base[f][t] + off[f] for t in range(N)] for f in range(D)]
            gx = _gran(v for row in X for v in row)
            if pw <= 0 or all(sum(abs(v) for v in row) / gx < 2 ** 53 and abs(sum(row)) / (gx / N) < 2 ** 53 * N
                              for row in X):
                break
            pw -= 1
    else:
        X = [[Fraction(rng.randint(-8, 8), 2 ** rng.choice([0, 1, 2])) + off[f] for _ in range(N)] for f in range(D)]
    P = [[Fraction(rng.randint(-9, 9), 2 ** rng.choice([0, 1, 3])) for _ in range(d)] for _ in range(D)]
    return {"kind": "J", "gen": "offset" if big else "plain", "N": N, "D": D, "d": d, "X": [[fs(v) for v in r] for r in X],
            "P": [[fs(v) for v in r] for r in P]}


def eval_j(ctx, exe1, mexe, cases, stats):
    if not cases:
        return 0
    il, ml = [], []
    for c in cases:
        N, D, d = c["N"], c["D"], c["d"]
        X = [[sf(v) for v in r] for r in c["X"]]
        P = [[sf(v) for v in r] for r in c["P"]]
        il.append("J %d %d %d %s %s" % (N, D, d, " ".join(hexf(X[f][s]) for s in range(N) for f in range(D)),
                                       " ".join(hexf(v) for r in P for v in r)))
        ml.append("J %d %d %d %s %s" % (N, D, d, " ".join(frac_token(v) for r in X for v in r),
                                       " ".join(frac_token(v) for r in P for v in r)))
    res, info = run_lines(ctx, exe1, il, timeout=60 + len(il) // 10)
    mr = mrun(ctx, mexe, "\n".join(ml) + "\n", timeout=300)
    mo = mr.out.splitlines()
    if mr.rc != 0 or len(mo) != len(cases):
        raise vlib.BuildError("model driver failed on the J stream: rc=%s %s" % (mr.rc, mr.err[-300:]))
    for c, line, inf, m in zip(cases, res, info, mo):
        N, D, d = c["N"], c["D"], c["d"]
        if inf == SKIPPED:
            continue
        if inf is not None:
            ctx.violation(c, "compute_mean / project crashed or hung: " + str(inf)[:400])
            continue
        if not line.startswith("J ok"):
            ctx.violation(c, "compute_mean / project failed on valid input: " + line[:200])
            continue
        t = parse_tagged(line, ("mean", "Y"))
        try:
            got = [Fraction(parse_hex(x)) for x in t.get("mean", []) + t.get("Y", [])]
        except (ValueError, OverflowError):
            got = None
        mw = m.split()
        want = [token_frac(x) for x in mw[1:]] if mw and mw[0] == "ok" else None
        if want is None:
            ctx.mismatch(c, "model reports %s on an input compute_mean / project accept" % m[:60])
            continue
        if got is None or len(got) != D + N * d:
            ctx.violation(c, "compute_mean / project returned non-finite or misshapen results: " + line[:200])
            continue
        if got != want:
            k = next(i for i, (a, b) in enumerate(zip(got, want)) if a != b)
            what = ("mean(%d)" % k) if k < D else ("embedding(%d,%d)" % ((k - D) // d, (k - D) % d))
            # the model IS the specification here (project_stream_spec: mean = sample mean, Y = P^T (x - mean))
            ctx.violation(c, "the embedding is not the centred samples projected on the columns of P: %s is %s, "
                             "P^T (x - sample mean) gives %s" % (what, got[k], want[k]))
            stats["j_fail"] += 1
        else:
            stats["j_ok"] += 1
    return len(cases)


# ----------------------------------------------------------------------------- small float linear algebra
def matmul(A, B):
    n, k, m = len(A), len(B), len(B[0]) if B else 0
    return [[math.fsum(A[i][t] * B[t][j] for t in range(k)) for j in range(m)] for i in range(n)]


def transpose(A):
    return [list(r) for r in zip(*A)] if A else []


def fro(A):
    return math.sqrt(math.fsum(x * x for r in A for x in r))


def random_orthogonal(rng, D):
    """product of D Householder reflections, then Gram-Schmidt cleaned; returns D x D list"""
    Q = [[1.0 if i == j else 0.0 for j in range(D)] for i in range(D)]
    for _ in range(D + 1):
        v = [rng.gauss(0, 1) for _ in range(D)]
        n2 = math.fsum(x * x for x in v)
        H = [[(1.0 if i == j else 0.0) - 2 * v[i] * v[j] / n2 for j in range(D)] for i in range(D)]
        Q = matmul(H, Q)
    return Q


def unflat(v, n, m):
    return [v[i * m:(i + 1) * m] for i in range(n)]


# ----------------------------------------------------------------------------- G stream
def gen_g_case(rng):
    D = rng.choice([2, 3, 4, 5, 6, 8])
    d = rng.randint(1, D)

    def spd():
        G = [[rng.gauss(0, 1) for _ in range(D + 2)] for _ in range(D)]
        return [[math.fsum(G[i][t] * G[j][t] for t in range(D + 2)) + (0.5 if i == j else 0) for j in range(D)]
                for i in range(D)]

    def sym():
        S = [[rng.gauss(0, 1) for _ in range(D)] for _ in range(D)]
        return [[S[i][j] + S[j][i] for j in range(D)] for i in range(D)]
    AL, AU, BL, BU = sym(), sym(), spd(), spd()
    # the contract is scale free: pencils of very small / very large absolute magnitude as well
    sa = rng.choice([1.0, 1.0, 2.0 ** -20, 2.0 ** 10])
    sb = rng.choice([1.0, 1.0, 2.0 ** -30, 2.0 ** -20, 2.0 ** 20])
    AL = [[sa * x for x in r] for r in AL]
    AU = [[sa * x for x in r] for r in AU]
    BL = [[sb * x for x in r] for r in BL]
    BU = [[sb * x for x in r] for r in BU]
    a = [[AL[i][j] if j <= i else AU[i][j] for j in range(D)] for i in range(D)]
    b = [[BL[i][j] if j <= i else BU[i][j] for j in range(D)] for i in range(D)]
    # the two readings share the diagonal: keep BU positive definite by construction anyway
    return {"kind": "G", "D": D, "d": d, "scale_a": sa, "scale_b": sb, "a": [[hexf(x) for x in r] for r in a],
            "b": [[hexf(x) for x in r] for r in b]}


def g_line(c):
    return "G %d %d %s %s" % (c["D"], c["d"], " ".join(x for r in c["a"] for x in r),
                              " ".join(x for r in c["b"] for x in r))


def contract_residual(A, B, V, lam):
    AV = matmul(A, V)
    BV = matmul(B, V)
    D = len(A)
    R = [[AV[i][j] - BV[i][j] * lam[j] for j in range(D)] for i in range(D)]
    G = matmul(transpose(V), BV)
    E = [[G[i][j] - (1.0 if i == j else 0.0) for j in range(D)] for i in range(D)]
    # third clause of `full_contract` (Pencil_Proof_KyFan.v): V is invertible with inverse V^T B
    H = matmul(V, matmul(transpose(V), B))
    E2 = [[H[i][j] - (1.0 if i == j else 0.0) for j in range(D)] for i in range(D)]
    return fro(R) / (fro(A) * max(fro(V), 1e-300) + 1e-300), fro(E), fro(E2)


def eval_g(ctx, exe1, cases, stats):
    if not cases:
        return 0, None
    res, info = run_lines(ctx, exe1, [g_line(c) for c in cases], timeout=60 + len(cases) // 5)
    votes = {"lower": 0, "upper": 0, "neither": 0}
    for c, line, inf in zip(cases, res, info):
        D, d = c["D"], c["d"]
        if inf == SKIPPED:
            continue
        if inf is not None:
            ctx.violation(c, "generalized_eigendecomposition crashed / hung on a symmetric positive definite "
                             "pencil: " + str(inf)[:500])
            continue
        if not line.startswith("G ok"):
            ctx.violation(c, "generalized_eigendecomposition failed on a symmetric positive definite pencil: "
                          + line[:300])
            continue
        t = parse_tagged(line, ("evals", "evecs", "sel_evals", "shape", "sel"))
        try:
            ev = [parse_hex(x) for x in t["evals"]]
            V = unflat([parse_hex(x) for x in t["evecs"]], D, D)
            sel_ev = [parse_hex(x) for x in t["sel_evals"]]
            shape = [int(x) for x in t["shape"]]
            sel = [parse_hex(x) for x in t["sel"]]
        except (KeyError, ValueError):
            ctx.violation(c, "unparsable output of the dense generalised front end: " + line[:200])
            continue
        a = [[parse_hex(x) for x in r] for r in c["a"]]
        b = [[parse_hex(x) for x in r] for r in c["b"]]
        low = lambda M: [[M[i][j] if j <= i else M[j][i] for j in range(D)] for i in range(D)]
        upp = lambda M: [[M[i][j] if j >= i else M[j][i] for j in range(D)] for i in range(D)]
        ok_shape = len(ev) == D and len(V) == D and all(len(r) == D for r in V) and \
            all(math.isfinite(x) for x in ev) and all(math.isfinite(x) for r in V for x in r)
        if not ok_shape:
            ctx.unshown("oracle contract: Eigen generalised solver returned a non-finite / misshapen decomposition")
            continue
        rl = contract_residual(low(a), low(b), V, ev)
        ru = contract_residual(upp(a), upp(b), V, ev)
        asc = all(ev[i] <= ev[i + 1] + 1e-12 * (abs(ev[i]) + abs(ev[i + 1])) for i in range(D - 1))
        if max(rl) < 1e-8 and max(ru) > 1e-4:
            votes["lower"] += 1
        elif max(ru) < 1e-8 and max(rl) > 1e-4:
            votes["upper"] += 1
        else:
            votes["neither"] += 1
        if not asc:
            ctx.unshown("oracle contract: eigenvalues of the generalised solver are not ascending")
        # column selection of tapkee's front end: columns 0..d-1 (up to sign), eigenvalues 0..d-1
        good = shape == [D, d] and len(sel) == D * d and all(math.isfinite(x) for x in sel)
        if good:
            S = unflat(sel, D, d)
            for j in range(d):
                col = [S[i][j] for i in range(D)]
                ref = [V[i][j] for i in range(D)]
                e1 = max(abs(x - y) for x, y in zip(col, ref))
                e2 = max(abs(x + y) for x, y in zip(col, ref))
                if min(e1, e2) > 1e-9 * max(abs(y) for y in ref):
                    good = False
            evs = max(abs(x) for x in ev)
            if len(sel_ev) < d or any(abs(sel_ev[j] - ev[j]) > 1e-9 * evs for j in range(d)):
                good = False
        if not good:
            stats["select_bad"] += 1
            ctx.violation(c, "generalized_eigendecomposition(Dense, SmallestEigenvalues, d=%d) does not return the "
                             "eigenvectors of the %d smallest eigenvalues of the pencil (columns 0..d-1 of the "
                             "ascending decomposition): shape %s" % (d, d, shape))
        stats["g_ok"] += 1
    reads = None
    if votes["lower"] and not votes["upper"] and not votes["neither"]:
        reads = "lower"
    elif votes["upper"] and not votes["lower"] and not votes["neither"]:
        reads = "upper"
    stats["triangle_votes"] = votes
    return len(cases), reads


# ----------------------------------------------------------------------------- E stream
def gen_e_case(rng, method, big):
    D = rng.choice([2, 3, 4, 5, 6, 8, 11] if not big else [2, 3, 5, 8, 12, 20, 30])
    N = rng.choice([3 * D + 6, 4 * D + 10, 40, 60]) if not big else rng.choice([4 * D + 10, 6 * D + 20, 150])
    N = max(N, 12)
    d = rng.randint(1, D - 1) if D > 1 else 1
    if rng.random() < 0.1 and method != "lltsa":
        d = D                                   # all projection directions (LLTSA: the property wants d < D; with
                                                # d = D every tangent space is the whole space and lhs = shift * rhs)
    k = rng.randint(3, min(N - 1, 15))
    if rng.random() < 0.15:
        k = rng.choice([N // 2, N - 1])         # large neighbourhoods
    if method == "lltsa":
        # d = k - 1 makes every local tangent basis span the whole neighbourhood: the alignment matrix is
        # then rounding noise (I - G G^T = 0); keep two spare directions
        d = max(1, min(d, k - 3, D - 1))
    # latent low-dimensional structure + correlated noise + offset
    q = min(D, 3)
    lat = [[rng.uniform(-3, 3) for _ in range(q)] for _ in range(N)]
    Mix = [[rng.gauss(0, 1) for _ in range(q)] for _ in range(D)]
    offk = rng.choice([0.0, 0.0, 1.0, 5.0, 20.0])
    off = [offk * rng.uniform(-1, 1) for _ in range(D)]
    noise = rng.choice([0.05, 0.2, 0.5])
    X = []
    for s in range(N):
        row = []
        for f in range(D):
            v = math.fsum(Mix[f][t] * lat[s][t] for t in range(q)) + 0.3 * lat[s][0] ** 2 * (f % 2) \
                + noise * rng.gauss(0, 1) + off[f]
            row.append(v)
        X.append(row)
    # exact DUPLICATE samples in otherwise generic data (Wave 3)
    dup = 0
    if rng.random() < 0.15 and N >= D + 8:
        dup = rng.randint(1, 3)
        for _ in range(dup):
            a, b = rng.sample(range(N), 2)
            X[b] = list(X[a])
    width = rng.choice([0.5, 2.0, 10.0, 100.0])
    # the property is about ALL feature data: the same data in other units (powers of two: exact rescaling)
    scale = rng.choice([1.0, 1.0, 1.0, 2.0 ** -17, 2.0 ** -10, 2.0 ** 10])
    X = [[v * scale for v in row] for row in X]
    width = width * scale * scale
    nshift = rng.choice([1e-9, 1e-6, 1e-3])
    kshift = rng.choice([1e-3, 1e-2])
    return {"kind": "E", "method": method, "N": N, "D": D, "d": d, "k": k, "width": hexf(width),
            "nshift": hexf(nshift), "kshift": hexf(kshift), "offset": offk, "scale": scale, "duplicates": dup,
            "X": [[hexf(v) for v in row] for row in X]}      # sample major


def gen_e_lattice_case(rng, tgt, em=0):
    """LPP over widths spanning many decades.  Samples: a jittered unit lattice in D dimensions, rotated, shifted
    and expressed in a random unit, so that all nearest-neighbour distances are about one unit and the heat weights
    exp(-d^2/width) of the neighbour pairs are all about 10^-tgt (never zero).  The generalised problem is invariant
    under the common factor this puts on L and D; with arbitrary data a narrow kernel makes the degrees span dozens
    of decades and X D X^T numerically singular, which a tolerance comparison cannot judge."""
    D = rng.choice([2, 3, 3, 4])
    dims = rng.choice({2: [(7, 5), (8, 5), (6, 4)], 3: [(6, 4, 3), (5, 4, 3), (4, 3, 3)], 4: [(3, 3, 2, 2), (4, 3, 2, 2)]}[D])
    pts = [[]]
    for n in dims:
        pts = [p + [float(i)] for p in pts for i in range(n)]
    jit = rng.choice([0.01, 0.02, 0.03])
    pts = [[v + rng.uniform(-jit, jit) for v in p] for p in pts]
    R0 = random_orthogonal(rng, D)
    offk = rng.choice([0.0, 0.0, 1.0, 5.0])
    off = [offk * rng.uniform(-1, 1) for _ in range(D)]
    X = [[math.fsum(R0[f][g] * p[g] for g in range(D)) + off[f] for f in range(D)] for p in pts]
    rng.shuffle(X)
    scale = rng.choice([1.0, 1.0, 2.0 ** -17, 2.0 ** -6, 2.0 ** 10])
    X = [[v * scale for v in row] for row in X]
    width = scale * scale / (tgt * math.log(10.0))
    N = len(X)
    return {"kind": "E", "gen": "lattice", "method": "lpp", "N": N, "D": D, "d": rng.randint(1, D - 1),
            "k": rng.randint(3, 2 * D + 1), "width": hexf(width), "nshift": hexf(1e-9), "kshift": hexf(1e-3),
            "offset": offk, "scale": scale, "heat_exp10": -tgt, "em": em,
            "X": [[hexf(v) for v in row] for row in X]}


def gen_e_offset_case(rng, method, ratio, kernel_sees_offset, per_feature):
    """public-API case with a large OFFSET relative to the spread (Wave 3).  The data of gen_e_case are put on a
    dyadic grid (2^-16 of their unit) and translated by t, t_f = +-ratio * u_f * std(feature f) rounded to the grid
    (u_f in 0.5 .. 2; per_feature: only some features are translated), so that x + t is EXACT in binary64: the
    translated data are exactly the translate.  kernel_sees_offset = False: the kernel and distance callbacks see
    the untranslated data (a translation-invariant kernel: neighbourhood graph and alignment / weight matrix are held
    fixed and only the assembly of the pencil sees the offset); True: all three callbacks see x + t.
    LLTSA is translation invariant (theorem lltsa_translation_invariant): the case is run a second time on the
    untranslated features ("twin") and projection matrix and embedding must agree up to column sign.  NPE and LPP are
    not (X X^T, X D X^T move with the origin): they are judged against the reference pencil built from the same
    translated data, with tolerances relative to its conditioning."""
    c = gen_e_case(rng, method, False)
    N, D = c["N"], c["D"]
    unit = c["scale"]
    q = unit * 2.0 ** -16
    X0 = [[round(parse_hex(x) / q) * q for x in row] for row in c["X"]]
    t = []
    on = [True] * D
    if per_feature:
        on = [rng.random() < 0.5 for _ in range(D)]
        on[rng.randrange(D)] = True
    for f in range(D):
        col = [X0[s_][f] for s_ in range(N)]
        mu = math.fsum(col) / N
        sd = math.sqrt(math.fsum((v - mu) ** 2 for v in col) / N)
        tf = rng.choice([1.0, -1.0]) * ratio * rng.uniform(0.5, 2.0) * sd if on[f] else 0.0
        t.append(round(tf / q) * q)
    X = [[X0[s_][f] + t[f] for f in range(D)] for s_ in range(N)]
    for s_ in range(N):
        for f in range(D):
            if Fraction(X[s_][f]) != Fraction(X0[s_][f]) + Fraction(t[f]):
                raise AssertionError("translation not exact")          # cannot happen: (|x| + |t|) / q < 2^53
    c["gen"] = "offset-%s/%s" % ("per-feature" if per_feature else "common",
                                 "all-callbacks" if kernel_sees_offset else "features-only")
    c["offset"] = ratio
    c["offset_ratio"] = ratio
    c["t"] = [hexf(v) for v in t]
    c["X"] = [[hexf(v) for v in row] for row in X]
    c["X0"] = [[hexf(v) for v in row] for row in X0]
    if not kernel_sees_offset:
        c["XK"] = c["X0"]
    return c


# -log10 of the heat weight of a unit-distance pair, one stratum per case (Eigen's dummy precision is 1e-12)
E_OFFSET_EXP = (3, 4, 5, 6, 7, 8)      # log10 of offset / spread of the translated public-API cases
LATTICE_STRATA = ((0.3, 3.0), (3.0, 8.0), (8.0, 11.5), (11.5, 12.5), (12.5, 16.0), (16.0, 22.0), (22.0, 30.0), (30.0, 40.0))


def e_line(c, X=None, XK=None):
    """X: what the feature callback sees; XK: what the kernel and distance callbacks see (None: X as well)"""
    if X is None:
        X, XK = c["X"], c.get("XK")
    return "E %s %d %d %d %d %s %s %s %d %d %s%s" % (c["method"], c["N"], c["D"], c["d"], c["k"], c["width"],
                                                   c["nshift"], c["kshift"], c.get("em", 0), 0 if XK is None else 1,
                                                   " ".join(x for row in X for x in row),
                                                   "" if XK is None else " " + " ".join(x for row in XK for x in row))


def parse_e(line, N, D, d):
    t = parse_tagged(line, ("shape", "chain", "P", "mean", "Y", "M", "dv", "recL", "recR"))
    shape = [int(x) for x in t["shape"]]
    if shape != [D, d, N, d]:
        return {"shape": shape}
    out = {"shape": shape, "P": [parse_hex(x) for x in t["P"]], "mean": [parse_hex(x) for x in t["mean"]],
           "Y": [parse_hex(x) for x in t["Y"]], "Mtok": t["M"], "dvtok": t["dv"],
           "recL": [parse_hex(x) for x in t.get("recL", [])], "recR": [parse_hex(x) for x in t.get("recR", [])]}
    ch = t.get("chain", [])
    if len(ch) == 6:
        out["chain"] = {"calls": int(ch[0]), "d": int(ch[1]), "smallest": int(ch[2]),
                        "dl": parse_hex(ch[3]), "dr": parse_hex(ch[4]), "dp": parse_hex(ch[5])}
    return out


def pencil_clause(c, p, t, N, D):
    """(error, why or None) for the recorded pencil of one public-API run against the plain-loop reference tables;
    None when nothing was recorded / the reference did not print its tables"""
    try:
        L, R = p.get("recL") or [], p.get("recR") or []
        A2 = [parse_hex(x) for x in t.get("tab2A", [])]
        B = [parse_hex(x) for x in t.get("tabB", [])]
        aA = [parse_hex(x) for x in t.get("absA", [])]
        aB = [parse_hex(x) for x in t.get("absB", [])]
    except (ValueError, OverflowError):
        return None
    if not (len(L) == len(R) == len(A2) == len(B) == len(aA) == len(aB) == D * D):
        return None
    if not all(math.isfinite(x) for x in A2 + B + aA + aB):
        return None
    nA = math.sqrt(math.fsum(x * x for x in aA))
    nB = math.sqrt(math.fsum(x * x for x in aB))
    if not all(math.isfinite(x) for x in L + R):
        return float("inf"), "the pencil handed to the generalised solver has non-finite entries"
    eA = math.sqrt(math.fsum((x - y) ** 2 for x, y in zip(L, A2))) / max(nA, 1e-300)
    eB = math.sqrt(math.fsum((x - y) ** 2 for x, y in zip(R, B))) / max(nB, 1e-300)
    tolA = tolB = PENCIL_TOL
    if c["method"] == "lltsa":
        Xf = [[parse_hex(x) for x in row] for row in c["X"]]
        rho = 0.0
        for f in range(D):
            col = [Xf[s][f] for s in range(N)]
            mu = math.fsum(col) / N
            sd = math.sqrt(math.fsum((v - mu) ** 2 for v in col) / N)
            rho = max(rho, abs(mu) / sd) if sd > 0 else float("inf")
        if not math.isfinite(rho):
            return None
        dmean = N * 2.3e-16 * rho           # rounding of the mean, in spreads
        tolA += 4 * dmean
        tolB += 4 * dmean * dmean
    why = []
    if not eA <= tolA:
        why.append("lhs differs from X (M + M^T) X^T%s by %.2e of | |X| (|M| + |M|^T) |X|^T | (allowed %.1e)"
                   % (" on the centred features" if c["method"] == "lltsa" else "", eA, tolA))
    if not eB <= tolB:
        why.append("rhs differs from X B X^T%s by %.2e of | |X| |B| |X|^T | (allowed %.1e)"
                   % (" (scatter of the centred features)" if c["method"] == "lltsa" else "", eB, tolB))
    if why:
        return max(eA, eB), ("the pencil handed to the generalised solver is not the property's within rounding: "
                             + "; ".join(why))
    return max(eA, eB), None


def twin_compare(c, p, q, ref, spread, N, D, d, stats):
    """translation pair (LLTSA): the untranslated twin must give the same projection matrix and embedding up to
    column sign (columns inside a numerically multiple eigenvalue are free).  Returns a list of complaints."""
    if not all(math.isfinite(x) for x in q["P"] + q["Y"]):
        return ["tapkee::embed(lltsa) on the untranslated data returns non-finite values"]
    try:
        M1 = [parse_hex(x) for x in p["Mtok"]]
        M2 = [parse_hex(x) for x in q["Mtok"]]
        nm = math.sqrt(math.fsum(x * x for x in M1))
        dm = math.sqrt(math.fsum((x - y) ** 2 for x, y in zip(M1, M2)))
    except (ValueError, OverflowError):
        nm, dm = 0.0, 1.0
    if not dm <= 1e-9 * max(nm, 1e-300):
        # all three callbacks saw the offset: the alignment matrix itself moved (kernel values lose
        # eps * offset^2: C08's territory), the two runs solve different problems
        stats["trans_skipped_unstable_M"] += 1
        return []
    bad = []
    P1, P2 = unflat(p["P"], D, d), unflat(q["P"], D, d)
    Y1, Y2 = unflat(p["Y"], N, d), unflat(q["Y"], N, d)
    for j in range(d):
        gaps = []
        if j > 0:
            gaps.append(abs(ref[j] - ref[j - 1]))
        if j + 1 < len(ref):
            gaps.append(abs(ref[j + 1] - ref[j]))
        if min(gaps) <= GAP_MIN * spread:
            stats["trans_skipped_gap"] += 1
            continue
        for name, A, B in (("embedding", [r[j] for r in Y1], [r[j] for r in Y2]),
                           ("projection", [r[j] for r in P1], [r[j] for r in P2])):
            na = math.sqrt(math.fsum(x * x for x in A))
            nb = math.sqrt(math.fsum(x * x for x in B))
            cs = abs(math.fsum(x * y for x, y in zip(A, B))) / max(na * nb, 1e-300)
            rel = abs(na - nb) / max(na, nb, 1e-300)
            stats["trans_min_cos"] = min(stats["trans_min_cos"], cs)
            if not (1 - cs <= ROT_TOL and rel <= 1e-4):
                bad.append("%s column %d: |cos| = %.6f, norms %.6g vs %.6g" % (name, j, cs, na, nb))
        stats["trans_cols"] += 1
    if bad:
        stats["trans_fail"] += 1
        return ["translating the feature space (x -> x + t, |t| = %.3g spreads, neighbourhood graph and alignment "
                "matrix unchanged) changes the result beyond column sign: %s"
                % (c.get("offset_ratio", 0), "; ".join(bad[:4]))]
    stats["trans_ok"] += 1
    return []


def eval_e(ctx, exe1, exe2, cases, stats, rng, rotate_every=2):
    """public API stream; every `rotate_every`-th case is also run on R X"""
    if not cases:
        return 0
    lines, owner = [], []
    rots = {}
    for i, c in enumerate(cases):
        lines.append(e_line(c))
        owner.append((i, False))
        if c["method"] == "lltsa" and c.get("X0") is not None:
            # translation pair: the same case on the untranslated features (kernel data: the untranslated ones)
            lines.append(e_line(c, c["X0"], None))
            owner.append((i, "twin"))
        if rotate_every and i % rotate_every == 0 and c["D"] >= 2 and c.get("X0") is None and not c.get("huge"):
            R = c.get("R")
            if R is None:
                R = random_orthogonal(rng, c["D"])
                c["R"] = [[hexf(x) for x in r] for r in R]
            else:
                R = [[parse_hex(x) for x in r] for r in R]
            Xf = [[parse_hex(x) for x in row] for row in c["X"]]
            XR = [[math.fsum(R[f][g] * row[g] for g in range(c["D"])) for f in range(c["D"])] for row in Xf]
            rots[i] = R
            lines.append(e_line(c, [[hexf(v) for v in row] for row in XR]))
            owner.append((i, True))
    res, info = run_lines(ctx, exe2, lines, timeout=90 + len(lines))
    base, rot, twin = {}, {}, {}
    for (i, isrot), line, inf in zip(owner, res, info):
        c = cases[i]
        if inf == SKIPPED:
            continue
        if inf is not None:
            ctx.violation(c, "tapkee::embed(%s) crashed / hung%s: %s"
                          % (c["method"], " on the untranslated data" if isrot == "twin" else
                             " on the rotated data" if isrot else "", str(inf)[:500]))
            continue
        if c.get("em", 0) == 2 and line.startswith("E unsupported"):
            # the library states that the Randomized eigensolver does not handle generalised problems
            # (unsupported_method_error): an explicit refusal, not a wrong answer
            stats["e_randomized_refused"] += 1
            continue
        if c.get("huge"):
            # overflowing intermediate squares: an exception (E ERR ...) or a matrix are both documented outcomes
            if line.startswith("E ok") or line.startswith("E ERR") or line.startswith("E unsupported"):
                stats["e_huge_exception" if not line.startswith("E ok") else "e_huge_matrix"] += 1
            else:
                ctx.violation(c, "tapkee::embed(%s) on huge finite feature values: unparsable outcome %s"
                              % (c["method"], line[:200]))
            continue
        if not line.startswith("E ok"):
            ctx.violation(c, "tapkee::embed(%s%s) failed on valid data%s: %s"
                          % (c["method"], EM_NAMES[c.get("em", 0)], " (rotated)" if isrot else "", line[:300]))
            continue
        try:
            p = parse_e(line, c["N"], c["D"], c["d"])
        except (KeyError, ValueError):
            ctx.violation(c, "unparsable public-API output: " + line[:200])
            continue
        if "P" not in p:
            ctx.violation(c, "tapkee::embed(%s): projection matrix / embedding have shape %s, expected [%d, %d, %d, %d]"
                          % (c["method"], p["shape"], c["D"], c["d"], c["N"], c["d"]))
            continue
        (twin if isrot == "twin" else rot if isrot else base)[i] = p
        # structural chain embed() = construct_* -> generalized_eigendecomposition(SmallestEigenvalues, d) -> project:
        # the dense pencil recorded at the call site inside the method against the routine called by the harness
        ch = p.get("chain")
        if ch is not None:
            good = ch["calls"] == 1 and ch["d"] == c["d"] and ch["smallest"] == 1 and \
                0 <= ch["dl"] <= CHAIN_TOL and 0 <= ch["dr"] <= CHAIN_TOL and 0 <= ch["dp"] <= 1e-12
            if good:
                stats["chain_ok"] += 1
            else:
                stats["chain_bad"] += 1
                ctx.mismatch(c, "methods/*.hpp glue: embed(%s) does not hand construct_*'s pencil (lhs, rhs) with "
                                "target_dimension and SmallestEigenvalues to the dense generalised solver and return its "
                                "eigenvectors as the projection matrix: %s" % (c["method"], ch))
        else:
            stats["chain_missing"] += 1
    # reference arithmetic (command R of the light binary) for every base run
    rl, ridx = [], []
    for i, p in base.items():
        c = cases[i]
        N, D, d = c["N"], c["D"], c["d"]
        bkind = {"npe": 0, "lltsa": 1, "lpp": 2}[c["method"]]
        dv = p["dvtok"] if p["dvtok"] else ["0x0p+0"] * N
        if len(p["Mtok"]) != N * N or len(dv) != N:
            ctx.violation(c, "reference ingredients have the wrong size")
            continue
        xtok = [x for row in c["X"] for x in row]
        if c["method"] == "lltsa":
            # fix F42: both sides from the centred features Xc = X J (= the property's X M X^T for every M
            # annihilating constants; X J X^T = Xc Xc^T): hand the centred features to the plain reference
            # (centred exactly, in rationals, and rounded once: with an offset of 1e8 spreads a mean rounded to
            # binary64 would already shift the reference by 1e-8 spreads)
            Xq = [[Fraction(parse_hex(x)) for x in row] for row in c["X"]]
            muq = [sum(Xq[s][f] for s in range(N)) / N for f in range(D)]
            xtok = [hexf(float(Xq[s][f] - muq[f])) for s in range(N) for f in range(D)]
            bkind = 0
        rl.append("R %d %d %d %s %s %d %s %s" % (N, D, d, " ".join(xtok),
                                                " ".join(p["Mtok"]), bkind, " ".join(dv),
                                                " ".join(hexf(x) for x in p["P"])))
        ridx.append(i)
    rres, rinfo = run_lines(ctx, exe1, rl, timeout=90 + len(rl))
    for i, line, inf in zip(ridx, rres, rinfo):
        c = cases[i]
        p = base[i]
        N, D, d = c["N"], c["D"], c["d"]
        if inf is not None or not line.startswith("R ok"):
            ctx.note("reference arithmetic failed for a case (skipped): %s" % str(inf or line)[:200])
            stats["ref_failed"] += 1
            continue
        t = parse_tagged(line, ("ref_evals", "rq", "res", "gram", "norms", "condB", "tab2A", "tabB", "absA", "absB"))
        condB = parse_hex(t["condB"][0]) if t.get("condB") else float("inf")
        stats["e_max_condB"] = max(stats["e_max_condB"], condB if math.isfinite(condB) else 1e300)
        why = []
        finite = all(math.isfinite(x) for x in p["P"] + p["Y"] + p["mean"])
        # the pencil embed() handed to the solver (recorded at the call site) against the reference tables
        # X (M + M^T) X^T, X B X^T built with plain loops from the same features: any direct summation of them is
        # within a small multiple of N eps of |X| (|M| + |M|^T) |X|^T resp. |X| |B| |X|^T (norm-wise); LLTSA after
        # fix F42: on the CENTRED features, with the rounding of the mean (<= N eps |mean|) allowed for.  A
        # hoisted / expanded formula (sum x x^T - N m m^T) has error eps (offset / spread)^2 instead.
        pen = pencil_clause(c, p, t, N, D)
        if pen is not None:
            stats["pencil_judged"] += 1
            stats["pencil_max_err"] = max(stats["pencil_max_err"], pen[0])
            if pen[1]:
                why.append(pen[1])
        if not finite and not condB <= SINGULAR_COND:
            # the right-hand side X B X^T is singular in binary64 (NPE / LPP far from the origin: cond ~
            # (offset / spread)^2): there is no generalised problem to solve; only the pencil clause is judged
            stats["e_singular_rhs"] += 1
            finite = None
        if finite is None:
            pass
        elif not finite:
            why.append("non-finite projection matrix / mean / embedding")
        else:
            # embedding = centred samples projected (no conditioning involved: judged for every case)
            Xf = [[parse_hex(x) for x in row] for row in c["X"]]
            mean = [math.fsum(Xf[s][f] for s in range(N)) / N for f in range(D)]
            xmax = max(abs(x) for row in Xf for x in row)
            me = max(abs(mean[f] - p["mean"][f]) for f in range(D))
            if not me <= 1e-11 * max(xmax, 1e-300):
                why.append("the stored mean differs from the sample mean by %.2e" % me)
            P = unflat(p["P"], D, d)
            Y = unflat(p["Y"], N, d)
            ee, yscale = 0.0, 0.0
            for j in range(d):
                pj = max(abs(P[f][j]) for f in range(D))
                yscale = max(yscale, pj * xmax)
            for s in range(N):
                for j in range(d):
                    y = math.fsum(P[f][j] * (Xf[s][f] - mean[f]) for f in range(D))
                    ee = max(ee, abs(y - Y[s][j]))
            # rounding of P^T (x - mean): relative to |P| |x| (the offsets cancel in x - mean)
            if not ee <= EMB_TOL * max(yscale, 1e-300):
                why.append("embedding differs from P^T (x - mean) by %.2e" % ee)
        spectral = condB <= COND_MAX and bool(finite)
        if not condB <= COND_MAX:
            # the generalised problem itself is too ill-conditioned for a tolerance comparison of the spectrum to
            # mean anything (counted); the embedding / mean clauses above are judged all the same
            stats["e_skipped_illconditioned"] += 1
        ref = rq = rs = []
        if spectral:
            # backward-stable solvers lose about eps * cond(B) in the spectrum: tolerances grow with it
            slack = max(1.0, 1e4 * 2.3e-16 * condB / RQ_TOL)
            try:
                ref = [parse_hex(x) for x in t["ref_evals"]]
                rq = [parse_hex(x) for x in t["rq"]]
                rs = [parse_hex(x) for x in t["res"]]
                gram = unflat([parse_hex(x) for x in t["gram"]], d, d)
                okref = line.split()[2] == "1" and all(math.isfinite(x) for x in ref) and len(ref) == D and \
                    len(rq) == d and len(rs) == d and len(gram) == d and all(len(r) == d for r in gram)
            except (KeyError, ValueError, IndexError):
                okref = False
            if not okref:
                stats["ref_failed"] += 1
                spectral = False
        if spectral:
            spread = max(abs(ref[0]), abs(ref[-1]), 1e-300)
            bad_res = [j for j in range(d) if not (rs[j] <= RES_TOL * slack)]
            if bad_res:
                why.append("columns %s of the projection matrix do not solve (X M X^T) p = l (X B X^T) p: relative "
                           "residual %s" % (bad_res, ["%.2e" % rs[j] for j in bad_res]))
            bad_rq = [j for j in range(d) if not (abs(rq[j] - ref[j]) <= RQ_TOL * slack * spread)]
            if bad_rq:
                why.append("Rayleigh quotients %s are not the %d smallest generalised eigenvalues %s"
                           % (["%.6g" % x for x in rq], d, ["%.6g" % x for x in ref[:d]]))
            ge = max(abs(gram[a][b] - (1.0 if a == b else 0.0)) for a in range(d) for b in range(d))
            if not ge <= GRAM_TOL * slack:
                why.append("P^T (X B X^T) P differs from the identity by %.2e" % ge)
        if spectral and i in twin:
            why += twin_compare(c, p, twin[i], ref, spread, N, D, d, stats)
        if rs and max(rs) > stats["e_max_res"]:
            stats["e_max_res"] = max(rs)
            stats["e_max_res_case"] = "%s N=%d D=%d d=%d k=%d nshift=%.0e cond=%.1e" % (
                c["method"], N, D, d, c["k"], parse_hex(c["nshift"]), condB)
        if why:
            sig = None
            ctx.violation(c, "tapkee::embed(%s%s), N=%d D=%d d=%d k=%d width=%.3g: %s"
                          % (c["method"], EM_NAMES[c.get("em", 0)], N, D, d, c["k"], parse_hex(c["width"]),
                             "; ".join(why)), signature=sig)
            stats["e_fail"] += 1
            continue
        if not spectral:
            stats["e_ok_structural_only"] += 1
            continue
        stats["e_ok"] += 1
        # rotation pair
        if i in rot:
            q = rot[i]
            if not all(math.isfinite(x) for x in q["P"] + q["Y"]):
                ctx.violation(c, "tapkee::embed(%s) on the rotated data returns non-finite values" % c["method"])
                continue
            R = rots[i]
            # the clause is about the pencil for the SAME alignment / weight matrix: kernel and distance
            # values are rotation invariant (rotation_keeps_kernel_values), but M computed from the rounded R X
            # can differ when M itself is ill-conditioned (C08's territory); then the comparison says nothing
            try:
                M1 = [parse_hex(x) for x in p["Mtok"]]
                M2 = [parse_hex(x) for x in q["Mtok"]]
                nm = math.sqrt(math.fsum(x * x for x in M1))
                dm = math.sqrt(math.fsum((x - y) ** 2 for x, y in zip(M1, M2)))
            except (ValueError, OverflowError):
                nm, dm = 0.0, 1.0
            stats["rot_max_M_reldiff"] = max(stats["rot_max_M_reldiff"], dm / max(nm, 1e-300))
            if not dm <= 1e-9 * max(nm, 1e-300):
                stats["rot_skipped_unstable_M"] += 1
                continue
            Y2 = unflat(q["Y"], N, d)
            P2 = unflat(q["P"], D, d)
            RP = matmul(R, P)
            bad = []
            for j in range(d):
                gaps = []
                if j > 0:
                    gaps.append(abs(ref[j] - ref[j - 1]))
                if j + 1 < len(ref):
                    gaps.append(abs(ref[j + 1] - ref[j]))
                if min(gaps) <= GAP_MIN * spread:
                    stats["rot_skipped_gap"] += 1
                    continue
                for name, A, B in (("embedding", [r[j] for r in Y], [r[j] for r in Y2]),
                                   ("projection", [r[j] for r in RP], [r[j] for r in P2])):
                    na = math.sqrt(math.fsum(x * x for x in A))
                    nb = math.sqrt(math.fsum(x * x for x in B))
                    cs = abs(math.fsum(x * y for x, y in zip(A, B))) / max(na * nb, 1e-300)
                    rel = abs(na - nb) / max(na, nb, 1e-300)
                    stats["rot_min_cos"] = min(stats["rot_min_cos"], cs)
                    if not (1 - cs <= ROT_TOL and rel <= 1e-4):
                        bad.append("%s column %d: |cos| = %.6f, norms %.6g vs %.6g" % (name, j, cs, na, nb))
                stats["rot_cols"] += 1
            if bad:
                ctx.violation(c, "tapkee::embed(%s), N=%d D=%d d=%d: rotating the feature space (X -> R X, R "
                                 "orthogonal) changes the result beyond column sign: %s"
                              % (c["method"], N, D, d, "; ".join(bad[:4])))
                stats["rot_fail"] += 1
            else:
                stats["rot_ok"] += 1
    return len(lines)


# ----------------------------------------------------------------------------- driver
def translate(ctx):
    """T-eig: regenerate coq/gen/EigSelect.v (owned by C05, shared) from the tree under test; Pencil_Proof_Tie.v
    proves that the model's column selector is the expression found in generalized_eigendecomposition.hpp"""
    import importlib
    import os
    import sys
    tdir = os.path.join(ctx.verif, "translate")
    if tdir not in sys.path:
        sys.path.insert(0, tdir)
    try:
        mod = importlib.import_module("t_eig")
    except Exception as ex:  # noqa
        ctx.note("translate/t_eig.py not importable (%r): generated table left as it is" % (ex,))
        return None
    out = os.path.join(ctx.verif, "coq", "gen", "EigSelect.v")
    try:
        text = mod.emit(mod.parse(ctx.repo))
    except mod.TranslateError as ex:
        ctx.unshown("t_eig cannot read the selection expressions of the solver front ends any more: %s" % ex)
        return None
    except OSError as ex:
        ctx.unshown("t_eig: %s" % ex)
        return None
    mod.write_if_changed(out, text)
    return text


def build_all(ctx):
    """Coq, extraction and the two C++ builds side by side"""
    out, err = {}, {}
    table_text = translate(ctx)

    def job(name, fn):
        try:
            out[name] = fn()
        except vlib.BuildError as ex:
            err[name] = ex
        except Exception as ex:  # noqa
            err[name] = vlib.BuildError("%s: %r" % (name, ex))

    def coq_then_extract():
        import os
        res = ctx.coq()
        gen = os.path.join(ctx.verif, "coq", "gen", "EigSelect.v")
        if table_text is not None and not res.ok and os.path.exists(gen) and open(gen).read() != table_text:
            # another check regenerated the shared table from ANOTHER tree while we were building
            ctx.note("coq/gen/EigSelect.v was rewritten by a concurrent run from another tree; rebuilding once")
            ctx._unshown[:] = [u for u in ctx._unshown if "proof obligations" not in u]
            translate(ctx)
            res = ctx.coq()
        out["coq"] = res
        return ctx.extract()

    ts = [threading.Thread(target=job, args=("mexe", coq_then_extract)),
          threading.Thread(target=job, args=("exe1", lambda: ctx.cpp("harness/c10.cpp", name="c10_p1",
                                                                     defines=["C10_PART=1"], extra=["-g0"]))),
          threading.Thread(target=job, args=("exe2", lambda: ctx.cpp("harness/c10.cpp", name="c10_p2",
                                                                     defines=["C10_PART=2"], extra=["-g0"])))]
    for t in ts:
        t.start()
    for t in ts:
        t.join()
    for name in ("exe1", "exe2", "mexe"):
        if name in err:
            raise err[name]
    REBUILD[out["mexe"]] = lambda: ctx.extract()
    REBUILD[out["exe1"]] = lambda: ctx.cpp("harness/c10.cpp", name="c10_p1", defines=["C10_PART=1"], extra=["-g0"])
    REBUILD[out["exe2"]] = lambda: ctx.cpp("harness/c10.cpp", name="c10_p2", defines=["C10_PART=2"], extra=["-g0"])
    return out["exe1"], out["exe2"], out["mexe"]


def new_stats():
    return {"malformed": 0, "spec_ok": 0, "spec_fail": 0, "other_triangle_differs": 0, "g_ok": 0,
            "select_bad": 0, "e_ok": 0, "e_fail": 0, "ref_failed": 0, "rot_ok": 0, "rot_fail": 0,
            "j_ok": 0, "j_fail": 0, "chain_ok": 0, "chain_bad": 0, "chain_missing": 0, "rot_cols": 0, "rot_skipped_gap": 0, "rot_skipped_unstable_M": 0, "rot_max_M_reldiff": 0.0, "rot_min_cos": 1.0, "e_max_res": 0.0, "e_max_res_case": "", "e_max_condB": 0.0, "e_skipped_illconditioned": 0, "e_ok_structural_only": 0, "e_randomized_refused": 0, "triangle_votes": {},
            "e_huge_exception": 0, "e_huge_matrix": 0, "pencil_judged": 0, "pencil_max_err": 0.0, "e_singular_rhs": 0, "trans_ok": 0, "trans_fail": 0, "trans_cols": 0,
            "trans_skipped_gap": 0, "trans_skipped_unstable_M": 0, "trans_min_cos": 1.0}


K_KINDS = ("plain", "plain", "correlated", "symmetric", "alignment", "empty", "zero")


def make_cases(rng, nk, ng, ne, big=False):
    kc = []
    for m in METHODS:
        for i in range(nk):
            kc.append(gen_k_case(rng, m, K_KINDS[i % len(K_KINDS)]))
            kc.append(scale_k_case(rng, kc[-1]))
        for _ in range(max(1, nk // 20)):
            kc.append(gen_k_malformed(rng, m))
        for _ in range(max(1, nk // 100)):
            kc.append(gen_k_case(rng, m, "large"))
        # large offset relative to the spread, common / per feature (Wave 3), each also in other units
        for i in range(max(12, nk // 8)):
            kc.append(gen_k_offset_case(rng, m, per_feature=(i % 3 == 2)))
            kc.append(scale_k_case(rng, kc[-1]))
    gc = [gen_g_case(rng) for _ in range(ng)]
    ec = []
    for m in METHODS:
        for i in range(ne):
            ec.append(gen_e_case(rng, m, big and i % 3 == 2))
    if ne:
        # LPP over kernel widths spanning 40 decades of heat weights (one case per stratum and round)
        for _ in range(max(1, ne // 8)):
            for lo, hi in LATTICE_STRATA:
                ec.append(gen_e_lattice_case(rng, rng.uniform(lo, hi)))
        # large offset relative to the spread (Wave 3): offset / spread 1e3 .. 1e8, common / per feature; the kernel
        # sees the untranslated data (every ratio) or the offset as well (ratios <= 1e4); LLTSA with its twin
        for rnd in range(max(1, ne // 10)):
            for m in METHODS:
                for ei, ex in enumerate(E_OFFSET_EXP):
                    ratio = 10.0 ** (ex + rng.uniform(-0.3, 0.3))
                    ec.append(gen_e_offset_case(rng, m, ratio, False, per_feature=((ei + rnd) % 3 == 2)))
                for ex in (3, 4):
                    ratio = 10.0 ** (ex + rng.uniform(-0.3, 0.3))
                    ec.append(gen_e_offset_case(rng, m, ratio, True, per_feature=(rnd % 2 == 1)))
        # the other values of eigen_method: not given (library default) and Randomized (must be refused, or right)
        for m in METHODS:
            for em in (1, 2, 3):
                for _ in range(max(1, ne // 10)):
                    c = gen_e_case(rng, m, False)
                    c["em"] = em
                    c["gen"] = "latent/em=%d" % em
                    ec.append(c)
        # HUGE finite magnitudes (Wave 3): squares of the feature values overflow binary64.  The outcome must be a
        # documented exception or a matrix (both accepted, nothing numerical is judged); a crash, std::terminate, a
        # sanitizer report or a hang is a violation like everywhere else
        for m in METHODS:
            for _ in range(max(1, ne // 20)):
                c = gen_e_case(rng, m, False)
                up = 2.0 ** rng.choice([520, 600, 900])
                c["X"] = [[hexf(parse_hex(x) / c["scale"] * up) for x in row] for row in c["X"]]
                c["scale"] = up
                c["huge"] = True
                c["gen"] = "huge"
                ec.append(c)
    return kc, gc, ec


def run(ctx):
    rng = ctx.rng
    exe1, exe2, mexe = build_all(ctx)
    stats = new_stats()
    stats["t_build_s"] = round(ctx.elapsed(), 1)
    hist = {"corpus": 0, "K": {}, "G": 0, "E": {}}
    quick = ctx.quick
    nk, ng, ne = (80, 24, 10) if quick else (2500, 400, 400)
    kc, gc, ec = make_cases(rng, nk, ng, ne, big=not quick)
    ck, ce, cg = [], [], []
    for name, c in ctx.corpus():
        hist["corpus"] += 1
        {"K": ck, "E": ce, "G": cg, "J": ck}.get(c.get("kind"), ck).append(c)
    kc, gc, ec = ck + kc, cg + gc, ce + ec
    n = 0
    ng_done, reads = eval_g(ctx, exe1, gc, stats)
    n += ng_done
    if reads != "lower":
        ctx.unshown("oracle contract: the generalised solver no longer reads (only) the lower triangles "
                    "(probe votes %s); the model's `seen` = read_lower does not describe it" % stats["triangle_votes"])
    stats["t_g_done_s"] = round(ctx.elapsed(), 1)
    n += eval_k(ctx, exe1, mexe, [c for c in kc if c.get("kind") != "J"], stats, reads=reads or "lower")
    jc = [c for c in ck if c.get("kind") == "J"] + [gen_j_case(rng) for _ in range(80 if quick else 1500)]
    kc = [c for c in kc if c.get("kind") != "J"]
    n += eval_j(ctx, exe1, mexe, jc, stats)
    hist["J"] = len(jc)
    stats["t_k_done_s"] = round(ctx.elapsed(), 1)
    n += eval_e(ctx, exe1, exe2, ec, stats, rng)
    stats["t_e_done_s"] = round(ctx.elapsed(), 1)
    if ctx.is_unshown():
        # search phase: the same exact and public-API checks at a larger budget
        ctx.note("search phase entered: " + "; ".join(ctx._unshown)[:300])
        kc2, gc2, ec2 = make_cases(rng, (5 if quick else 1) * nk, 0, (3 if quick else 1) * ne, big=True)
        n += eval_k(ctx, exe1, mexe, kc2, stats, reads=reads or "lower")
        n += eval_j(ctx, exe1, mexe, [gen_j_case(rng) for _ in range(400)], stats)
        if not ctx.has_violation():
            n += eval_e(ctx, exe1, exe2, ec2, stats, rng)
        kc, ec = kc + kc2, ec + ec2
    for c in kc:
        key = c["method"] + "/" + c["gen"]
        hist["K"][key] = hist["K"].get(key, 0) + 1
    hist["G"] = len(gc)
    for c in ec:
        off = c.get("offset", 0)
        if c.get("offset_ratio"):
            off = 10.0 ** round(math.log10(c["offset_ratio"]))
        key = "%s/%s/D=%d/offset=%g" % (c["method"], c.get("gen", "latent"), c["D"], off)
        hist["E"][key] = hist["E"].get(key, 0) + 1
    distinct = set()
    for c in kc:
        if c["N"] >= 2 and c["D"] >= 2 and len(c["W"]) >= 1 and not c["gen"].startswith("malformed"):
            distinct.add(hashlib.sha1(json.dumps(c, sort_keys=True).encode()).hexdigest())
    for c in ec:
        distinct.add(hashlib.sha1(json.dumps([c["method"], c["N"], c["D"], c["d"], c["k"], c["X"][0]]).encode()).hexdigest())
    samples = []
    for c in kc[:2] + ec[:1]:
        s = dict(c)
        if s["kind"] == "E":
            s["X"] = s["X"][:2] + ["... %d rows" % len(c["X"])]
            s.pop("R", None)
            for kk in ("X0", "XK"):
                if kk in s:
                    s[kk] = "... %d rows" % len(c[kk])
        samples.append(s)
    ctx.finish(
        evaluations=n, distinct_nontrivial=len(distinct),
        rule="K: exact dyadic cases per method x generator kind (plain, correlated features, symmetric W, "
             "alignment-like W with zero row/column sums, empty W, zero X, malformed index, large = N 16..64 and D 17..33, "
             "offset-common / offset-per-feature = offset +-m 2^p with p up to 44 (LLTSA) / 20 (NPE, LPP) and spread 1..8, exact in binary64 for the code's formulas), every case a second time "
             "with W/L, the degree vector and the features multiplied by powers of two in 2^-70..2^70 (+scaled); "
             "non-trivial = N>=2, D>=2, nnz>=1, distinct by hash. G: random pencils whose two triangles hold different symmetric "
             "matrices. E: public-API runs (latent 3-d structure, correlated noise, offsets 0..20, D 2..8 quick / "
             "..30 thorough, exact duplicate samples in 15 %), every second one also on R X; offset-* = exact translates by "
             "1e3..1e8 spreads (LLTSA also on the untranslated twin), em=3 = called inside an OpenMP parallel region, "
             "huge = values times 2^520..2^900. J: exact compute_mean/project cases (N = 2^k, dyadic X "
             "and P, 30 % with offsets 2^20..2^40). evaluations = K + G + J + E(+rotated, +twin) driver runs.",
        samples=samples, histogram={"generators": hist, "stats": stats},
        trusted_base=TRUSTED, assumptions=ASSUMPTIONS,
        extra={"tolerances": {"chain": CHAIN_TOL, "cond_max": COND_MAX, "residual": RES_TOL, "rayleigh": RQ_TOL, "gram": GRAM_TOL, "embedding": EMB_TOL,
                              "rotation_1_minus_cos": ROT_TOL, "min_relative_gap": GAP_MIN},
               "pencil_tolerance": PENCIL_TOL, "singular_cond": SINGULAR_COND,
               "numerical_only_distinctions": "lltsa_rhs_one_pass_equal: sum x x^T - N m m^T = sum (x-m)(x-m)^T over every "
                                              "field; the exact model cannot separate them, the large-offset inputs of the K "
                                              "stream (exact for the centred form only) and the tolerance stream decide",
               "exact_stream_cases": len(kc), "tolerance_stream_cases": len(ec) + len(gc)})


def replay(ctx, case):
    exe1, exe2, mexe = build_all(ctx)
    stats = new_stats()
    kind = case.get("kind", "K")
    if kind == "K":
        eval_k(ctx, exe1, mexe, [case], stats)
        res, info = run_lines(ctx, exe1, [k_line_impl(case)], 120)
        print("implementation:", (res[0] or str(info[0]))[:600])
        mr = mrun(ctx, mexe, "K 3 " + k_body_model(case) + "\nP " + k_body_model(case) + "\n")
        print("model / reference pencil:", mr.out[:800])
    elif kind == "G":
        eval_g(ctx, exe1, [case], stats)
    elif kind == "J":
        eval_j(ctx, exe1, mexe, [case], stats)
    else:
        eval_e(ctx, exe1, exe2, [case], stats, ctx.rng, rotate_every=1)
    print("stats:", json.dumps(stats))
    for c, why in ctx._violations[:3]:
        print("why:", why[:800])
    if ctx.has_violation() or ctx.is_unshown():
        print("replay: property C10 FAILS on this case")
        return 1
    print("replay: property C10 holds on this case")
    return 0
